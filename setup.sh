#!/bin/sh
# Nothing to build or install: syntax-check the analysis package.
cd "$(dirname "$0")" || exit 1
PY=/venv/bin/python
[ -x "$PY" ] || PY=python3
"$PY" -B - <<'PYEOF'
import ast, os, sys
n = 0
for d, _, fs in os.walk("sa"):
    for f in fs:
        if f.endswith(".py"):
            ast.parse(open(os.path.join(d, f)).read(), os.path.join(d, f)); n += 1
print(f"setup: {n} analysis modules parse; no build step")
PYEOF
