#!/usr/bin/env python3
"""Generate MANIFEST.json from the table below (kept in one place so the manifest is always valid)."""
import json, os
V = os.path.dirname(os.path.dirname(os.path.abspath(__file__)))

# pid -> (technique, level, level text, level note, design ref)   -- only properties whose check exists
CLAIMED = {}
NOT_YET = {}
exec(open(os.path.join(V, "tools", "claims.py")).read())

props = [json.loads(l) for l in open(os.path.join(V, "properties.jsonl"))]
checks = []
na = []
for p in props:
    pid = p["id"]
    if pid in CLAIMED:
        c = CLAIMED[pid]
        checks.append({
            "property_id": pid,
            "quick_cmd": f"./check {pid} --tier quick",
            "thorough_cmd": f"./check {pid} --tier thorough",
            "evidence_file": f"/verif/evidence/{pid}.json",
            "replay_cmd_template": f"./check {pid} --replay {{path}}",
            "engine": c.get("engine", "sa"),
            "level_claimed": {"category": c["level"], "text": c["text"], "design_ref": f"DESIGN.md §3/{pid}"},
            "level_note": c["note"],
            "technique": c["technique"],
        })
    else:
        na.append({"property_id": pid, "reason": NOT_YET.get(pid, "check not built yet (static-analysis design in DESIGN.md §3; will be claimed once the rule set passes its self-validation)")})
m = {
    "version": 1,
    "setup_cmd": "./setup.sh",
    "hooks": {
        "guard": "TOREAMUN_AMSHAN_VERIF",
        "enable": "not needed: the checks parse /repo's working tree with ast and never import or run it; no hook commit exists",
        "baseline_off_cmd": "cd /repo && /venv/bin/python -m pytest -q -p no:cacheprovider",
        "source_commits": [],
        "add_only": True,
    },
    "engines": ENGINES,
    "checks": checks,
    "notes": NOTES,
    "not_applicable": na,
}
json.dump(m, open(os.path.join(V, "MANIFEST.json"), "w"), indent=1)
print("claimed", [c["property_id"] for c in checks], "not_applicable", [n["property_id"] for n in na])
