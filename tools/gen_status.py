#!/usr/bin/env python3
"""Rewrite the four counted rows of the status table in DESIGN.md §8.1 from the stored meta.json files (idempotent; rows are recognised by their first cell)."""
import json, os, re
V = os.path.dirname(os.path.dirname(os.path.abspath(__file__)))
p = os.path.join(V, "DESIGN.md")
s = open(p).read()


def key(d):
    a, b = d.split("-")
    return (a, int(b))


se = []
for d in sorted(os.listdir(os.path.join(V, "seeded")), key=key):
    m = json.load(open(os.path.join(V, "seeded", d, "meta.json")))
    se.append((d, m["property"], m.get("detected_by", []), m.get("undecided_in", []), int(d.split("-")[1])))


def seeded_row(lo, hi):
    part = [x for x in se if lo <= x[4] <= hi]
    own = [x for x in part if x[1] in x[2]]
    und = [x[0] for x in part if x[1] not in x[2] and x[1] in x[3]]
    oth = [(x[0], x[2]) for x in part if x[1] not in x[2] and x[1] not in x[3] and x[2]]
    miss = [x[0] for x in part if x[1] not in x[2] and x[1] not in x[3] and not x[2]]
    t = f"{len(own)} reported as VIOLATION by the check of their own property; {len(und)} end UNDECIDED (exit 2) there ({', '.join(und)})"
    if oth:
        t += f"; {len(oth)} reported only by the check of another property (" + "; ".join(f"{d} by {'/'.join(v)}" for d, v in oth) + ")"
    t += f"; {len(miss)} reported by no check" + (f" ({', '.join(miss)})" if miss else "")
    return len(part), t


ne = []
for d in sorted(os.listdir(os.path.join(V, "seeded_neutral")), key=lambda d: (d.split("-")[0], int(d.split("-")[1]))):
    m = json.load(open(os.path.join(V, "seeded_neutral", d, "meta.json")))
    ne.append((d, m.get("checks_exit_nonzero", []), m.get("checks_reporting_violation", [])))


def neutral_row(letters):
    part = [x for x in ne if x[0][0] in letters]
    und = [x[0] for x in part if x[1]]
    viol = [x[0] for x in part if x[2]]
    t = f"{len(part) - len(und)} silent on all 20 checks; {len(und)} end UNDECIDED (exit 2) in at least one check ({', '.join(und)}); " + \
        ("none prints VIOLATION" if not viol else f"PRINT VIOLATION: {', '.join(viol)}")
    return len(part), t


rows = {
    "| seeded changes, rounds 1-6 (`Cxx-1..18`)": seeded_row(1, 18),
    "| seeded changes, rounds 7-9 (`Cxx-19..27`": seeded_row(19, 27),
    "| behaviour-preserving refactorings, rounds 2-6": neutral_row("NMPQR"),
    "| behaviour-preserving refactorings, rounds S, T, Z, A": neutral_row("STZA"),
}
out = []
for line in s.split("\n"):
    for k, (n, t) in rows.items():
        if line.startswith(k):
            cells = line.split(" | ")
            # keep the first cell, replace count and outcome; keep an explanatory tail after ' -- ' if present
            tail = ""
            if " -- " in cells[-1]:
                tail = " -- " + cells[-1].split(" -- ", 1)[1].rstrip(" |")
            line = f"{cells[0]} | {n} | {t}{tail} |"
    out.append(line)
open(p, "w").write("\n".join(out))
print({k: v[0] for k, v in rows.items()})
