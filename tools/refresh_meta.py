#!/usr/bin/env python3
"""Re-run all 20 checks on every stored change (scratch copies, parallel) and refresh detected_by / undecided_in / checks_exit_nonzero in the
meta.json files; then the DESIGN tables can be regenerated (tools/gen_design_tables.py)."""
import json, os, sys
from concurrent.futures import ProcessPoolExecutor
sys.path.insert(0, os.path.dirname(os.path.abspath(__file__)))
from matrix import one
V = os.path.dirname(os.path.dirname(os.path.abspath(__file__)))

def main():
    dirs = [os.path.join(V, k, d) for k in ("seeded", "seeded_neutral") for d in sorted(os.listdir(os.path.join(V, k)))]
    bad = 0
    with ProcessPoolExecutor(max_workers=12) as ex:
        for d, res in ex.map(one, dirs):
            if not isinstance(res, dict):
                print("PROBLEM", d, res)
                bad += 1
                continue
            mp = os.path.join(d, "meta.json")
            m = json.load(open(mp))
            viol = [p for p, x in res.items() if x[0] == 1]
            und = [p for p, x in res.items() if x[0] == 2]
            if "seeded_neutral" in d:
                m["checks_exit_nonzero"] = viol + und
                m["checks_reporting_violation"] = viol
                if viol:
                    print("NEUTRAL WITH VIOLATION", d, viol)
                    bad += 1
            else:
                m["detected_by"], m["undecided_in"] = viol, und
                if m["property"] not in viol:
                    print("not reported as violation by own check:", d, "undecided" if m["property"] in und else "MISSED")
            json.dump(m, open(mp, "w"), indent=1)
    return 1 if bad else 0

if __name__ == "__main__":
    sys.exit(main())
