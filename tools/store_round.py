#!/usr/bin/env python3
"""Store confirmed sub-agent changes under /verif: seeded (property-breaking) -> seeded/<Cxx-k>/ ; neutral refactors -> seeded_neutral/<id>/.
usage: store_round.py seeded <src dir> <id> <property> | neutral <src dir> <id>"""
import json, os, shutil, subprocess, sys
sys.path.insert(0, os.path.dirname(os.path.abspath(__file__)))
from verify_seeded import one as verify_one
from matrix import one as matrix_one
V = os.path.dirname(os.path.dirname(os.path.abspath(__file__)))
head = subprocess.run(["git", "-C", "/repo", "rev-parse", "--short", "HEAD"], capture_output=True, text=True).stdout.strip()

def main():
    kind, srcd, ident = sys.argv[1:4]
    dst = os.path.join(V, "seeded" if kind == "seeded" else "seeded_neutral", ident)
    os.makedirs(dst, exist_ok=True)
    for f in ("patch.diff", "demo.py"):
        shutil.copy(os.path.join(srcd, f), os.path.join(dst, f))
    desc = open(os.path.join(srcd, "desc.txt")).read() if os.path.exists(os.path.join(srcd, "desc.txt")) else ""
    _, res = matrix_one(dst)
    viol = [p for p, x in res.items() if x[0] == 1] if isinstance(res, dict) else []
    und = [p for p, x in res.items() if x[0] == 2] if isinstance(res, dict) else []
    if kind == "seeded":
        prop = sys.argv[4]
        v = verify_one(dst)
        meta = {"id": ident, "property": prop, "source": "independent sub-agent given only the property text and a scratch worktree (round " + os.environ.get("ROUND", "3") + ")", "repo_head": head,
                "needs_to_manifest": desc, "confirmed": {"patch_applies": v.get("applies"), "pinned_suite_with_patch": v.get("tests_tail"), "demo_unmodified_exit": v.get("demo_clean"),
                                                         "demo_patched_exit": v.get("demo_patched"), "demo_patched_tail": v.get("demo_tail")},
                "what_i_ran": "tools/verify_seeded.py in a scratch git worktree of /repo (removed afterwards); the demo is run as <worktree>/out/1/demo.py",
                "detected_by": viol, "undecided_in": und}
        ok = v.get("confirmed") and prop in viol
    else:
        meta = {"id": ident, "kind": "behaviour-preserving refactoring", "source": "independent sub-agent given only the module and a scratch worktree", "repo_head": head, "description": desc,
                "checks_exit_nonzero": viol + und}
        ok = not viol and not und
    json.dump(meta, open(os.path.join(dst, "meta.json"), "w"), indent=1)
    print(ident, "OK" if ok else "PROBLEM", viol, und)

if __name__ == "__main__":
    main()
