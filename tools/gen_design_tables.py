#!/usr/bin/env python3
"""Fill the seeded / neutral tables of DESIGN.md §8.5/§8.6 from the stored meta.json files (idempotent: tables live between markers)."""
import json, os, re
V = os.path.dirname(os.path.dirname(os.path.abspath(__file__)))
p = os.path.join(V, "DESIGN.md")
s = open(p).read()

def first(t, n=150):
    t = " ".join(t.split())
    return t[:n].replace("|", "/")

rows = ["| seeded id | change (beginning of the agent's description) | reported by |", "|---|---|---|"]
n = own = 0
for d in sorted(os.listdir(os.path.join(V, "seeded"))):
    m = json.load(open(os.path.join(V, "seeded", d, "meta.json")))
    det = m.get("detected_by", [])
    n += 1
    own += m["property"] in det
    rows.append(f"| {d} | {first(m.get('needs_to_manifest', ''))} | {', '.join(det)} |")
rows.append("")
rows.append(f"{own} of {n} are reported by the check of the property they were written against.")
seeded = "\n".join(rows)
rows = ["| id | refactoring (beginning of the agent's description) | checks that exit non-zero |", "|---|---|---|"]
for d in sorted(os.listdir(os.path.join(V, "seeded_neutral"))):
    m = json.load(open(os.path.join(V, "seeded_neutral", d, "meta.json")))
    rows.append(f"| {d} | {first(m.get('description', ''), 170)} | {', '.join(m.get('checks_exit_nonzero', [])) or 'none'} |")
neutral = "\n".join(rows)
for name, body in (("SEEDED", seeded), ("NEUTRAL", neutral)):
    a, b = f"<!-- {name}_TABLE begin -->", f"<!-- {name}_TABLE end -->"
    block = f"{a}\n{body}\n{b}"
    if f"@@{name}_TABLE@@" in s:
        s = s.replace(f"@@{name}_TABLE@@", block)
    else:
        s = re.sub(re.escape(a) + r".*?" + re.escape(b), lambda _: block, s, flags=re.S)
open(p, "w").write(s)
print("tables written")
