#!/usr/bin/env python3
"""Confirm a seeded change in a scratch worktree (never in /repo): patch applies, the pinned suite passes with it, the demo passes
without it and fails with it.  usage: verify_seeded.py <dir with patch.diff, demo.py> ...   prints one JSON line per dir"""
import json, os, shutil, subprocess, sys, tempfile
from concurrent.futures import ProcessPoolExecutor

def run(cmd, cwd, timeout=600):
    try:
        r = subprocess.run(cmd, cwd=cwd, capture_output=True, text=True, timeout=timeout)
        return r.returncode, (r.stdout + r.stderr)[-400:]
    except subprocess.TimeoutExpired:
        return 124, "timeout"

def one(d):
    tmp = tempfile.mkdtemp(prefix="vs_")
    res = {"dir": d}
    try:
        subprocess.run(["git", "-C", "/repo", "worktree", "add", "-q", "--detach", tmp, "HEAD"], check=True, capture_output=True)
        os.makedirs(os.path.join(tmp, "out", "1"))
        shutil.copy(os.path.join(d, "demo.py"), os.path.join(tmp, "out", "1", "demo.py"))
        res["demo_clean"], _ = run(["/venv/bin/python", "out/1/demo.py"], tmp)
        a, msg = run(["git", "apply", os.path.abspath(os.path.join(d, "patch.diff"))], tmp)
        res["applies"] = a == 0
        if a == 0:
            t, out = run(["/venv/bin/python", "-m", "pytest", "-q", "-p", "no:cacheprovider", "-x"], tmp)
            res["tests_with_patch"] = t
            res["tests_tail"] = out.strip().splitlines()[-1] if out.strip() else ""
            res["demo_patched"], tail = run(["/venv/bin/python", "out/1/demo.py"], tmp)
            res["demo_tail"] = tail.strip().splitlines()[-1][:160] if tail.strip() else ""
        res["confirmed"] = bool(res.get("applies") and res.get("demo_clean") == 0 and res.get("tests_with_patch") == 0 and res.get("demo_patched") not in (0, None))
    finally:
        subprocess.run(["git", "-C", "/repo", "worktree", "remove", "--force", tmp], capture_output=True)
        shutil.rmtree(tmp, ignore_errors=True)
    return res

if __name__ == "__main__":
    with ProcessPoolExecutor(max_workers=8) as ex:
        for r in ex.map(one, sys.argv[1:]):
            print(json.dumps(r))
