#!/usr/bin/env python3
"""Store a whole round of confirmed sub-agent changes under /verif from saved results (no check is run here):
  store_fast.py seeded  <verify.jsonl> <matrix output> <round> <first k> <src glob prefix, e.g. /tmp/wt/W>
  store_fast.py neutral <matrix output> <prefix letter, e.g. S> <src glob prefix, e.g. /tmp/wt/S>
verify.jsonl is the output of tools/verify_seeded.py, the matrix output that of tools/matrix.py (own check only for seeded changes, all checks for
neutral ones).  Unconfirmed seeded changes are skipped."""
import glob, json, os, re, shutil, subprocess, sys
V = os.path.dirname(os.path.dirname(os.path.abspath(__file__)))
head = subprocess.run(["git", "-C", "/repo", "rev-parse", "--short", "HEAD"], capture_output=True, text=True).stdout.strip()


def parse_matrix(path):
    res, cur = {}, None
    for line in open(path):
        m = re.match(r"^(/\S+): (?:own=(C\d\d) (\S+) viol=(\[.*?\]) und=(\[.*?\])|NEUTRAL (\S+))", line)
        if m:
            cur = m.group(1)
            if m.group(2):
                res[cur] = {"own": m.group(2), "status": m.group(3), "viol": eval(m.group(4)), "und": eval(m.group(5))}
            else:
                res[cur] = {"neutral": m.group(6), "bad": {}}
            continue
        m = re.match(r"^\s+(C\d\d) \[(\d), ", line)
        if m and cur and "bad" in res[cur]:
            res[cur]["bad"][m.group(1)] = int(m.group(2))
    return res


def main():
    kind = sys.argv[1]
    if kind == "seeded":
        ver = {}
        for l in open(sys.argv[2]):
            try:
                d = json.loads(l)
                ver[d["dir"]] = d
            except Exception:
                pass
        mx = parse_matrix(sys.argv[3])
        rnd, k0, prefix = sys.argv[4], int(sys.argv[5]), sys.argv[6]
        n = 0
        for src in sorted(glob.glob(prefix + "[0-9][0-9]/out/[0-9]")):
            prop = "C" + src.split("/")[-3][1:]
            k = int(src.split("/")[-1])
            v = ver.get(src)
            if not v or not v.get("confirmed"):
                print("skip (not confirmed):", src)
                continue
            r = mx.get(src)
            if r is None:
                print("skip (no matrix result):", src)
                continue
            ident = f"{prop}-{k0 + k - 1}"
            dst = os.path.join(V, "seeded", ident)
            os.makedirs(dst, exist_ok=True)
            for f in ("patch.diff", "demo.py"):
                shutil.copy(os.path.join(src, f), os.path.join(dst, f))
            desc = open(os.path.join(src, "desc.txt")).read() if os.path.exists(os.path.join(src, "desc.txt")) else ""
            meta = {"id": ident, "property": prop, "source": f"independent sub-agent given only the property text and a scratch worktree (round {rnd})", "repo_head": head,
                    "needs_to_manifest": desc, "confirmed": {"patch_applies": v.get("applies"), "pinned_suite_with_patch": v.get("tests_tail"), "demo_unmodified_exit": v.get("demo_clean"),
                                                             "demo_patched_exit": v.get("demo_patched"), "demo_patched_tail": v.get("demo_tail")},
                    "what_i_ran": "tools/verify_seeded.py in a scratch git worktree of /repo (removed afterwards); the demo is run as <worktree>/out/1/demo.py",
                    "detected_by": r["viol"], "undecided_in": r["und"], "checks_run": "own property only (tools/matrix.py with MX_OWN=1)"}
            json.dump(meta, open(os.path.join(dst, "meta.json"), "w"), indent=1)
            n += 1
        print("stored", n)
    else:
        mx = parse_matrix(sys.argv[2])
        letter, prefix = sys.argv[3], sys.argv[4]
        n = 0
        for src in sorted(glob.glob(prefix + "[0-9]/out/[0-9]")):
            r = mx.get(src)
            if r is None:
                print("skip (no matrix result):", src)
                continue
            ident = f"{letter}{src.split('/')[-3][1:]}-{src.split('/')[-1]}"
            dst = os.path.join(V, "seeded_neutral", ident)
            os.makedirs(dst, exist_ok=True)
            for f in ("patch.diff", "demo.py"):
                shutil.copy(os.path.join(src, f), os.path.join(dst, f))
            desc = open(os.path.join(src, "desc.txt")).read() if os.path.exists(os.path.join(src, "desc.txt")) else ""
            viol = [p for p, c in r["bad"].items() if c == 1]
            und = [p for p, c in r["bad"].items() if c == 2]
            meta = {"id": ident, "kind": "behaviour-preserving refactoring", "source": "independent sub-agent given only the module and a scratch worktree", "repo_head": head, "description": desc,
                    "checks_exit_nonzero": viol + und, "checks_reporting_violation": viol}
            json.dump(meta, open(os.path.join(dst, "meta.json"), "w"), indent=1)
            n += 1
        print("stored", n)


if __name__ == "__main__":
    main()
