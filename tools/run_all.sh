#!/bin/sh
# run every claimed check (tier $1, default quick) on /repo's working tree; print one line per property
cd "$(dirname "$0")/.." || exit 2
TIER=${1:-quick}
rc=0
for p in C01 C02 C03 C04 C05 C06 C07 C08 C09 C10 C11 C12 C13 C14 C15 C16 C17 C18 C19 C20; do
  s=$(date +%s.%N)
  out=$(./check $p --tier $TIER 2>&1); code=$?
  e=$(date +%s.%N)
  printf "%s exit=%s %.1fs %s\n" $p $code $(echo "$e - $s" | bc) "$(echo "$out" | head -1 | cut -c1-110)"
  [ $code -ne 0 ] && rc=1 && echo "$out" | grep -E "VIOLATION|INCOMPLETE" | head -5
done
exit $rc
