#!/usr/bin/env python3
"""Development helper: matrix of seeded patches x all claimed checks, each patch applied in its own scratch copy (parallel)."""
import json, os, shutil, subprocess, sys, tempfile
from concurrent.futures import ProcessPoolExecutor
V = os.path.dirname(os.path.dirname(os.path.abspath(__file__)))
PROPS = [c["property_id"] for c in json.load(open(os.path.join(V, "MANIFEST.json")))["checks"]]

def is_neutral(d):
    return any(t in d for t in ("/wt/N", "/wt/B", "/wt/M", "/wt/P", "/wt/Q", "/wt/S", "/wt/T", "/wt/Z", "/wt/A", "seeded_neutral"))


def own_of(d):
    return ("C" + os.path.basename(os.path.dirname(os.path.dirname(d)))[1:]) if "/out/" in d + "/" else json.load(open(os.path.join(d, "meta.json")))["property"]


def one(d):
    patch = os.path.join(d, "patch.diff")
    if not os.path.exists(patch):
        return d, None
    tmp = tempfile.mkdtemp(prefix="mx_")
    try:
        shutil.rmtree(tmp, ignore_errors=True)
        shutil.copytree("/repo", tmp, ignore=shutil.ignore_patterns(".git", "__pycache__", ".pytest_cache", "*.egg-info"))
        r = subprocess.run(["git", "apply", patch], cwd=tmp, capture_output=True, text=True)
        if r.returncode:
            return d, "NOAPPLY " + r.stderr.strip()[:80]
        env = dict(os.environ, AMSHAN_REPO=tmp)
        props = [p_ for p_ in PROPS if not os.environ.get("MX_PROPS") or p_ in os.environ["MX_PROPS"].split(",")]
        if os.environ.get("MX_OWN") and not is_neutral(d):
            props = [own_of(d)]
        code = ("import json,sys\nfrom sa.main import run_property\nout={}\n"
                f"for p in {props!r}:\n    rep,c=run_property(p,'quick',0,write=False,quiet=True)\n    out[p]=[c,[f.rule+':'+f.construct for f in rep.findings][:3],[u[:90] for u in rep.undecided][:2]]\nprint(json.dumps(out))")
        r = subprocess.run(["/venv/bin/python", "-B", "-c", code], cwd=V, env=env, capture_output=True, text=True)
        try:
            return d, json.loads(r.stdout.strip().splitlines()[-1])
        except Exception:
            return d, "ERR " + r.stderr[-200:]
    finally:
        shutil.rmtree(tmp, ignore_errors=True)

if __name__ == "__main__":
    dirs = sys.argv[1:]
    with ProcessPoolExecutor(max_workers=int(os.environ.get('MX_JOBS', '12'))) as ex:
        for d, res in ex.map(one, dirs):
            if res is None:
                continue
            if isinstance(res, str):
                print(d, res); continue
            if is_neutral(d):
                bad = {p: x for p, x in res.items() if x[0] != 0}
                print(f"{d}: NEUTRAL {'clean' if not bad else 'FALSE-ALARM'}", flush=True)
                for p, x in bad.items():
                    print("      ", p, x)
                continue
            own = own_of(d)
            v = [p for p, x in res.items() if x[0] == 1]
            u = [p for p, x in res.items() if x[0] == 2]
            status = "CAUGHT-OWN" if own in v else ("caught-other" if v else ("UNDECIDED" if u else "MISSED"))
            print(f"{d}: own={own} {status} viol={v} und={u}", flush=True)
            if own in res and res[own][0] != 1:
                print("      own:", res[own])
