#!/usr/bin/env python3
"""Development helper: run the checks against seeded patches in a scratch worktree (never in /repo).
usage: eval_seeded.py <dir-with-patch.diff> ... [--props C01,C02]   (default: all claimed)"""
import json, os, subprocess, sys
V = os.path.dirname(os.path.dirname(os.path.abspath(__file__)))
WT = "/tmp/wt/eval"
args = [a for a in sys.argv[1:] if not a.startswith("--")]
props = None
for a in sys.argv[1:]:
    if a.startswith("--props="):
        props = a.split("=", 1)[1].split(",")
if props is None:
    props = [c["property_id"] for c in json.load(open(os.path.join(V, "MANIFEST.json")))["checks"]]
subprocess.run(["git", "-C", WT, "checkout", "-q", "--detach", subprocess.check_output(["git", "-C", "/repo", "rev-parse", "HEAD"], text=True).strip()], check=True)
env = dict(os.environ, AMSHAN_REPO=WT)
for d in args:
    patch = os.path.join(d, "patch.diff")
    subprocess.run(["git", "-C", WT, "checkout", "-q", "--", "."], check=True)
    r = subprocess.run(["git", "-C", WT, "apply", patch], capture_output=True, text=True)
    if r.returncode:
        print(f"{d}: PATCH DOES NOT APPLY: {r.stderr.strip()[:100]}")
        continue
    row = []
    for p in props:
        r = subprocess.run(["/venv/bin/python", "-B", "-c", f"import sys; sys.argv=['check','{p}']; from sa.main import run_property; rep,code=run_property('{p}','quick',0,write=False,quiet=True); print(code); [print('   V', f.text()[:230]) for f in rep.findings]; [print('   U', u[:230]) for u in rep.undecided]"], cwd=V, env=env, capture_output=True, text=True)
        lines = r.stdout.strip().splitlines()
        code = lines[0] if lines else "?"
        row.append((p, code, lines[1:], r.stderr.strip()[-300:]))
    print(f"{d}: " + " ".join(f"{p}={'ok' if c=='0' else 'VIOL' if c=='1' else 'UND' if c=='2' else c}" for p, c, _, _ in row))
    for p, c, ls, err in row:
        if c != "0":
            for l in ls[:4]:
                print(f"      [{p}]{l}")
            if err and c not in ("0","1","2"):
                print("      ERR", err)
subprocess.run(["git", "-C", WT, "checkout", "-q", "--", "."], check=True)
