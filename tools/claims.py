# Table read by gen_manifest.py
ENGINES = [
    {"name": "sa", "path": "/verif/sa", "serves_properties": [], "kind_free_text": "repository-specific static analysis over Python ast: resolved program model, path/decision-table extraction, GF(2)-affine bit-vector domain, construct-grammar IR, exception-escape analysis, regex analyses, task typestate"},
]
NOTES = ("Static analysis only: every check parses /repo's current working tree (ast) and decides from the source; nothing under /repo is imported or executed. "
         "exit 0 = holds, exit 1 + VIOLATION line = a rule instance is positively violated, exit 2 + ANALYSIS-INCOMPLETE = the analysis could not decide (anchor vanished / idiom outside catalogue). "
         "Genuine defects found on the pinned tree were repaired by 'fix:' commits in /repo and are recorded in known_findings.json.")
CLAIMED = {}
NOT_YET = {}
