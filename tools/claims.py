# Table read by gen_manifest.py
ENGINES = [
    {"name": "sa", "path": "/verif/sa", "serves_properties": [], "kind_free_text": "repository-specific static analysis over Python ast: resolved program model, path/decision-table extraction, GF(2)-affine bit-vector domain, construct-grammar IR, exception-escape analysis, regex analyses, task typestate"},
]
NOTES = ("Static analysis only: every check parses /repo's current working tree (ast) and decides from the source; nothing under /repo is imported or executed. "
         "exit 0 = holds, exit 1 + VIOLATION line = a rule instance is positively violated, exit 2 + ANALYSIS-INCOMPLETE = the analysis could not decide (anchor vanished / idiom outside catalogue). "
         "Genuine defects found on the pinned tree were repaired by 'fix:' commits in /repo and are recorded in known_findings.json.")
CLAIMED = {
 "C03": {"technique": "abstract interpretation in a GF(2)-affine bit-vector domain (matrix equality with the RFC 1662 bit-serial definition) + constant evaluation of the table + repository-wide write census",
         "level": "proof",
         "text": "Seven obligations (table, step map, update/init/write census, checksum, residue, uniqueness of the trailer, compute_checksum window/step/complement) are each discharged for ALL inputs: the step functions are GF(2)-affine, so equality of the extracted 16x24 matrices with the reference is equality on all 2^24 (register, octet) pairs, and induction on length gives all byte strings and windows. Tests on whole values (reg == k, reg or INIT) are split into point and generic cases.",
         "note": "Trusted: Python int semantics; the checker's 15-line bit-serial reference of RFC 1662; octets are 0..255; sa/bitlin.py and sa/consteval.py. Code outside the affine/statement subset gives exit 2 (undecided), never a pass."},
}
NOT_YET = {}
