# Table read by gen_manifest.py
ENGINES = [
    {"name": "sa", "path": "/verif/sa", "serves_properties": [], "kind_free_text": "repository-specific static analysis over Python ast: resolved program model, path/decision-table extraction, GF(2)-affine bit-vector domain, construct-grammar IR, exception-escape analysis, regex analyses, task typestate"},
]
NOTES = ("Static analysis only: every check parses /repo's current working tree (ast) and decides from the source; nothing under /repo is imported or executed. "
         "exit 0 = holds, exit 1 + VIOLATION line = a rule instance is positively violated, exit 2 + ANALYSIS-INCOMPLETE = the analysis could not decide (anchor vanished / idiom outside catalogue). "
         "Genuine defects found on the pinned tree were repaired by 'fix:' commits in /repo and are recorded in known_findings.json.")
CLAIMED = {
 "C20": {"technique": "regex analysis (pattern constant-folded, AST-checked for alphabet uniformity and group adjacency) + exhaustive shape enumeration against the extracted pattern; path/token-domain analysis of to_obis_tupple, __eq__/__hash__ and to_reduced_str",
         "level": "other",
         "text": "Exhaustive over the finite shape space (presence patterns x run lengths of both syntaxes): parse, rejection argument, eq/hash/C.D.E and the round trip of all 16 output templates are decided; digits are interchangeable for the pattern (checked on its AST), so shapes are exact representatives of all group values.",
         "note": "Trusted: Python re and int() semantics; E-CONST/E-PATH. Code outside the recognised idioms (int(g) / int(g) if g else None, f-string concatenation) gives exit 2."},
 "C05": {"technique": "path extraction of the per-line step of ModeDReader.read into a decision table compared with a reference line automaton; buffer-position typestate at the length guard; buffer-contract rules",
         "level": "other",
         "text": "Decides R1-R4: the length guard is evaluated where the buffer position is zero (never counts consumed lines) and its limit is >= 8191; the per-line step refines the reference automaton (readout built from exactly the kept lines, emitted once, back to hunt mode); pop returns LF-terminated lines and advances by their length; the chunk only extends the buffer. Delivery over all clean streams is an argument from these, not mechanised.",
         "note": "Trusted: reference rows in sa/p1model.py; E-PATH enumerator. Validity of the delivered readout is C04's concern."},
 "C16": {"technique": "typestate exploration of the abstract automaton derived from the HDLC decision table (per-frame state must be clean at the next frame start); discard-row and hunt-row rules; P1 guard/end-row rules",
         "level": "other",
         "text": "Decides R1-R3: pending escape and raw history never leak from a finished/discarded frame into the next; discard rows (too short, abort, over-long) emit nothing, abandon the frame and never start a frame on a non-flag octet; hunt-mode skipping stops at the next flag; the P1 end-line row and guard trip clear the collected lines and return to hunt mode; hunt rows ignore non-identification lines. The quantitative loss bounds are not decided.",
         "note": "Trusted: reference automata; E-PATH enumerator; abstraction (mode, pending source, raw source) of the reader state."},
 "C19": {"technique": "bounding-mechanism catalogue over the persistent stores enumerated from the field model: exit-trim rule, length-guard-after-every-extension rule, guard coverage and trip-path shrink rule, raw-history growth rule (decision tables of both readers)",
         "level": "other",
         "text": "Decides that a bound exists for each of the five persistent stores: consumed input released on every exit of read(); every frame extension followed by the discarding length guard; raw history grows only with the frame or a pending escape and is cleared per frame; P1 guard over unconsumed tail + collected lines evaluated every call, trip path clears both. The constants are not decided.",
         "note": "Trusted: store enumeration from __init__ fields; reference automata; E-PATH enumerator."},
 "C01": {"technique": "truth-table extraction of is_valid, effect analysis of HdlcFrame.append + write census, GF(2)-affine comparison of bit-field accessors, linear-form comparison of index expressions, decision-table rules on the reader",
         "level": "other",
         "text": "Decides the structural necessary conditions R1-R6: validity is exactly FCS-and-length, the FCS register is fed each frame octet exactly once and nothing else writes it, every accessor's bit/position geometry equals ISO 13239, frames consist of popped octets once and in order, emitted frames are frozen. The end-to-end statement over all streams is an argument (with C03/C06), not mechanised.",
         "note": "Trusted: frame layout as stated in the property; C03 for the FCS itself; E-PATH enumerator. Accessors rewritten outside the recognised expression forms give exit 2, not a pass."},
 "C06": {"technique": "non-interference analysis of the chunk boundary: def-use of the chunk parameter, read() skeleton typestate, per-step effect summary from the decision table, buffer-contract rules",
         "level": "other",
         "text": "Decides N1-N6: the chunk only extends the buffer, all reader state changes happen in the per-octet step which consumes exactly one octet and never inspects the buffered amount, no local/global carries state, trims preserve unconsumed input, trim-to-flag only in hunt mode where non-flag octets are neutral. Equality of outputs for two chunkings follows by the written argument; it is not replayed dynamically.",
         "note": "Trusted: E-PATH enumerator; the argument in DESIGN.md §3/C06 composing N1-N6."},
 "C02": {"technique": "path extraction of the per-octet step into a decision table over role-bound atoms, compared as a function of the atoms with a reference automaton; read() skeleton and buffer-contract rules",
         "level": "other",
         "text": "Decides the structural necessary conditions: the step function refines the ISO 13239 reference automaton on all rows a clean stream exercises (four configurations), the length guard admits 2047 octets, cross-call state is in reader fields, emitted frames are frozen, buffer pop/trim contracts hold. The induction over all streams/chunkings is an argument in DESIGN.md, not mechanised.",
         "note": "Trusted: reference rows in sa/hdlcref.py; E-PATH path enumerator (sa/paths.py) and its treatment of sub-object calls as atomic effects. Unrecognised guard conditions are treated as free; a step path that leaves the recognised statement subset gives exit 2."},
 "C03": {"technique": "abstract interpretation in a GF(2)-affine bit-vector domain (matrix equality with the RFC 1662 bit-serial definition) + constant evaluation of the table + repository-wide write census",
         "level": "proof",
         "text": "Seven obligations (table, step map, update/init/write census, checksum, residue, uniqueness of the trailer, compute_checksum window/step/complement) are each discharged for ALL inputs: the step functions are GF(2)-affine, so equality of the extracted 16x24 matrices with the reference is equality on all 2^24 (register, octet) pairs, and induction on length gives all byte strings and windows. Tests on whole values (reg == k, reg or INIT) are split into point and generic cases.",
         "note": "Trusted: Python int semantics; the checker's 15-line bit-serial reference of RFC 1662; octets are 0..255; sa/bitlin.py and sa/consteval.py. Code outside the affine/statement subset gives exit 2 (undecided), never a pass."},
}
NOT_YET = {}
