#!/usr/bin/env python3
"""Refresh the meta.json files of the stored changes from saved tools/matrix.py outputs (no check is run here).
  apply_matrix.py <matrix output> ...
Seeded changes run with MX_OWN=1 (own check only): the own property is moved into / out of detected_by and undecided_in, the entries for other
checks (from the last full run) are kept.  Neutral changes (all 20 checks): checks_exit_nonzero / checks_reporting_violation are replaced."""
import json, os, sys
sys.path.insert(0, os.path.dirname(os.path.abspath(__file__)))
from store_fast import parse_matrix


def main():
    n = 0
    for path in sys.argv[1:]:
        for d, r in parse_matrix(path).items():
            mp = os.path.join(d, "meta.json")
            if not os.path.exists(mp):
                continue
            m = json.load(open(mp))
            if "own" in r:
                own = r["own"]
                full = len(set(r["viol"]) | set(r["und"])) > 1 or r["status"] in ("caught-other",)
                if full:
                    m["detected_by"], m["undecided_in"] = r["viol"], r["und"]
                else:
                    det = [p for p in m.get("detected_by", []) if p != own]
                    und = [p for p in m.get("undecided_in", []) if p != own]
                    if own in r["viol"]:
                        det = sorted(det + [own])
                    if own in r["und"]:
                        und = sorted(und + [own])
                    m["detected_by"], m["undecided_in"] = det, und
            else:
                viol = [p for p, c in r["bad"].items() if c == 1]
                und = [p for p, c in r["bad"].items() if c == 2]
                m["checks_exit_nonzero"], m["checks_reporting_violation"] = viol + und, viol
            json.dump(m, open(mp, "w"), indent=1)
            n += 1
    print("updated", n)


if __name__ == "__main__":
    main()
