"""One-shot iterators kept at module (or class) level and consumed inside functions.

A generator expression, or the result of map/filter/zip/iter/reversed/enumerate, bound once when the module is imported is exhausted by the
first function call that iterates it or tests membership in it: every later call sees it (partly) empty, so the function's result depends on
how often it was called before.  The rule is structural and exact: the binding is a one-shot iterator by construction, and the consuming
site is inside a function body (which runs once per decoded message).  Consumption at import time (``T = tuple(gen)``) is not reported.
"""
from __future__ import annotations

import ast

ONE_SHOT_CALLS = {"map", "filter", "zip", "iter", "reversed", "enumerate"}


def _is_one_shot(v):
    if isinstance(v, ast.GeneratorExp):
        return "a generator expression"
    if isinstance(v, ast.Call) and isinstance(v.func, ast.Name) and v.func.id in ONE_SHOT_CALLS:
        return f"the iterator returned by {v.func.id}()"
    return None


def find(M, mod):
    """-> [(name, what, bind_line, function, use_line, how)]"""
    t = M.mods.get(mod)
    if t is None:
        return []
    scopes = [("", t.body)] + [(c.name + ".", c.body) for c in t.body if isinstance(c, ast.ClassDef)]
    out = []
    for prefix, body in scopes:
        bound = {}
        counts = {}
        for s_ in body:
            tgs = s_.targets if isinstance(s_, ast.Assign) else [s_.target] if isinstance(s_, ast.AnnAssign) and s_.value is not None else []
            for tg in tgs:
                if isinstance(tg, ast.Name):
                    counts[tg.id] = counts.get(tg.id, 0) + 1
                    w = _is_one_shot(s_.value)
                    if w:
                        bound[tg.id] = (w, s_.lineno)
                    else:
                        bound.pop(tg.id, None)
        bound = {k: v for k, v in bound.items() if counts.get(k) == 1}
        if not bound:
            continue
        for f in [n for n in ast.walk(t) if isinstance(n, (ast.FunctionDef, ast.AsyncFunctionDef, ast.Lambda))]:
            if isinstance(f, ast.Lambda):
                local = {a.arg for a in f.args.args}
            else:
                local = {a.arg for a in f.args.args + f.args.kwonlyargs + f.args.posonlyargs} | {n.id for n in ast.walk(f) if isinstance(n, ast.Name) and isinstance(n.ctx, ast.Store)}
                if any(isinstance(n, ast.Global) for n in ast.walk(f)):
                    continue
            for n in ast.walk(f):
                def ref(x):
                    if prefix == "" and isinstance(x, ast.Name) and x.id in bound and x.id not in local:
                        return x.id
                    if prefix and isinstance(x, ast.Attribute) and x.attr in bound and isinstance(x.value, ast.Name) and x.value.id in ("self", "cls", prefix[:-1]):
                        return x.attr
                    return None
                how = name = None
                if isinstance(n, ast.Compare) and len(n.ops) == 1 and isinstance(n.ops[0], (ast.In, ast.NotIn)) and ref(n.comparators[0]):
                    name, how = ref(n.comparators[0]), "membership test"
                elif isinstance(n, (ast.For, ast.comprehension)) and ref(n.iter):
                    name, how = ref(n.iter), "iteration"
                elif isinstance(n, ast.Call) and isinstance(n.func, ast.Name) and n.func.id in ("list", "tuple", "set", "frozenset", "sorted", "dict", "any", "all", "sum", "max", "min", "next") and n.args and ref(n.args[0]):
                    name, how = ref(n.args[0]), f"{n.func.id}() over it"
                if name:
                    out.append((prefix + name, bound[name][0], bound[name][1], getattr(f, "name", "<lambda>"), n.lineno, how))
    return out


def rule(rep, M, src, mods, rule_id):
    n = 0
    for mod in mods:
        for name, what, bl, fn, ul, how in find(M, mod):
            n += 1
            rep.violation(rule_id, f"{mod}.{fn}", "one-shot-iterator", f"{name} is {what} created once when the module is imported, and {fn}() consumes it ({how}): the first call(s) exhaust it, "
                          "every later call sees it empty - the decoded values depend on how many messages were decoded before", src.file(mod), ul, witness=f"{name} bound at line {bl}; consumed at line {ul}")
    return n
