"""E-CONST: compile-time evaluation of closed (input-free) initialisers.

A small interpreter over ast nodes for the subset of Python the repository uses to build its
tables (class/module constants, list/dict literals, slicing, constant-bounded loops, local pure
helpers, f-strings).  It runs in the checker; nothing from the repository is handed to CPython.
Anything outside the subset raises NotConstant (-> the rule that asked is UNDECIDED).
"""
from __future__ import annotations

import ast
import operator

from sa.model import Model


class NotConstant(Exception):
    pass


class _Return(Exception):
    def __init__(self, v):
        self.v = v


class _Break(Exception):
    pass


class _Continue(Exception):
    pass


def _undecorated_other(node):
    """the function carries a decorator other than staticmethod (its value through the class is then not the plain function)"""
    return any(ast.unparse(d) != "staticmethod" for d in getattr(node, "decorator_list", []))


class Opaque:
    """A value we do not evaluate (e.g. a construct declaration, a compiled regex, a function object)."""

    def __init__(self, what, node=None, mod=None):
        self.what, self.node, self.mod = what, node, mod

    def __repr__(self):
        return f"<opaque {self.what}>"


import math as _math

# pure functions / constant tables of the calendar module
SAFE_CALENDAR = {"mdays", "isleap", "leapdays", "monthrange", "weekday", "MONDAY", "TUESDAY", "WEDNESDAY", "THURSDAY", "FRIDAY", "SATURDAY", "SUNDAY", "January", "February"}

# pure functions / constants of the math module: applied to plain numbers they are evaluated, their exceptions (OverflowError, ValueError) are the program's
SAFE_MATH = {"pow", "floor", "ceil", "sqrt", "isqrt", "log", "log2", "log10", "exp", "fabs", "trunc", "gcd", "copysign", "isnan", "isinf", "isfinite", "fmod", "ldexp", "pi", "e", "inf", "nan",
             "prod", "comb", "factorial", "hypot", "dist", "fsum", "modf", "frexp", "expm1", "log1p"}


_FLOCALS = {}


def _function_locals(node):
    """names a function body binds (so that they are locals of it): assignment / loop / with / except / import / walrus targets outside nested scopes"""
    r = _FLOCALS.get(id(node))
    if r is not None and r[1] is node:
        return r[0]
    names, outer = set(), set()

    def walk(n):
        for c in ast.iter_child_nodes(n):
            if isinstance(c, (ast.FunctionDef, ast.AsyncFunctionDef, ast.ClassDef)):
                names.add(c.name)
                continue
            if isinstance(c, (ast.Lambda, ast.ListComp, ast.SetComp, ast.DictComp, ast.GeneratorExp)):
                continue
            if isinstance(c, ast.Name) and isinstance(c.ctx, ast.Store):
                names.add(c.id)
            elif isinstance(c, ast.ExceptHandler) and c.name:
                names.add(c.name)
            elif isinstance(c, (ast.Import, ast.ImportFrom)):
                for a_ in c.names:
                    names.add((a_.asname or a_.name).split(".")[0])
            elif isinstance(c, (ast.Global, ast.Nonlocal)):
                outer.update(c.names)
            walk(c)
    if not isinstance(node, ast.Lambda):
        for st in node.body:
            walk(ast.Module(body=[st], type_ignores=[]))
    out = frozenset(names - outer)
    _FLOCALS[id(node)] = (out, node)
    return out


_ISGEN = {}


def _is_generator(node):
    r = _ISGEN.get(id(node))
    if r is None or r[1] is not node:
        def own(n):
            # the statements of this function only: a yield inside a nested function / lambda makes *that* one a generator
            for c in ast.iter_child_nodes(n):
                if isinstance(c, (ast.FunctionDef, ast.AsyncFunctionDef, ast.Lambda, ast.ClassDef)):
                    continue
                yield c
                yield from own(c)
        r = (any(isinstance(n, (ast.Yield, ast.YieldFrom)) for n in own(node)), node)
        _ISGEN[id(node)] = r
    return r[0]


class _NoClone(Exception):
    pass


def _clone_value(v, depth=0):
    """copy of a module-level value: containers are copied (recursively), immutable values and references to program text are shared"""
    if isinstance(v, (int, float, str, bytes, bool, type(None), complex, frozenset, FuncRef, Opaque, type)) or callable(v):
        return v
    if depth > 6:
        raise _NoClone()
    if isinstance(v, tuple):
        return tuple(_clone_value(x, depth + 1) for x in v)
    if isinstance(v, list):
        return [_clone_value(x, depth + 1) for x in v]
    if isinstance(v, bytearray):
        return bytearray(v)
    if isinstance(v, set):
        return set(v)
    if isinstance(v, dict):
        return {k: _clone_value(x, depth + 1) for k, x in v.items()}
    if type(v).__name__ == "AObj":
        c = type(v)(v.pytype, {k: _clone_value(x, depth + 1) for k, x in v.attrs.items()}, v.name, v.cls_key)
        return c
    if type(v).__module__ in ("re", "datetime", "decimal", "enum") or type(v).__name__ in ("Res", "Sym", "EnumVal", "Pattern", "Lazy", "Pred", "BV", "Ext", "Ctx"):
        return v
    raise _NoClone()


class BuiltinRaised(NotConstant):
    """a builtin / method of a builtin type applied to plain Python values raised: a definite exception of the interpreted program"""

    def __init__(self, cls, text):
        super().__init__(text)
        self.cls = cls


def _is_plain(x, depth=0):
    if isinstance(x, (int, float, str, bytes, bool, type(None), bytearray, complex)):
        return True
    if depth < 4 and isinstance(x, (list, tuple, set, frozenset)):
        return all(_is_plain(y, depth + 1) for y in x)
    if depth < 4 and isinstance(x, dict):
        return all(_is_plain(k, depth + 1) and _is_plain(v, depth + 1) for k, v in x.items())
    return False


class FuncRef:
    def __init__(self, mod, node):
        self.mod, self.node = mod, node

    def __repr__(self):
        return f"<func {self.mod}.{self.node.name}>"


BINOPS = {
    ast.Add: operator.add, ast.Sub: operator.sub, ast.Mult: operator.mul, ast.Div: operator.truediv,
    ast.FloorDiv: operator.floordiv, ast.Mod: operator.mod, ast.Pow: operator.pow, ast.LShift: operator.lshift,
    ast.RShift: operator.rshift, ast.BitAnd: operator.and_, ast.BitOr: operator.or_, ast.BitXor: operator.xor,
}
CMPOPS = {
    ast.Eq: operator.eq, ast.NotEq: operator.ne, ast.Lt: operator.lt, ast.LtE: operator.le, ast.Gt: operator.gt,
    ast.GtE: operator.ge, ast.Is: operator.is_, ast.IsNot: operator.is_not,
    ast.In: lambda a, b: a in b, ast.NotIn: lambda a, b: a not in b,
}
def _memview(x):
    """memoryview of a bytes-like object, read-only use: indexing, slicing and len() agree with the object itself"""
    if isinstance(x, (bytes, bytearray)):
        return bytes(x)
    raise TypeError("memoryview: a bytes-like object is required")


SAFE_BUILTINS = {
    "memoryview": _memview,
    "len": len, "range": range, "int": int, "str": str, "abs": abs, "min": min, "max": max, "list": list,
    "dict": dict, "tuple": tuple, "sorted": sorted, "enumerate": enumerate, "zip": zip, "bool": bool,
    "hex": hex, "set": set, "frozenset": frozenset, "sum": sum, "reversed": reversed, "float": float, "bytes": bytes,
    "bytearray": bytearray, "any": any, "all": all, "round": round, "slice": slice, "divmod": divmod,
}
SAFE_METHODS = {
    list: {"append", "extend", "index", "count", "copy", "insert", "pop", "clear", "remove", "reverse", "sort"},
    dict: {"items", "keys", "values", "get", "copy", "update", "setdefault", "clear", "pop", "popitem"},
    str: {"join", "format", "lower", "upper", "split", "startswith", "endswith", "strip", "replace", "rstrip", "lstrip", "splitlines", "find", "rfind", "index", "count", "partition", "rpartition",
          "isdigit", "isascii", "encode", "casefold", "rsplit", "isalpha", "isspace", "isalnum", "isprintable", "removeprefix", "removesuffix", "zfill", "isupper", "islower", "rindex", "isdecimal"},
    tuple: {"index", "count"},
    set: {"add", "update", "discard", "remove", "clear", "copy", "union", "intersection", "difference", "issubset", "issuperset", "pop"},
    frozenset: {"union", "intersection", "difference", "issubset", "issuperset", "copy"},
    bytes: {"hex", "startswith", "endswith", "find", "rfind", "index", "rindex", "count", "decode", "isascii", "strip", "lstrip", "rstrip", "split", "rsplit", "upper", "lower", "partition", "rpartition",
            "splitlines", "replace", "join", "isdigit", "isalpha", "isalnum", "isspace", "removeprefix", "removesuffix", "zfill", "translate"},
    bytearray: {"append", "extend", "hex", "startswith", "endswith", "find", "rfind", "index", "rindex", "count", "decode", "isascii", "strip", "lstrip", "rstrip", "split", "partition", "rpartition",
                "splitlines", "replace", "join", "clear", "pop", "copy", "insert", "reverse", "remove"},
}
PRIMS = (int, str, bool, float, bytes, type(None))


class Lazy:
    """an infinite iterator of itertools (repeat / cycle), consumed only through zip / islice"""

    def __init__(self, kind, v):
        self.kind, self.v = kind, v

    def take(self, n):
        if self.kind == "repeat":
            return [self.v] * n
        return [self.v[i % len(self.v)] for i in range(n)]


TRANSPARENT_DECORATORS = {"property", "setter", "getter", "deleter", "staticmethod", "classmethod", "abstractmethod", "overload", "final", "override", "wraps", "dataclass",
                          "no_type_check", "abstractproperty", "cached_property"}
MEMO_DECORATORS = {"lru_cache", "cache"}


def decorator_kind(d):
    """'transparent' | 'memo' | None (unknown) for a decorator expression"""
    e = d.func if isinstance(d, ast.Call) else d
    name = e.id if isinstance(e, ast.Name) else e.attr if isinstance(e, ast.Attribute) else None
    if name in TRANSPARENT_DECORATORS:
        return "transparent"
    if name in MEMO_DECORATORS:
        return "memo"
    return None


_UNDEC = {}


def _undecorated(node):
    u = _UNDEC.get(id(node))
    if u is None:
        import copy
        u = copy.copy(node)
        u.decorator_list = []
        _UNDEC[id(node)] = (u, node)
        return u
    return u[0]


def _same_arg(x, y):
    if x is y:
        return True
    if isinstance(x, (int, str, bytes, float, bool, tuple, frozenset, type(None))) and type(x) is type(y):
        try:
            return x == y
        except Exception:  # noqa
            return False
    return False


class ConstEval:
    def __init__(self, model: Model, budget=2_000_000):
        self.M = model
        self.budget = budget
        self._modenv: dict[str, dict] = {}
        self._active: set[str] = set()

    # ------------------------------------------------------------------ module environments
    def module_env(self, mod) -> dict:
        """Names defined at module level, evaluated in order; names that are not constant map to Opaque."""
        if mod in self._modenv:
            return self._modenv[mod]
        if mod in self._active:
            raise NotConstant(f"cyclic module evaluation {mod}")
        # the evaluated module body is the same for every interpreter of the same kind over the same model: later interpreters start from a copy of
        # the first one's result (containers copied, so that one interpreter's module-level state never shows up in another)
        tkey = (type(self).__name__, mod, tuple(sorted(map(str, getattr(self, "hooks", None) or ()))), tuple(sorted(map(str, getattr(self, "func_hooks", None) or ()))))
        templates = self.M.__dict__.setdefault("_modenv_templates", {})
        if tkey in templates and not self._active:
            env = {k: _clone_value(v) for k, v in templates[tkey].items()}
            for v in env.values():
                if isinstance(v, FuncRef) and getattr(v, "env", None) is templates[tkey]:
                    v.env = env
            self._modenv[mod] = env
            return env
        top_level = not self._active
        self._active.add(mod)
        env: dict = {}
        self._modenv[mod] = env
        tree = self.M.mods[mod]
        for s in tree.body:
            try:
                self.exec_stmt(s, env, mod)
            except NotConstant as e:
                for n in ast.walk(s):
                    if isinstance(n, ast.Name) and isinstance(n.ctx, ast.Store) and n.id not in env:
                        env[n.id] = Opaque(f"{mod}.{n.id}: {e}", s, mod)
            except (_Return, _Break, _Continue):
                pass
        self._active.discard(mod)
        if top_level and not any(isinstance(v, FuncRef) and getattr(v, "env", None) is not None for v in env.values()):
            try:
                templates[tkey] = {k: _clone_value(v) for k, v in env.items()}
            except _NoClone:
                pass
        return env

    def module_value(self, mod, name):
        env = self.module_env(mod)
        if name not in env:
            raise NotConstant(f"{mod}.{name} not defined")
        v = env[name]
        if isinstance(v, Opaque):
            raise NotConstant(str(v))
        return v

    def class_const(self, mod, cls, name):
        memo = self.__dict__.setdefault("_cc_memo", {})
        if (mod, cls, name) not in memo:
            # plain values (numbers, texts, sequences of numbers) are the same for every interpreter over the same model: computed once per model
            shared = self.M.__dict__.setdefault("_cc_shared", {})
            if (mod, cls, name) in shared:
                v0 = shared[(mod, cls, name)]
                memo[(mod, cls, name)] = list(v0) if isinstance(v0, list) else v0
            else:
                v0 = self._class_const(mod, cls, name)
                memo[(mod, cls, name)] = v0
                if isinstance(v0, (int, str, bytes, float, bool, type(None))) or (isinstance(v0, (list, tuple)) and all(isinstance(x_, (int, str, bytes, float, bool, type(None))) for x_ in v0)):
                    shared[(mod, cls, name)] = list(v0) if isinstance(v0, list) else v0
        v = memo[(mod, cls, name)]
        # mutable results are handed out as copies so that an interpreter state cannot corrupt the constant
        return list(v) if isinstance(v, list) and type(self) is ConstEval else v

    def _class_const(self, mod, cls, name):
        key = (mod, cls)
        node, k = self.M.find_const(key, name)
        if node is None:
            raise NotConstant(f"{mod}.{cls}.{name} not a class constant")
        env = dict(self.module_env(k[0]))
        # earlier class-level names are visible to later class-level initialisers
        for n2, v2 in self.M.classes[k].consts.items():
            if n2 == name:
                break
            try:
                env[n2] = self.eval(v2, env, k[0])
            except NotConstant:
                pass
        return self.eval(node, env, k[0])

    # ------------------------------------------------------------------ statements
    def tick(self):
        self.budget -= 1
        if self.budget < 0:
            raise NotConstant("evaluation budget exhausted")

    def exec_block(self, stmts, env, mod):
        for s in stmts:
            self.exec_stmt(s, env, mod)

    def assign(self, tgt, val, env, mod):
        if isinstance(tgt, ast.Name):
            env[tgt.id] = val
        elif isinstance(tgt, (ast.Tuple, ast.List)):
            vals = list(val)
            stars = [i for i, t in enumerate(tgt.elts) if isinstance(t, ast.Starred)]
            if len(stars) == 1 and len(vals) >= len(tgt.elts) - 1:
                i = stars[0]
                tail = len(tgt.elts) - 1 - i
                mid = vals[i:len(vals) - tail]
                for t, v in zip(tgt.elts[:i], vals[:i]):
                    self.assign(t, v, env, mod)
                self.assign(tgt.elts[i].value, list(mid), env, mod)
                for t, v in zip(tgt.elts[i + 1:], vals[len(vals) - tail:]):
                    self.assign(t, v, env, mod)
                return
            if len(vals) != len(tgt.elts):
                raise NotConstant("unpack arity")
            for t, v in zip(tgt.elts, vals):
                self.assign(t, v, env, mod)
        elif isinstance(tgt, ast.Subscript):
            base = self.eval(tgt.value, env, mod)
            if not isinstance(base, (list, dict, bytearray)):
                raise NotConstant("subscript store on non-container")
            base[self.eval(tgt.slice, env, mod)] = val
        else:
            raise NotConstant(f"assign target {type(tgt).__name__}")

    def exec_stmt(self, s, env, mod):
        self.tick()
        if isinstance(s, ast.Expr) and isinstance(s.value, (ast.Yield, ast.YieldFrom)) and getattr(self, "_gen_items", None):
            if isinstance(s.value, ast.Yield):
                self._gen_items[-1].append(self.eval(s.value.value, env, mod) if s.value.value is not None else None)
            else:
                v = self.eval(s.value.value, env, mod)
                if isinstance(v, Lazy) or not isinstance(v, (list, tuple, str, bytes, range, dict, set)):
                    raise NotConstant("yield from a non-finite iterable")
                self._gen_items[-1].extend(list(v))
            return
        if isinstance(s, ast.Expr):
            if isinstance(s.value, ast.Constant):
                return
            self.eval(s.value, env, mod)
            return
        if isinstance(s, ast.Assign):
            v = self.eval(s.value, env, mod)
            for t in s.targets:
                self.assign(t, v, env, mod)
            return
        if isinstance(s, ast.AnnAssign):
            if s.value is not None:
                self.assign(s.target, self.eval(s.value, env, mod), env, mod)
            return
        if isinstance(s, ast.AugAssign):
            cur = self.eval(s.target, env, mod)
            v = self.eval(s.value, env, mod)
            if isinstance(s.op, ast.Add) and isinstance(cur, (list, bytearray)) and isinstance(v, (list, tuple, bytes, bytearray)):
                cur.extend(v)  # `+=` on a list / bytearray mutates the object in place (aliases see it)
                return
            if isinstance(s.op, ast.BitOr) and isinstance(cur, (dict, set)) and isinstance(v, (dict, set)):
                cur.update(v)
                return
            self.assign(s.target, self.binop(s.op, cur, v), env, mod)
            return
        if isinstance(s, ast.If):
            self.exec_block(s.body if self.truth(self.eval(s.test, env, mod)) else s.orelse, env, mod)
            return
        if isinstance(s, ast.For):
            it = self.eval(s.iter, env, mod)
            if isinstance(it, Opaque):
                raise NotConstant("iteration over opaque value")
            # a dictionary / set (or a view of one) must keep its size while it is iterated: the next step of the iteration raises RuntimeError otherwise
            sized = it if isinstance(it, (dict, set)) else getattr(it, "mapping", None) if type(it).__name__ in ("dict_keys", "dict_items", "dict_values") else None
            n0 = len(sized) if sized is not None else None
            for x in list(it):
                if n0 is not None and len(sized) != n0:
                    self.definite_raise("RuntimeError", f"{'dictionary' if not isinstance(sized, set) else 'Set'} changed size during iteration")
                self.assign(s.target, x, env, mod)
                try:
                    self.exec_block(s.body, env, mod)
                except _Break:
                    break
                except _Continue:
                    continue
            else:
                if n0 is not None and len(sized) != n0:
                    self.definite_raise("RuntimeError", f"{'dictionary' if not isinstance(sized, set) else 'Set'} changed size during iteration")
                self.exec_block(s.orelse, env, mod)
            return
        if isinstance(s, ast.While):
            while self.truth(self.eval(s.test, env, mod)):
                self.tick()
                try:
                    self.exec_block(s.body, env, mod)
                except _Break:
                    break
                except _Continue:
                    continue
            return
        if isinstance(s, ast.Return):
            raise _Return(self.eval(s.value, env, mod) if s.value is not None else None)
        if isinstance(s, ast.Pass):
            return
        if isinstance(s, ast.Break):
            raise _Break()
        if isinstance(s, ast.Continue):
            raise _Continue()
        if isinstance(s, (ast.FunctionDef, ast.AsyncFunctionDef)):
            env[s.name] = FuncRef(mod, s)
            if getattr(self, "_depth_marker", None) is None and env is not self._modenv.get(mod):
                env[s.name].env = env  # a function defined inside a function: closure over the defining scope
            return
        if isinstance(s, ast.ClassDef):
            env[s.name] = Opaque(f"class {mod}.{s.name}", s, mod)
            return
        if isinstance(s, (ast.Import, ast.ImportFrom)):
            for a in s.names:
                loc = (a.asname or a.name).split(".")[0]
                imp = self.M.imports.get(mod, {}).get(a.asname or a.name)
                if imp and imp[0] == "module":
                    env[loc] = ("module", imp[1])
                elif imp and imp[0] == "symbol":
                    env[loc] = ("symbol", imp[1], imp[2])
                elif isinstance(s, ast.ImportFrom) and s.module == "math" and a.name in SAFE_MATH:
                    env[loc] = getattr(_math, a.name)
                else:
                    env[loc] = Opaque(f"external {a.name}")
            return
        if isinstance(s, ast.Assert):
            if not self.truth(self.eval(s.test, env, mod)):
                self.definite_raise("AssertionError", "assert failed")
            return
        raise NotConstant(f"statement {type(s).__name__}")

    # ------------------------------------------------------------------ expressions
    def truth(self, v):
        if isinstance(v, Opaque):
            raise NotConstant("truth of opaque")
        return bool(v)

    def binop(self, op, a, b):
        if isinstance(a, Opaque) or isinstance(b, Opaque):
            raise NotConstant("operator on opaque value")
        f = BINOPS.get(type(op))
        if f is None:
            raise NotConstant(f"operator {type(op).__name__}")
        if isinstance(op, ast.Pow) and isinstance(b, int) and abs(b) > 4096:
            raise NotConstant("pow too large")
        if isinstance(op, ast.LShift) and isinstance(b, int) and b > 4096:
            raise NotConstant("shift too large")
        if isinstance(op, ast.Mult) and ((isinstance(a, (list, str, tuple, bytes)) and isinstance(b, int) and b > 100000)
                                         or (isinstance(b, (list, str, tuple, bytes)) and isinstance(a, int) and a > 100000)):
            raise NotConstant("repeat too large")
        try:
            return f(a, b)
        except Exception as e:
            raise NotConstant(f"operator failed: {e}")

    def resolve_symbol(self, ref):
        if ref[0] == "symbol":
            m, n = ref[1], ref[2]
            if m in self.M.mods:
                e = self.module_env(m)
                if n in e:
                    return e[n]
            raise NotConstant(f"symbol {m}.{n}")
        return ref

    def definite_raise(self, cls, text):
        raise BuiltinRaised(cls, text)

    def _default_value(self, node, mod):
        """a parameter default is evaluated once, when the function is defined: every call that omits the argument gets the same object
        (a mutable default that the function modifies carries state from call to call)"""
        memo = self.__dict__.setdefault("_defaults", {})
        k = id(node)
        if k not in memo or memo[k][0] is not node:
            try:
                v = self.eval(node, {}, mod)
            except NotConstant:
                # the default of a method is evaluated in the class body: names of earlier class attributes are visible there
                v = NotImplemented
                for ck, c in self.M.classes.items():
                    if ck[0] == mod and any(node in ast.walk(f_.node.args) for f_ in c.methods.values()):
                        env = {}
                        for n2 in c.consts:
                            try:
                                env[n2] = self.class_const(ck[0], ck[1], n2)
                            except NotConstant:
                                pass
                        v = self.eval(node, env, mod)
                        break
                if v is NotImplemented:
                    raise
            memo[k] = (node, v)
        return memo[k][1]

    def eval(self, e, env, mod):
        self.tick()
        if isinstance(e, ast.Constant):
            return e.value
        if isinstance(e, ast.Name):
            if e.id in env:
                v = env[e.id]
                if isinstance(v, tuple) and v and v[0] == "symbol":
                    return self.resolve_symbol(v)
                return v
            me = self.module_env(mod) if mod in self.M.mods else {}
            if e.id in me:
                v = me[e.id]
                if isinstance(v, tuple) and v and v[0] == "symbol":
                    return self.resolve_symbol(v)
                return v
            if e.id in ("True", "False", "None"):
                return {"True": True, "False": False, "None": None}[e.id]
            if e.id in env.get("__locals__", ()):
                # a local of the function being interpreted that no statement has bound on this path
                self.definite_raise("UnboundLocalError", f"cannot access local variable '{e.id}' where it is not associated with a value")
            if e.id in SAFE_BUILTINS:
                return SAFE_BUILTINS[e.id]
            raise NotConstant(f"name {e.id}")
        if isinstance(e, ast.Attribute):
            base = self.eval(e.value, env, mod)
            if isinstance(base, tuple) and base and base[0] == "module":
                me = self.module_env(base[1])
                if e.attr in me:
                    v = me[e.attr]
                    if isinstance(v, tuple) and v and v[0] == "symbol":
                        return self.resolve_symbol(v)
                    return v
                raise NotConstant(f"{base[1]}.{e.attr}")
            if isinstance(base, Opaque) and base.what.startswith("class "):
                m, c = base.what[6:].split(".", 1)
                fm_ = self.M.find_method((m, c), e.attr) if (m, c) in self.M.classes else None
                if fm_ is not None and fm_.kind in ("static", "method") and not getattr(fm_, "memo", None) and not _undecorated_other(fm_.node):
                    # a static method (or a plain function of the class) taken as a value through the class
                    return FuncRef(fm_.mod, fm_.node)
                return self.class_const(m, c, e.attr)
            if isinstance(base, Opaque) and base.what == "external math" and e.attr in SAFE_MATH:
                return getattr(_math, e.attr)
            if isinstance(base, Opaque) and base.what == "external calendar" and e.attr in SAFE_CALENDAR:
                import calendar as _calendar
                v_ = getattr(_calendar, e.attr)
                return list(v_) if isinstance(v_, list) else v_
            if isinstance(base, Opaque) and e.attr == "pattern" and hasattr(self, "regex_of"):
                pat_ = self.regex_of(base, mod)
                if pat_ is not None:
                    return pat_
            if isinstance(base, Opaque):
                raise NotConstant(f"attribute of {base}")
            t = type(base)
            for ty, names in SAFE_METHODS.items():
                if isinstance(base, ty) and e.attr in names:
                    return getattr(base, e.attr)
            if (base is int and e.attr == "from_bytes") or (base in (bytes, bytearray) and e.attr == "fromhex") or (base is dict and e.attr == "fromkeys") or (base is str and e.attr == "join"):
                # pure alternative constructors of the built-in types
                return getattr(base, e.attr)
            raise NotConstant(f"attribute {e.attr} of {t.__name__}")
        if isinstance(e, ast.BinOp):
            return self.binop(e.op, self.eval(e.left, env, mod), self.eval(e.right, env, mod))
        if isinstance(e, ast.UnaryOp):
            v = self.eval(e.operand, env, mod)
            if isinstance(v, Opaque):
                raise NotConstant("unary on opaque")
            if isinstance(e.op, ast.Not):
                return not v
            if isinstance(e.op, ast.USub):
                return -v
            if isinstance(e.op, ast.UAdd):
                return +v
            if isinstance(e.op, ast.Invert):
                return ~v
        if isinstance(e, ast.BoolOp):
            if isinstance(e.op, ast.And):
                v = True
                for x in e.values:
                    v = self.eval(x, env, mod)
                    if not self.truth(v):
                        return v
                return v
            v = False
            for x in e.values:
                v = self.eval(x, env, mod)
                if self.truth(v):
                    return v
            return v
        if isinstance(e, ast.Compare):
            left = self.eval(e.left, env, mod)
            for op, c in zip(e.ops, e.comparators):
                right = self.eval(c, env, mod)
                if isinstance(left, Opaque) or isinstance(right, Opaque):
                    raise NotConstant("compare opaque")
                try:
                    if not CMPOPS[type(op)](left, right):
                        return False
                except Exception as ex:
                    raise NotConstant(f"compare failed: {ex}")
                left = right
            return True
        if isinstance(e, ast.IfExp):
            return self.eval(e.body if self.truth(self.eval(e.test, env, mod)) else e.orelse, env, mod)
        if isinstance(e, (ast.List, ast.Tuple, ast.Set)):
            items = []
            for x in e.elts:
                if isinstance(x, ast.Starred):
                    v = self.eval(x.value, env, mod)
                    if isinstance(v, (Opaque, Lazy)) or not hasattr(v, "__iter__"):
                        raise NotConstant("star of a non-finite / opaque iterable in a display")
                    items.extend(list(v))
                else:
                    items.append(self.eval(x, env, mod))
            return items if isinstance(e, ast.List) else tuple(items) if isinstance(e, ast.Tuple) else set(items)
        if isinstance(e, ast.Dict):
            d = {}
            for k, v in zip(e.keys, e.values):
                if k is None:
                    d.update(self.eval(v, env, mod))
                else:
                    d[self.eval(k, env, mod)] = self.eval(v, env, mod)
            return d
        if isinstance(e, ast.Subscript):
            base = self.eval(e.value, env, mod)
            if isinstance(base, Opaque):
                raise NotConstant("subscript of opaque")
            if isinstance(e.slice, ast.Slice):
                lo = self.eval(e.slice.lower, env, mod) if e.slice.lower else None
                hi = self.eval(e.slice.upper, env, mod) if e.slice.upper else None
                st = self.eval(e.slice.step, env, mod) if e.slice.step else None
                return base[lo:hi:st]
            try:
                return base[self.eval(e.slice, env, mod)]
            except Exception as ex:
                raise NotConstant(f"subscript failed: {ex}")
        if isinstance(e, ast.JoinedStr):
            out = []
            for v in e.values:
                if isinstance(v, ast.Constant):
                    out.append(str(v.value))
                elif isinstance(v, ast.FormattedValue):
                    x = self.eval(v.value, env, mod)
                    if not isinstance(x, PRIMS):
                        raise NotConstant("f-string of non-primitive")
                    spec = self.eval(v.format_spec, env, mod) if v.format_spec else ""
                    if v.conversion == 114:
                        x = repr(x)
                    elif v.conversion == 115:
                        x = str(x)
                    out.append(format(x, spec))
            return "".join(out)
        if isinstance(e, (ast.ListComp, ast.GeneratorExp, ast.SetComp, ast.DictComp)):
            return self.comprehension(e, env, mod)
        if isinstance(e, ast.Call):
            return self.call(e, env, mod)
        if isinstance(e, ast.Lambda):
            o = Opaque("lambda", e, mod)
            o.env = env  # closure: the defining scope (by reference, like Python)
            return o
        raise NotConstant(f"expression {type(e).__name__}")

    def comprehension(self, e, env, mod):
        out = []

        def rec(i, loc):
            if i == len(e.generators):
                if isinstance(e, ast.DictComp):
                    out.append((self.eval(e.key, loc, mod), self.eval(e.value, loc, mod)))
                else:
                    out.append(self.eval(e.elt, loc, mod))
                return
            g = e.generators[i]
            it = self.eval(g.iter, loc, mod)
            if isinstance(it, Opaque):
                raise NotConstant("comprehension over opaque")
            for x in list(it):
                self.tick()
                l2 = dict(loc)
                self.assign(g.target, x, l2, mod)
                if all(self.truth(self.eval(c, l2, mod)) for c in g.ifs):
                    rec(i + 1, l2)

        rec(0, dict(env))
        if isinstance(e, ast.DictComp):
            return dict(out)
        if isinstance(e, ast.SetComp):
            return set(out)
        return out

    def call(self, e, env, mod):
        # itertools summaries (lazy / infinite iterators as small objects; results are lists)
        fname = e.func.id if isinstance(e.func, ast.Name) else e.func.attr if isinstance(e.func, ast.Attribute) and isinstance(e.func.value, ast.Name) and e.func.value.id == "itertools" else None
        if fname in ("repeat", "cycle", "islice", "chain", "zip", "filterfalse", "starmap", "accumulate", "pairwise", "takewhile", "dropwhile", "filter", "map") and not e.keywords and \
                not (isinstance(e.func, ast.Name) and e.func.id in env and not isinstance(env[e.func.id], Opaque)):
            r = self.itertools_call(fname, [self.eval(a, env, mod) for a in e.args if not isinstance(a, ast.Starred)] if not any(isinstance(a, ast.Starred) for a in e.args)
                                    else [x for a in e.args for x in (list(self.eval(a.value, env, mod)) if isinstance(a, ast.Starred) else [self.eval(a, env, mod)])], mod)
            if r is not NotImplemented:
                return r
        f = self.eval(e.func, env, mod)
        args = []
        for a in e.args:
            if isinstance(a, ast.Starred):
                args.extend(self.eval(a.value, env, mod))
            else:
                args.append(self.eval(a, env, mod))
        kw = {k.arg: self.eval(k.value, env, mod) for k in e.keywords if k.arg}
        if isinstance(f, FuncRef):
            return self.call_func(f, args, kw)
        if isinstance(f, Opaque):
            raise NotConstant(f"call of {f}")
        if any(isinstance(a, Opaque) for a in list(args) + list(kw.values())):
            if f in (len,) or getattr(f, "__name__", "") in ("append", "extend"):
                pass  # containers may hold opaque elements
            else:
                raise NotConstant("call with opaque argument")
        if f in SAFE_BUILTINS.values() or (getattr(f, "__module__", None) == "math" and getattr(f, "__name__", "") in SAFE_MATH) or \
                (getattr(f, "__self__", None) in (int, bytes, bytearray, dict) and getattr(f, "__name__", "") in ("from_bytes", "fromhex", "fromkeys")) or (hasattr(f, "__self__") and not isinstance(f.__self__, type(_math)) and any(
                isinstance(f.__self__, ty) and f.__name__ in names for ty, names in SAFE_METHODS.items())):
            if f is range and args and any(isinstance(a, int) and abs(a) > 1_000_000 for a in args):
                raise NotConstant("range too large")
            try:
                r = f(*args, **kw)
            except Exception as ex:
                if all(_is_plain(a) for a in list(args) + list(kw.values()) + ([f.__self__] if hasattr(f, "__self__") and not isinstance(f.__self__, type(ast)) else [])):
                    raise BuiltinRaised(type(ex).__name__, f"builtin failed: {ex}")
                raise NotConstant(f"builtin failed: {ex}")
            if isinstance(r, (range, enumerate, zip, reversed)) or type(r).__name__ in ("dict_items", "dict_keys", "dict_values"):
                r = list(r)
            return r
        raise NotConstant(f"call of {f!r}")

    def itertools_call(self, name, args, mod):
        fin = lambda x: list(x) if isinstance(x, (list, tuple, str, bytes, bytearray, range, dict, set, frozenset)) else None
        if name == "repeat":
            if len(args) == 1:
                return Lazy("repeat", args[0])
            if len(args) == 2 and isinstance(args[1], int):
                return [args[0]] * max(args[1], 0)
        if name == "cycle" and len(args) == 1 and fin(args[0]) is not None:
            return Lazy("cycle", fin(args[0])) if fin(args[0]) else []
        if name == "zip":
            finite = [fin(a) for a in args if not isinstance(a, Lazy)]
            if any(x is None for x in finite):
                return NotImplemented
            if not finite:
                raise NotConstant("zip of infinite iterators only")
            n = min(len(x) for x in finite)
            cols = [a.take(n) if isinstance(a, Lazy) else fin(a)[:n] for a in args]
            return [tuple(c[i] for c in cols) for i in range(n)]
        if name == "islice" and 2 <= len(args) <= 4 and all(x is None or isinstance(x, int) for x in args[1:]):
            a, b, c = (0, args[1], 1) if len(args) == 2 else (args[1] or 0, args[2], (args[3] if len(args) == 4 and args[3] else 1))
            if isinstance(args[0], Lazy):
                if b is None:
                    raise NotConstant("islice of an infinite iterator without stop")
                return args[0].take(b)[a:b:c]
            if fin(args[0]) is not None:
                return fin(args[0])[a:b:c]
        if name == "chain" and all(fin(a) is not None for a in args):
            return [x for a in args for x in fin(a)]
        if name == "pairwise" and len(args) == 1 and fin(args[0]) is not None:
            s_ = fin(args[0])
            return list(zip(s_, s_[1:]))
        if name == "filterfalse" and len(args) == 2 and fin(args[1]) is not None:
            return [x for x in fin(args[1]) if not self.truth(self.apply_callable(args[0], [x], mod) if args[0] is not None else x)]
        if name == "filter" and len(args) == 2 and fin(args[1]) is not None:
            return [x for x in fin(args[1]) if self.truth(self.apply_callable(args[0], [x], mod) if args[0] is not None else x)]
        if name == "map" and len(args) >= 2 and all(fin(a) is not None for a in args[1:]):
            cols = [fin(a) for a in args[1:]]
            return [self.apply_callable(args[0], [c[i] for c in cols], mod) for i in range(min(len(c) for c in cols))]
        if name == "starmap" and len(args) == 2 and fin(args[1]) is not None:
            return [self.apply_callable(args[0], list(x), mod) for x in fin(args[1])]
        if name in ("takewhile", "dropwhile") and len(args) == 2 and fin(args[1]) is not None:
            seq, k = fin(args[1]), 0
            while k < len(seq) and self.truth(self.apply_callable(args[0], [seq[k]], mod)):
                k += 1
            return seq[:k] if name == "takewhile" else seq[k:]
        return NotImplemented

    def apply_callable(self, f, args, mod):
        if isinstance(f, FuncRef):
            return self.call_func(f, args)
        if isinstance(f, Opaque) and f.what == "lambda":
            params = [a.arg for a in f.node.args.args]
            loc = dict(getattr(f, "env", None) or {})
            loc.update(zip(params, args))
            return self.eval(f.node.body, loc, f.mod or mod)
        if isinstance(f, tuple) and len(f) == 3 and f[0] == "partial":
            return self.apply_callable(f[1], list(f[2]) + list(args), mod)
        if callable(f) and f in SAFE_BUILTINS.values():
            return f(*args)
        raise NotConstant(f"call of {f!r}")

    def call_func(self, f: FuncRef, args, kw=None):
        if _is_generator(f.node) and not getattr(self, "_in_gen_call", False):
            # a generator function: its items, collected eagerly (sound when the generator body does not depend on what the consumer does between items)
            self._gen_items = getattr(self, "_gen_items", [])
            self._gen_items.append([])
            self._in_gen_call = True
            try:
                try:
                    self.call_func(f, args, kw)
                finally:
                    self._in_gen_call = False
            finally:
                items = self._gen_items.pop()
            return items
        self._in_gen_call = False
        node = f.node
        memo = False
        for d in getattr(node, "decorator_list", []):
            dk = decorator_kind(d)
            if dk == "memo":
                memo = True
            elif dk is None:
                raise NotConstant(f"decorator `{ast.unparse(d)}` of {node.name} is not interpreted")
        if memo:
            # functools.lru_cache / cache: a call with arguments seen before is answered from the cache -- the body (and its effects) is skipped
            tbl = self.__dict__.setdefault("_memo_tbl", [])
            key = list(args) + sorted((kw or {}).items())
            for k_ in key:
                v_ = k_[1] if isinstance(k_, tuple) and len(k_) == 2 and isinstance(k_[0], str) and k_ in (kw or {}).items() else k_
                if isinstance(v_, (list, dict, set, bytearray)) or type(v_).__name__ == "ABytes":
                    # the cache key is built from the arguments: a mutable sequence (bytearray, list) is not hashable
                    self.definite_raise("TypeError", f"unhashable type: '{type(v_).__name__}' (argument of a memoised function)")
            for n_, k_, v_ in tbl:
                if n_ is node and len(k_) == len(key) and all(_same_arg(x, y) for x, y in zip(k_, key)):
                    return v_
            f2 = FuncRef(f.mod, _undecorated(node))
            if getattr(f, "env", None):
                f2.env = f.env
            v = self.call_func(f2, args, kw)
            tbl.append((node, key, v))
            return v
        a = node.args
        params = [x.arg for x in a.posonlyargs + a.args]
        loc = dict(getattr(f, "env", None) or {})
        defaults = a.defaults
        for i, p in enumerate(params):
            if i < len(args):
                loc[p] = args[i]
            elif kw and p in kw:
                loc[p] = kw[p]
            else:
                di = i - (len(params) - len(defaults))
                if di < 0:
                    raise NotConstant("missing argument")
                loc[p] = self._default_value(defaults[di], f.mod)
        for ka, kd in zip(a.kwonlyargs, a.kw_defaults):
            if kw and ka.arg in kw:
                loc[ka.arg] = kw[ka.arg]
            elif kd is not None:
                loc[ka.arg] = self._default_value(kd, f.mod)
            else:
                raise NotConstant(f"missing keyword-only argument {ka.arg}")
        loc["__locals__"] = _function_locals(node) - set(loc)
        if a.vararg is not None:
            loc[a.vararg.arg] = tuple(args[len(params):])
        if a.kwarg is not None:
            loc[a.kwarg.arg] = {k_: v_ for k_, v_ in (kw or {}).items() if k_ not in loc}
        try:
            self.exec_block(node.body, loc, f.mod)
        except _Return as r:
            return r.v
        return None
