"""Self-validation catalogue (DESIGN.md Appendix D): per property, source substitutions on the current tree.

Each entry: name, kind ('seeded' | 'neutral'), optional rule (the rule that must report it),
subs = [(module, old text, new text)] -- old must occur exactly once, otherwise the entry is skipped.
"""
CATALOGUE = {}


def S(pid, name, rule, *subs):
    CATALOGUE.setdefault(pid, []).append({"name": name, "kind": "seeded", "rule": rule, "subs": list(subs)})


def N(pid, name, *subs):
    CATALOGUE.setdefault(pid, []).append({"name": name, "kind": "neutral", "subs": list(subs)})


# ------------------------------------------------------------------------------------------------ C03
F = "fastframecheck"
S("C03", "polynomial 0x8408 -> 0x8400", "O1", (F, "polynomial = 0x8408", "polynomial = 0x8400"))
S("C03", "table shift >> 1 -> >> 2 in one arm", "O1", (F, "                crc >>= 1\n            byte", "                crc >>= 2\n            byte"))
S("C03", "step shift >> 8 -> >> 7", "O2", (F, "        return (crc >> 8) ^ FastFrameCheckSequence16", "        return (crc >> 7) ^ FastFrameCheckSequence16"))
S("C03", "index mask 0xFF -> 0x7F", "O2", (F, "crc_index = (crc ^ byte) & 0xFF", "crc_index = (crc ^ byte) & 0x7F"))
S("C03", "index ignores the octet", "O2", (F, "crc_index = (crc ^ byte) & 0xFF", "crc_index = crc & 0xFF"))
S("C03", "INIT 0xFFFF -> 0", "O3", (F, "INIT_FCS_16 = 0xFFFF", "INIT_FCS_16 = 0x0000"))
S("C03", "GOOD 0xF0B8 -> 0xF0B9", "O5", (F, "GOOD_FCS_16 = 0xF0B8", "GOOD_FCS_16 = 0xF0B9"))
S("C03", "checksum complement dropped", "O4", (F, "return self._crc_value ^ 0xFFFF  # complement", "return self._crc_value"))
S("C03", "compute_checksum complement dropped", "O7", (F, "return fcs ^ 0xFFFF  # complement", "return fcs"))
S("C03", "compute_checksum window range(start, length)", "O7", (F, "range(start, start + length)", "range(start, length)"))
S("C03", "compute_checksum reads data[start]", "O7", (F, "index = (fcs ^ data[i]) & 0xFF", "index = (fcs ^ data[start]) & 0xFF"))
S("C03", "update returns the old value", "O3", (F, "        self._crc_value = self._next(self._crc_value, byte)\n        return self._crc_value",
                                             "        old = self._crc_value\n        self._crc_value = self._next(self._crc_value, byte)\n        return old"))
S("C03", "rogue writer of the register in hdlc", "O3", ("hdlc", "        self._frame_data.append(byte)\n", "        self._frame_data.append(byte)\n        self._ffc._crc_value = self._ffc._crc_value\n"))
S("C03", "is_good compares checksum instead of register", None, (F, "return self.GOOD_FCS_16 == self._crc_value", "return self.GOOD_FCS_16 == self.checksum"))
N("C03", "swap xor operands, rename locals", (F, "crc_index = (crc ^ byte) & 0xFF\n        return (crc >> 8) ^ FastFrameCheckSequence16.fast_frame_check_crc_table[\n            crc_index\n        ]",
                                            "idx = 0xFF & (byte ^ crc)\n        tab = FastFrameCheckSequence16.fast_frame_check_crc_table\n        return tab[idx] ^ (crc >> 8)"))
N("C03", "is_good operand order", (F, "return self.GOOD_FCS_16 == self._crc_value", "return self._crc_value == self.GOOD_FCS_16"))
N("C03", "compute_checksum via slice iteration", (F, "        for i in range(start, start + length):\n            index = (fcs ^ data[i]) & 0xFF",
                                                "        for octet in data[start : start + length]:\n            index = (fcs ^ octet) & 0xFF"))
N("C03", "table generator as conditional expression", (F, "            if (byte ^ crc) & 1:\n                crc = (crc >> 1) ^ polynomial\n            else:\n                crc >>= 1\n",
                                                      "            crc = (crc >> 1) ^ polynomial if (byte ^ crc) & 1 else crc >> 1\n"))
N("C03", "checksum via literal mask", (F, "return self._crc_value ^ 0xFFFF  # complement", "return 65535 ^ self._crc_value"))
