"""Self-validation catalogue (DESIGN.md Appendix D): per property, source substitutions on the current tree.

Each entry: name, kind ('seeded' | 'neutral'), optional rule (the rule that must report it),
subs = [(module, old text, new text)] -- old must occur exactly once, otherwise the entry is skipped.
"""
CATALOGUE = {}


def S(pid, name, rule, *subs):
    CATALOGUE.setdefault(pid, []).append({"name": name, "kind": "seeded", "rule": rule, "subs": list(subs)})


def U(pid, name, *subs):
    """a variant whose safety needs an invariant outside the discharge catalogue: the check must NOT pass (undecided or violation)"""
    CATALOGUE.setdefault(pid, []).append({"name": name, "kind": "unproven", "subs": list(subs)})


def N(pid, name, *subs):
    CATALOGUE.setdefault(pid, []).append({"name": name, "kind": "neutral", "subs": list(subs)})


# ------------------------------------------------------------------------------------------------ C03
F = "fastframecheck"
S("C03", "polynomial 0x8408 -> 0x8400", "O1", (F, "polynomial = 0x8408", "polynomial = 0x8400"))
S("C03", "table shift >> 1 -> >> 2 in one arm", "O1", (F, "                crc >>= 1\n            byte", "                crc >>= 2\n            byte"))
S("C03", "step shift >> 8 -> >> 7", "O2", (F, "        return (crc >> 8) ^ FastFrameCheckSequence16", "        return (crc >> 7) ^ FastFrameCheckSequence16"))
S("C03", "index mask 0xFF -> 0x7F", "O2", (F, "crc_index = (crc ^ byte) & 0xFF", "crc_index = (crc ^ byte) & 0x7F"))
S("C03", "index ignores the octet", "O2", (F, "crc_index = (crc ^ byte) & 0xFF", "crc_index = crc & 0xFF"))
S("C03", "INIT 0xFFFF -> 0", "O3", (F, "INIT_FCS_16 = 0xFFFF", "INIT_FCS_16 = 0x0000"))
S("C03", "GOOD 0xF0B8 -> 0xF0B9", "O5", (F, "GOOD_FCS_16 = 0xF0B8", "GOOD_FCS_16 = 0xF0B9"))
S("C03", "checksum complement dropped", "O4", (F, "return self._crc_value ^ 0xFFFF  # complement", "return self._crc_value"))
S("C03", "compute_checksum complement dropped", "O7", (F, "return fcs ^ 0xFFFF  # complement", "return fcs"))
S("C03", "compute_checksum window range(start, length)", "O7", (F, "range(start, start + length)", "range(start, length)"))
S("C03", "compute_checksum reads data[start]", "O7", (F, "index = (fcs ^ data[i]) & 0xFF", "index = (fcs ^ data[start]) & 0xFF"))
S("C03", "update returns the old value", "O3", (F, "        self._crc_value = self._next(self._crc_value, byte)\n        return self._crc_value",
                                             "        old = self._crc_value\n        self._crc_value = self._next(self._crc_value, byte)\n        return old"))
S("C03", "rogue writer of the register in hdlc", "O3", ("hdlc", "        self._frame_data.append(byte)\n", "        self._frame_data.append(byte)\n        self._ffc._crc_value = self._ffc._crc_value\n"))
S("C03", "is_good compares checksum instead of register", None, (F, "return self.GOOD_FCS_16 == self._crc_value", "return self.GOOD_FCS_16 == self.checksum"))
N("C03", "swap xor operands, rename locals", (F, "crc_index = (crc ^ byte) & 0xFF\n        return (crc >> 8) ^ FastFrameCheckSequence16.fast_frame_check_crc_table[\n            crc_index\n        ]",
                                            "idx = 0xFF & (byte ^ crc)\n        tab = FastFrameCheckSequence16.fast_frame_check_crc_table\n        return tab[idx] ^ (crc >> 8)"))
N("C03", "is_good operand order", (F, "return self.GOOD_FCS_16 == self._crc_value", "return self._crc_value == self.GOOD_FCS_16"))
N("C03", "compute_checksum via slice iteration", (F, "        for i in range(start, start + length):\n            index = (fcs ^ data[i]) & 0xFF",
                                                "        for octet in data[start : start + length]:\n            index = (fcs ^ octet) & 0xFF"))
N("C03", "table generator as conditional expression", (F, "            if (byte ^ crc) & 1:\n                crc = (crc >> 1) ^ polynomial\n            else:\n                crc >>= 1\n",
                                                      "            crc = (crc >> 1) ^ polynomial if (byte ^ crc) & 1 else crc >> 1\n"))
N("C03", "checksum via literal mask", (F, "return self._crc_value ^ 0xFFFF  # complement", "return 65535 ^ self._crc_value"))

# ------------------------------------------------------------------------------------------------ C01
H = "hdlc"
S("C01", "is_valid: and -> or", "R1", (H, "if self.is_good_ffc and self.is_expected_length:", "if self.is_good_ffc or self.is_expected_length:"))
S("C01", "is_valid: length check dropped", "R1", (H, "if self.is_good_ffc and self.is_expected_length:", "if self.is_good_ffc:"))
S("C01", "is_valid: inverted return", "R1", (H, "            self.as_bytes.hex(),\n        )\n        return False", "            self.as_bytes.hex(),\n        )\n        return True"))
S("C01", "append: register update dropped", "R2", (H, "        self._frame_data.append(byte)\n        self._ffc.update(byte)\n", "        self._frame_data.append(byte)\n"))
S("C01", "append: register updated twice", "R2", (H, "        self._ffc.update(byte)\n", "        self._ffc.update(byte)\n        self._ffc.update(byte)\n"))
S("C01", "append: register fed a different value", "R2", (H, "        self._ffc.update(byte)\n", "        self._ffc.update(byte & 0x7F)\n"))
S("C01", "frame_length mask 0x7FF -> 0x3FF", "R3", (H, "return self.frame_format & 0b11111111111", "return self.frame_format & 0b1111111111"))
S("C01", "frame_format operands swapped", "R3", (H, "return self._frame.as_bytes[0] << 8 | self._frame.as_bytes[1]", "return self._frame.as_bytes[1] << 8 | self._frame.as_bytes[0]"))
S("C01", "segmentation bit 11 -> 12", "R3", (H, "return ((self.frame_format >> 11) & 0x1) == 0x1", "return ((self.frame_format >> 12) & 0x1) == 0x1"))
S("C01", "payload slice -2 -> -1", "R4", (H, "return bytes(self._frame_data[info_position:-2])", "return bytes(self._frame_data[info_position:-1])"))
S("C01", "information position +3 -> +2", "R4", (H, "            return self._control_position + 3\n", "            return self._control_position + 2\n"))
S("C01", "address terminator & 0x01 -> & 0x80", "R4", (H, "if (current & 0x01) == 0x01:", "if (current & 0x80) == 0x80:"))
S("C01", "source address at fixed offset 3", "R4", (H, "return self._get_address(2 + len(destination_adr))", "return self._get_address(3)"))
S("C01", "HCS octets swapped", "R4", (H, "self._frame.as_bytes[cast(int, self._control_position) + 1] << 8\n                | self._frame.as_bytes[cast(int, self._control_position) + 2]",
                                    "self._frame.as_bytes[cast(int, self._control_position) + 2] << 8\n                | self._frame.as_bytes[cast(int, self._control_position) + 1]"))
S("C01", "emitted frame kept as current frame", "R6", (H, "                frames_received.append(cast(HdlcFrame, self._frame))\n                self._start_frame()\n", "                frames_received.append(cast(HdlcFrame, self._frame))\n"))
S("C01", "rogue writer of the frame store", "R2", (H, "    def _start_frame(self) -> None:\n        self._frame = HdlcFrame()\n", "    def _start_frame(self) -> None:\n        self._frame = HdlcFrame()\n        self._frame._frame_data.append(0)\n"))
N("C01", "is_valid as nested ifs", (H, "        if self.is_good_ffc and self.is_expected_length:\n            return True\n", "        if self.is_expected_length:\n            if self.is_good_ffc:\n                return True\n"))
N("C01", "frame_format operand order of |", (H, "return self._frame.as_bytes[0] << 8 | self._frame.as_bytes[1]", "return self._frame.as_bytes[1] | (self._frame.as_bytes[0] << 8)"))
N("C01", "frame_length hex mask", (H, "return self.frame_format & 0b11111111111", "return 0x7FF & self.frame_format"))
N("C01", "source address start commuted", (H, "return self._get_address(2 + len(destination_adr))", "return self._get_address(len(destination_adr) + 2)"))
N("C01", "append order swapped", (H, "        self._frame_data.append(byte)\n        self._ffc.update(byte)\n", "        self._ffc.update(byte)\n        self._frame_data.append(byte)\n"))

S("C01", "control position computed only at length 4", "R4", (H, "if self._control_position is None and len(self._frame) > 3:", "if self._control_position is None and len(self._frame) == 4:"))

# ------------------------------------------------------------------------------------------------ C02
S("C02", "flag on empty frame sends the reader to hunt mode", "R1", (H, "            # Found new flag sequence. Two is normal ( end + start), one is allowed, and many possible if time fill.\n            pass\n",
                                                                    "            self._goto_hunt_mode()\n"))
S("C02", "closing-flag test negated", "R1", (H, "        elif self._frame.is_expected_length:\n            frame_complete = True", "        elif not self._frame.is_expected_length:\n            frame_complete = True"))
S("C02", "length guard > -> >=", "R2", (H, "if self._frame is not None and len(self._frame) > HdlcFrame.MAX_FRAME_LENGTH:", "if self._frame is not None and len(self._frame) >= HdlcFrame.MAX_FRAME_LENGTH:"))
S("C02", "unstuff xor 0x20 -> 0x02", "R1", (H, "unescaped = current ^ 0x20", "unescaped = current ^ 0x02"))
S("C02", "escape octet also stored in the frame", "R1", (H, "                    self._unescape_next = True\n", "                    self._unescape_next = True\n                    self._frame.append(current)\n"))
S("C02", "pending flag not cleared after un-stuffing", "R1", (H, "                self._unescape_next = False\n                unescaped", "                unescaped"))
S("C02", "hunt-mode trim also on an empty frame", "R1", (H, "        if self._frame is None:  # in hunt mode\n            self._buffer.trim_buffer_to_flag_or_end()", "        if self._frame is None or len(self._frame) == 0:\n            self._buffer.trim_buffer_to_flag_or_end()"))
S("C02", "pop advances by two", "R1", (H, "        self._buffer_pos += 1\n        return byte", "        self._buffer_pos += 2\n        return byte"))
S("C02", "frame start in hunt mode dropped", "R1", (H, '            _LOGGER.debug("Found flag sequence in frame hunt mode")\n            self._start_frame()\n', '            _LOGGER.debug("Found flag sequence in frame hunt mode")\n'))
S("C02", "MAX_FRAME_LENGTH 10 bits", "R2", (H, "MAX_FRAME_LENGTH: int = 0b11111111111", "MAX_FRAME_LENGTH: int = 0b1111111111"))
N("C02", "flag test via local renamed", (H, "        is_flag = current == self.FLAG_SEQUENCE\n        if is_flag:", "        flag_seen = self.FLAG_SEQUENCE == current\n        if flag_seen:"))
N("C02", "stuffing branch order inverted", (H, "                if current == HdlcFrameReader.CONTROL_ESCAPE:\n                    self._unescape_next = True\n                else:\n                    self._frame.append(current)",
                                             "                if current != HdlcFrameReader.CONTROL_ESCAPE:\n                    self._frame.append(current)\n                else:\n                    self._unescape_next = True"))
N("C02", "hunt test through the public property", (H, "        if self._frame is None:  # in hunt mode\n            self._buffer.trim_buffer_to_flag_or_end()", "        if self.is_in_hunt_mode:\n            self._buffer.trim_buffer_to_flag_or_end()"))
N("C02", "raw store last octet via [-1]", (H, "and self._raw_frame_data[-1:][0] == self.CONTROL_ESCAPE", "and self._raw_frame_data[-1] == self.CONTROL_ESCAPE"))

# ------------------------------------------------------------------------------------------------ C06
N("C06", "read returns at once for an empty chunk", (H, "        self._buffer.extend(data_chunk)\n\n        if self._frame is None:", "        self._buffer.extend(data_chunk)\n        if len(data_chunk) == 0:\n            return frames_received\n\n        if self._frame is None:"))
S("C06", "read postpones chunks shorter than 4 octets", "N3", (H, "        self._buffer.extend(data_chunk)\n\n        if self._frame is None:", "        self._buffer.extend(data_chunk)\n        if len(data_chunk) < 4:\n            return frames_received\n\n        if self._frame is None:"))
S("C06", "local counter carried across iterations", "N2", (H, "        while self._buffer.is_available:\n            frame_complete = self._read_next()\n            if frame_complete:",
                                                          "        count = 0\n        while self._buffer.is_available:\n            count = count + 1\n            frame_complete = self._read_next() and count < 9\n            if frame_complete:"))
S("C06", "hunt row with a side effect", "N6", (H, "        elif self._frame is not None:  # not in hunt mode\n            self._append_to_frame(current)\n", "        elif self._frame is not None:  # not in hunt mode\n            self._append_to_frame(current)\n        else:\n            self._raw_frame_data.append(current)\n"))
S("C06", "look-ahead on escape", "N3", (H, "                if current == HdlcFrameReader.CONTROL_ESCAPE:\n                    self._unescape_next = True\n",
                                         "                if current == HdlcFrameReader.CONTROL_ESCAPE:\n                    if self._buffer.is_available:\n                        self._frame.append(self._buffer.pop() ^ 0x20)\n                    else:\n                        self._unescape_next = True\n"))
S("C06", "length check hoisted out of the step", "N3", (H, "        # release consumed bytes\n", "        if self._frame is not None and len(self._frame) > 100:\n            self._goto_hunt_mode()\n        # release consumed bytes\n"))
S("C06", "trim to position drops one octet too many", "N4", (H, "        self._buffer = self._buffer[self._buffer_pos :]\n        self._buffer_pos = 0\n\n    def trim_buffer_to_flag", "        self._buffer = self._buffer[self._buffer_pos + 1 :]\n        self._buffer_pos = 0\n\n    def trim_buffer_to_flag"))
S("C06", "trim to flag keeps the tail when no flag", "N5", (H, "            # flag sequence not found\n            self._buffer.clear()\n", "            # flag sequence not found\n            pass\n"))
S("C06", "class-level pending flag", "N2", (H, "                    self._unescape_next = True\n", "                    self._unescape_next = True\n                    HdlcFrameReader.last_escape = True\n"))
N("C06", "epilogue trim through a local alias", (H, "        # release consumed bytes\n        self._buffer.trim_buffer_to_current_position()\n", "        buf = self._buffer\n        buf.trim_buffer_to_current_position()\n"))
N("C06", "loop test via method result variable", (H, "            frame_complete = self._read_next()\n            if frame_complete:", "            done = self._read_next()\n            if done:"))

# ------------------------------------------------------------------------------------------------ C05 / C16 / C19 (the repaired defects re-seeded, plus others)
D = "dlde"
OLD_GUARD = ("        readouts_received: list[DataReadout] = []\n\n        self._buffer.extend(data_chunk)\n",
             "        readouts_received: list[DataReadout] = []\n\n        if len(self._buffer) > 8191:\n            self._is_int_hunt_mode = True\n            self._buffer.trim_buffer_to_flag_or_end()\n\n        self._buffer.extend(data_chunk)\n")
NO_EXIT_TRIM = ("                # Release consumed bytes. Only an incomplete line is left in the buffer.\n                self._buffer.trim_buffer_to_current_position()\n", "")
S("C05", "pinned defect: guard at call entry counts consumed bytes", "R1", (D, *OLD_GUARD), (D, *NO_EXIT_TRIM),
  (D, "                if len(self._buffer) + len(self._raw_data) > 8191:\n", "                if len(self._raw_data) > 65536:\n"))
S("C05", "guard evaluated before the exit trim", "R1", (D, "                self._buffer.trim_buffer_to_current_position()\n                if len(self._buffer) + len(self._raw_data) > 8191:\n",
                                                       "                if len(self._buffer) + len(self._raw_data) > 8191:\n"), )
S("C05", "guard limit 8191 -> 1024", "R4", (D, "if len(self._buffer) + len(self._raw_data) > 8191:", "if len(self._buffer) + len(self._raw_data) > 1024:"))
S("C05", "end-line row forgets clear()", "R2", (D, "                    self._raw_data.clear()\n                    self._is_int_hunt_mode = True\n\n", "                    self._is_int_hunt_mode = True\n\n"))
S("C05", "hunt row keeps non-ident lines", "R2", (D, "                        self._is_int_hunt_mode = False\n                        self._raw_data.extend(line)\n", "                        self._is_int_hunt_mode = False\n                    self._raw_data.extend(line)\n"))
S("C05", "end line not kept in the readout", "R2", (D, "            else:\n                self._raw_data.extend(line)\n                if line[0] == END_CHARACTER_HEX:\n", "            else:\n                if line[0] != END_CHARACTER_HEX:\n                    self._raw_data.extend(line)\n                if line[0] == END_CHARACTER_HEX:\n"))
S("C05", "pop advances one byte short", "R3", (D, "                self._buffer_pos += len(line)\n", "                self._buffer_pos += len(line) - 1\n"))
S("C05", "early return when the chunk has no start character", "R3", (D, "        self._buffer.extend(data_chunk)\n\n        if self._is_int_hunt_mode:", "        if self._is_int_hunt_mode and START_CHARACTER_HEX not in data_chunk:\n            return readouts_received\n        self._buffer.extend(data_chunk)\n\n        if self._is_int_hunt_mode:"))
S("C05", "end row also clears the buffer", "R2", (D, "                    self._raw_data.clear()\n                    self._is_int_hunt_mode = True\n\n", "                    self._raw_data.clear()\n                    self._buffer.clear()\n                    self._is_int_hunt_mode = True\n\n"))
N("C05", "hunt test through the field", (D, "            if self.is_in_hunt_mode:\n                if line[0] == START_CHARACTER_HEX and line.isascii():", "            if self._is_int_hunt_mode:\n                if line[0] == START_CHARACTER_HEX and line.isascii():"))
N("C05", "guard written with >=", (D, "if len(self._buffer) + len(self._raw_data) > 8191:", "if len(self._raw_data) + len(self._buffer) >= 8192:"))
N("C05", "end test inverted branches", (D, "                if line[0] == END_CHARACTER_HEX:\n                    readout = DataReadout(bytes(self._raw_data))\n                    readouts_received.append(readout)\n                    _LOGGER.debug(\"Readout received:\\n%s\", readout)\n                    self._raw_data.clear()\n                    self._is_int_hunt_mode = True\n",
                                          "                if line[0] != END_CHARACTER_HEX:\n                    continue\n                readout = DataReadout(bytes(self._raw_data))\n                readouts_received.append(readout)\n                self._raw_data.clear()\n                self._is_int_hunt_mode = True\n"))

S("C16", "pinned defect: pending escape not reset at frame start", "R1", (H, "        self._raw_frame_data.clear()\n        self._unescape_next = False\n", "        self._raw_frame_data.clear()\n"))
S("C19", "raw history not cleared at frame start", "R2", (H, "        self._frame = HdlcFrame()\n        self._raw_frame_data.clear()\n", "        self._frame = HdlcFrame()\n"))
S("C16", "too-short discard keeps the partial frame", "R2", (H, "                self._raw_frame_data.hex(),\n            )\n            self._goto_hunt_mode()\n\n        # check if previous", "                self._raw_frame_data.hex(),\n            )\n\n        # check if previous"))
S("C16", "over-long discard restarts a frame mid-stream", "R2", (H, "                self._raw_frame_data.hex(),\n            )\n            self._goto_hunt_mode()\n            frame_complete = False", "                self._raw_frame_data.hex(),\n            )\n            self._start_frame()\n            frame_complete = False"))
S("C16", "abort discard delivers the frame", "R2", (H, '                "Abort sequence. Discard frame: %s", self._raw_frame_data.hex()\n            )\n            self._goto_hunt_mode()', '                "Abort sequence. Discard frame: %s", self._raw_frame_data.hex()\n            )\n            frame_complete = True'))
S("C16", "P1 guard trip keeps the collected lines", "R3", (D, "                    self._raw_data.clear()\n                    self._is_int_hunt_mode = True\n                    self._buffer.clear()", "                    self._is_int_hunt_mode = True\n                    self._buffer.clear()"))
S("C16", "P1 guard trip stays in collect mode", "R3", (D, "                    self._raw_data.clear()\n                    self._is_int_hunt_mode = True\n                    self._buffer.clear()", "                    self._raw_data.clear()\n                    self._buffer.clear()"))
S("C16", "P1 end line does not return to hunt mode", "R3", (D, "                    self._raw_data.clear()\n                    self._is_int_hunt_mode = True\n\n", "                    self._raw_data.clear()\n\n"))
S("C16", "maximum frame length raised to 12 bits", "R2", (H, "MAX_FRAME_LENGTH: int = 0b11111111111", "MAX_FRAME_LENGTH: int = 0xFFF"))
N("C16", "maximum frame length spelled in decimal", (H, "MAX_FRAME_LENGTH: int = 0b11111111111", "MAX_FRAME_LENGTH: int = 2047"))
N("C16", "reset of the pending flag moved to hunt-mode entry and frame start", (H, "    def _goto_hunt_mode(self) -> None:\n        self._frame = None\n", "    def _goto_hunt_mode(self) -> None:\n        self._frame = None\n        self._unescape_next = False\n"))

S("C19", "pinned defect: no trim on exit of HdlcFrameReader.read", "R1", (H, "        # release consumed bytes\n        self._buffer.trim_buffer_to_current_position()\n", ""))
S("C19", "pinned defect: flag appended without the length guard", "R2", (H, "        if self._frame is not None and len(self._frame) > HdlcFrame.MAX_FRAME_LENGTH:\n", "        if not is_flag and self._frame is not None and len(self._frame) > HdlcFrame.MAX_FRAME_LENGTH:\n"))
S("C19", "length guard removed", "R2", (H, "            self._goto_hunt_mode()\n            frame_complete = False\n\n        return frame_complete", "            frame_complete = False\n\n        return frame_complete"))
S("C19", "pinned defect: P1 trip path trims to start character only", "R3", (D, "                    self._is_int_hunt_mode = True\n                    self._buffer.clear()", "                    self._is_int_hunt_mode = True\n                    self._buffer.trim_buffer_to_flag_or_end()"))
S("C19", "P1 guard no longer covers the collected lines", "R2", (D, "if len(self._buffer) + len(self._raw_data) > 8191:", "if len(self._buffer) > 8191:"))
S("C19", "P1 consumed lines not released on exit", "R1", (D, *NO_EXIT_TRIM))
S("C19", "P1 guard removed", "R2", (D, "                if len(self._buffer) + len(self._raw_data) > 8191:\n", "                if False:\n"))
S("C19", "escape after escape re-arms without growing the frame", "R2", (H, "            if self._unescape_next:\n                self._unescape_next = False\n                unescaped = current ^ 0x20\n                self._frame.append(unescaped)\n            else:\n                if current == HdlcFrameReader.CONTROL_ESCAPE:\n                    self._unescape_next = True\n                else:\n                    self._frame.append(current)",
    "            if current == HdlcFrameReader.CONTROL_ESCAPE:\n                self._unescape_next = True\n            elif self._unescape_next:\n                self._unescape_next = False\n                self._frame.append(current ^ 0x20)\n            else:\n                self._frame.append(current)"))
N("C19", "exit trim via trim-to-flag when hunting", (H, "        # release consumed bytes\n        self._buffer.trim_buffer_to_current_position()\n", "        if self._frame is None:\n            self._buffer.trim_buffer_to_flag_or_end()\n        else:\n            self._buffer.trim_buffer_to_current_position()\n"))

# ------------------------------------------------------------------------------------------------ C20
OB = "obis"
S("C20", "pinned defect: doubled accumulator in the B branch", "R4", (OB, 'obis_code += f"{self._groups[1]}:"', 'obis_code += obis_code + f"{self._groups[1]}:"'))
N("C20", "__hash__ over a sub-tuple of the compared groups (equal objects still hash equally)", (OB, "return hash(self._groups)", "return hash(self._groups[2:5])"))
S("C20", "to_group_cdr_str omits E", "R3", (OB, 'return f"{self._groups[2]}.{self._groups[3]}.{self._groups[4]}"', 'return f"{self._groups[2]}.{self._groups[3]}"'))
S("C20", "AR/BR swapped in the group() call", "R1", (OB, 'obis = match.group("AR", "BR", "CR", "DR", "ER", "FR")', 'obis = match.group("BR", "AR", "CR", "DR", "ER", "FR")'))
S("C20", "F converted unconditionally", "R1", (OB, "                int(obis[4]) if obis[4] else None,\n                int(obis[5]) if obis[5] else None,\n            )\n\n        if match.group(\"STANDARD\")",
                                             "                int(obis[4]) if obis[4] else None,\n                int(obis[5]),\n            )\n\n        if match.group(\"STANDARD\")"))
S("C20", "D converted conditionally", "R2", (OB, "                int(obis[2]),\n                int(obis[3]),\n                int(obis[4]) if obis[4] else None,\n                int(obis[5]) if obis[5] else None,",
                                           "                int(obis[2]),\n                int(obis[3]) if obis[3] else None,\n                int(obis[4]) if obis[4] else None,\n                int(obis[5]) if obis[5] else None,"))
S("C20", "E separator ':' in the pattern", "R1", (OB, r"(\.(?P<ER>\d{0,3}))?", r"(:(?P<ER>\d{0,3}))?"))
S("C20", "eq compares strings", "R3", (OB, "        if isinstance(other, Obis):\n            return self._groups == other._groups", "        if isinstance(other, Obis):\n            return str(self) == str(other)"))
S("C20", "*F only emitted together with E", "R4", (OB, '            obis_code += f".{self._groups[4]}"\n        if self._groups[5]:\n            obis_code += f"*{self._groups[5]}"', '            obis_code += f".{self._groups[4]}"\n            if self._groups[5]:\n                obis_code += f"*{self._groups[5]}"'))
S("C20", "eq swallows nothing (no ValueError handler)", "R3", (OB, "        except ValueError:\n            return False", "        except KeyError:\n            return False"))
N("C20", "tuple built through a local list", (OB, "            obis = match.group(\"AS\", \"BS\", \"CS\", \"DS\", \"ES\", \"FS\")\n            return (\n                int(obis[0]),", "            obis = match.group(\"AS\", \"BS\", \"CS\", \"DS\", \"ES\", \"FS\")\n            return (\n                int(match.group(\"AS\")),"))
N("C20", "reduced string built with str()+concatenation", (OB, '            obis_code += f"{self._groups[0]}-"', '            obis_code += str(self._groups[0]) + "-"'))
N("C20", "eq operand order", (OB, "            return self._groups == other._groups", "            return other._groups == self._groups"))

# ------------------------------------------------------------------------------------------------ C18
MC = "meter_connection"
S("C18", "* 2 -> * 3", "R1", (MC, "self._delay = self._delay * 2", "self._delay = self._delay * 3"))
S("C18", "== 0 -> == 1 in failure", "R1", (MC, "        if self._delay == 0:\n            self._delay = 1", "        if self._delay == 1:\n            self._delay = 1"))
S("C18", "cap comparison inverted", "R1", (MC, "return self._delay if self._delay < self.max_delay else self.max_delay", "return self._delay if self._delay > self.max_delay else self.max_delay"))
S("C18", "doubling stops before the cap", "R1", (MC, "        self._delay = self._delay * 2\n        if self._delay == 0:\n            self._delay = 1",
                                                "        if self._delay == 0:\n            self._delay = 1\n        elif self._delay * 2 <= self.max_delay:\n            self._delay = self._delay * 2"))
S("C18", "reset leaves 1", "R1", (MC, '        """Call this after success to reset."""\n        self._delay = 0', '        """Call this after success to reset."""\n        self._delay = 1'))
S("C18", "failure()/reset() swapped", "R2", (MC, "                self.back_off_connect_error.reset()\n            except CancelledError", "                self.back_off_connect_error.failure()\n            except CancelledError"))
S("C18", "reset skipped while the breaker is armed", "R2", (MC, "                self.back_off_connect_error.reset()\n", "                if not self._connection_lost_sleep_before_reconnect:\n                    self.back_off_connect_error.reset()\n"))
S("C18", "max( -> min(", "R3", (MC, "sleep_time = max(current_connect_error_delay, reconnect_sleep)", "sleep_time = min(current_connect_error_delay, reconnect_sleep)"))
S("C18", "sleep skipped when the breaker flag is set", "R3", (MC, "        if sleep_time > 0:\n            await sleep(sleep_time)", "        if sleep_time > 0 and not self._connection_lost_sleep_before_reconnect:\n            await sleep(sleep_time)"))
S("C18", "sleep after connecting", "R3", (MC, "        if sleep_time > 0:\n            await sleep(sleep_time)\n\n        if not self._is_closing.is_set():", "        if not self._is_closing.is_set():"), )
S("C18", "breaker compares with >", "R4", (MC, "delta.total_seconds() < self.connection_lost_back_off_threshold", "delta.total_seconds() > self.connection_lost_back_off_threshold"))
S("C18", "last-loss time only set once", "R4", (MC, "        self._connection_lost_last_time = now\n", "        if not self._connection_lost_last_time:\n            self._connection_lost_last_time = now\n"))
N("C18", "store-capping variant of failure()", (MC, "        self._delay = self._delay * 2\n        if self._delay == 0:\n            self._delay = 1", "        self._delay = min(max(self._delay * 2, 1), max(self.max_delay, 1))"))
N("C18", "cap via min()", (MC, "return self._delay if self._delay < self.max_delay else self.max_delay", "return min(self._delay, self.max_delay)"))
N("C18", "doubling by shift", (MC, "self._delay = self._delay * 2", "self._delay = self._delay << 1"))

# ------------------------------------------------------------------------------------------------ C17
S("C17", "pinned defect: losers of the first wait never cancelled", "R1", (MC, "            await self._cancel_tasks(connect_task, closing_task)\n", ""))
S("C17", "pinned defect: second closing waiter never cancelled", "R1", (MC, "                await self._cancel_tasks(closing_task2)\n", ""))
S("C17", "only the connect task is cancelled", "R1", (MC, "await self._cancel_tasks(connect_task, closing_task)", "await self._cancel_tasks(connect_task)"))
S("C17", "helper no longer cancels", "R1", (MC, "            if not task.done():\n                task.cancel()\n", "            pass\n"))
S("C17", "closing test removed before the factory call", "R2", (MC, "        if not self._is_closing.is_set():\n            try:\n                _LOGGER.debug(\"Try to connect\")", "        if True:\n            try:\n                _LOGGER.debug(\"Try to connect\")"))
S("C17", "sleep moved between the closing test and the factory call", "R2", (MC, "        if sleep_time > 0:\n            await sleep(sleep_time)\n\n        if not self._is_closing.is_set():\n            try:\n                _LOGGER.debug(\"Try to connect\")",
                                                                             "        if not self._is_closing.is_set():\n            try:\n                if sleep_time > 0:\n                    await sleep(sleep_time)\n                _LOGGER.debug(\"Try to connect\")"))
S("C17", "closing event cleared at loop start", "R3", (MC, '        while not self._is_closing.is_set():\n            connect_task', '        self._is_closing.clear()\n        while not self._is_closing.is_set():\n            connect_task'))
S("C17", "pinned defect: late connection not closed", "R4", (MC, "                elif self._connection:\n                    # connection was established after close() was called\n                    transport, _ = self._connection\n                    transport.close()\n", ""))
S("C17", "close() touches the connection before setting the event", "R6", (MC, "        self._is_closing.set()\n        if self._connection:\n            _LOGGER.info(\"Close connection and abort connect loop\")\n            transport, _ = self._connection\n            transport.close()\n            self._connection = None",
                                                                           "        if self._connection:\n            _LOGGER.info(\"Close connection and abort connect loop\")\n            transport, _ = self._connection\n            transport.close()\n            self._connection = None\n        self._is_closing.set()"))
S("C17", "close() does not close the transport", "R6", (MC, "            transport, _ = self._connection\n            transport.close()\n            self._connection = None\n\n    async def connect_loop", "            self._connection = None\n\n    async def connect_loop"))
S("C17", "no wait on the live connection", "R5", (MC, "                await wait(\n                    (done_task, closing_task2),\n                    return_when=FIRST_COMPLETED,\n                )\n", ""))
S("C17", "connected phase entered without re-reading the connection field", "R4", (MC, "            if self._connection:\n                _, protocol = self._connection\n                done_task", "            if connect_task.done() and not connect_task.cancelled():\n                _, protocol = self._connection\n                done_task"))
N("C17", "connection field compared with None", (MC, "            if self._connection:\n                _, protocol = self._connection\n                done_task", "            if self._connection is not None:\n                _, protocol = self._connection\n                done_task"))
N("C17", "inline cancellation instead of the helper", (MC, "            await self._cancel_tasks(connect_task, closing_task)\n", "            for task in (connect_task, closing_task):\n                if not task.done():\n                    task.cancel()\n            await wait((connect_task, closing_task))\n"))
N("C17", "closing test written positively", (MC, "        if not self._is_closing.is_set():\n            try:\n                _LOGGER.debug(\"Try to connect\")", "        if self._is_closing.is_set():\n            return\n        if not self._is_closing.is_set():\n            try:\n                _LOGGER.debug(\"Try to connect\")"))

# ------------------------------------------------------------------------------------------------ C13
S("C13", "is_valid guard removed", "R1", (MC, "        if message.is_valid:\n            if payload is not None and len(payload) > 0:\n                self.queue.put_nowait(payload)", "        if True:\n            if payload is not None and len(payload) > 0:\n                self.queue.put_nowait(payload)"))
S("C13", "len(payload) > 0 -> >= 0", "R1", (MC, "if payload is not None and len(payload) > 0:", "if payload is not None and len(payload) >= 0:"))
S("C13", "payload enqueued is as_bytes", "R1", (MC, "                self.queue.put_nowait(payload)", "                self.queue.put_nowait(message.as_bytes)"))
S("C13", "message protocol filters invalid messages", "R2", (MC, '        """Received message is passed on to the queue."""\n        self.queue.put_nowait(message)', '        """Received message is passed on to the queue."""\n        if message.is_valid:\n            self.queue.put_nowait(message)'))
S("C13", "break after selection removed", "R4", (MC, "                    for msg in messages:\n                        self.message_received(msg)\n                    break\n", "                    for msg in messages:\n                        self.message_received(msg)\n"))
S("C13", "selection on any message", "R3", (MC, "                    if msg.is_valid:\n                        self._selected_reader = reader", "                    if msg is not None:\n                        self._selected_reader = reader"))
S("C13", "forward loop starts at the valid message", "R4", (MC, "                    if msg.is_valid:\n                        self._selected_reader = reader\n                        self._reader_candidates.clear()\n                        _LOGGER.info(\"Reader %s selected.\", reader)\n                        break\n                if self._selected_reader:\n                    for msg in messages:\n                        self.message_received(msg)\n                    break",
    "                    if msg.is_valid:\n                        self._selected_reader = reader\n                    if self._selected_reader:\n                        self.message_received(msg)\n                if self._selected_reader:\n                    self._reader_candidates.clear()\n                    break"))
S("C13", "candidate loop left after the first reader with messages", "R4", (MC, "                if self._selected_reader:\n                    for msg in messages:\n                        self.message_received(msg)\n                    break\n", "                if self._selected_reader:\n                    for msg in messages:\n                        self.message_received(msg)\n                if messages:\n                    break\n"))
S("C13", "selected branch forwards only valid messages", "R4", (MC, "            messages = self._selected_reader.read(data)\n            for msg in messages:\n                self.message_received(msg)", "            messages = self._selected_reader.read(data)\n            for msg in messages:\n                if msg.is_valid:\n                    self.message_received(msg)"))
S("C13", "selects the first candidate instead of the producing one", "R3", (MC, "                        self._selected_reader = reader\n", "                        self._selected_reader = self._reader_candidates[0]\n"))
N("C13", "selection through any()", (MC, "                for msg in messages:\n                    if msg.is_valid:\n                        self._selected_reader = reader\n                        self._reader_candidates.clear()\n                        _LOGGER.info(\"Reader %s selected.\", reader)\n                        break\n",
                                       "                if any(msg.is_valid for msg in messages):\n                    self._selected_reader = reader\n                    self._reader_candidates.clear()\n"))
N("C13", "presence test written with is not None", (MC, "        if self._selected_reader:\n            messages = self._selected_reader.read(data)", "        if self._selected_reader is not None:\n            messages = self._selected_reader.read(data)"))
N("C13", "payload truthiness test", (MC, "if payload is not None and len(payload) > 0:", "if payload:"))

# ------------------------------------------------------------------------------------------------ C12
AD = "autodecoder"
S("C12", "modulus dropped from the index", "R1", (AD, "            index = (i + previous_success_index) % len(\n                AutoDecoder.payload_decoder_functions\n            )\n            _, decoder", "            index = min(i + previous_success_index, len(AutoDecoder.payload_decoder_functions) - 1)\n            _, decoder"))
S("C12", "index stored before the call", "R2", (AD, "                decoded = decoder(payload)\n                self.__previous_success = index\n", "                self.__previous_success = index\n                decoded = decoder(payload)\n"))
S("C12", "return None inside the handler", "R2", (AD, "                decoded = decoder(payload)\n                self.__previous_success = index\n                return decoded\n            except (construct.ConstructError, ValueError):\n                pass", "                decoded = decoder(payload)\n                self.__previous_success = index\n                return decoded\n            except (construct.ConstructError, ValueError):\n                return None"))
S("C12", "table pairs Kaifa_frame with the Kamstrup function", "R4", (AD, '("Kaifa_frame", kaifa.decode_frame_content)', '("Kaifa_frame", kamstrup.decode_frame_content)'))
S("C12", "decode_message hands as_bytes to the decoder", "R5", (AD, "                    else decoder(message.payload)", "                    else decoder(message.as_bytes)"))
S("C12", "rotation without wrap-around", "R1", (AD, "        for i in range(len(AutoDecoder.payload_decoder_functions)):\n            index = (i + previous_success_index) % len(\n                AutoDecoder.payload_decoder_functions\n            )\n            _, decoder",
                                              "        for index in range(previous_success_index, len(AutoDecoder.payload_decoder_functions)):\n            _, decoder"))
S("C12", "default written into the remembered index", "R2", (AD, "        previous_success_index = (\n            self.__previous_success if self.__previous_success else 0\n        )\n\n        for i in range(len(AutoDecoder.payload_decoder_functions)):\n            index = (i + previous_success_index) % len(\n                AutoDecoder.payload_decoder_functions\n            )\n            _, decoder",
    "        if self.__previous_success is None:\n            self.__previous_success = 0\n        previous_success_index = self.__previous_success\n\n        for i in range(len(AutoDecoder.payload_decoder_functions)):\n            index = (i + previous_success_index) % len(\n                AutoDecoder.payload_decoder_functions\n            )\n            _, decoder"))
S("C12", "name property reads a fixed entry", "R3", (AD, "            decoder_name, _ = AutoDecoder.payload_decoder_functions[\n                self.__previous_success\n            ]", "            decoder_name, _ = AutoDecoder.payload_decoder_functions[0]"))
S("C12", "handler classes differ between the two methods", "R2|R5", (AD, "                self.__previous_success = index\n                return decoded\n            except (construct.ConstructError, ValueError):\n                pass\n\n        return None\n\n    def decode_message(", "                self.__previous_success = index\n                return decoded\n            except construct.ConstructError:\n                pass\n\n        return None\n\n    def decode_message("))
N("C12", "start index via `or 0`", (AD, "        previous_success_index = (\n            self.__previous_success if self.__previous_success else 0\n        )\n\n        for i in range(len(AutoDecoder.payload_decoder_functions)):\n            index = (i + previous_success_index) % len(\n                AutoDecoder.payload_decoder_functions\n            )\n            _, decoder",
                                     "        previous_success_index = self.__previous_success or 0\n\n        for i in range(len(AutoDecoder.payload_decoder_functions)):\n            index = (previous_success_index + i) % len(\n                AutoDecoder.payload_decoder_functions\n            )\n            _, decoder"))

# ------------------------------------------------------------------------------------------------ C04
S("C04", "pinned defect: checksum truthiness", "R3", (D, "        if expected_checksum is not None:\n            if self._calculated_crc != expected_checksum:", "        if expected_checksum:\n            if self._calculated_crc != expected_checksum:"))
S("C04", "CRC window end+1 -> end", "R2", (D, "buf = self._readout[0 : self._end_pos + 1]", "buf = self._readout[0 : self._end_pos]"))
S("C04", "CRC window starts after the slash", "R2", (D, "buf = self._readout[0 : self._end_pos + 1]", "buf = self._readout[1 : self._end_pos + 1]"))
S("C04", "polynomial 0xA001 -> 0xA003", "R1", (D, "crc ^= 0xA001  # CRC16 polynomial x16 + x15 + x2 +1", "crc ^= 0xA003"))
S("C04", "CRC init 0xFFFF", "R1", (D, "        crc = 0x0000\n", "        crc = 0xFFFF\n"))
S("C04", "comparison != -> <", "R3", (D, "if self._calculated_crc != expected_checksum:", "if self._calculated_crc < expected_checksum:"))
S("C04", "ident failure ignored", "R5", (D, "        except ValueError:\n            _LOGGER.debug(\"Invalid ident line.\")\n            return False", "        except ValueError:\n            _LOGGER.debug(\"Invalid ident line.\")"))
S("C04", "ident pattern loses its end anchor", "R5", (D, r"(?P<ID>[ -~]{1,16})?(\r\n)?$", r"(?P<ID>[ -~]{1,16})?"))
S("C04", "ident pattern requires a lower-case third letter", "R5", (D, "[A-Z][A-Z][a-zA-Z])", "[A-Z][A-Z][a-z])"))
S("C04", "checksum parsed as decimal", "R4", (D, "return int(end[1:].strip(), base=16)", "return int(end[1:].strip())"))
S("C04", "checksum absent when shorter than 5 characters", "R4", (D, "        if len(end) > 1:\n            return int(end[1:].strip(), base=16)", "        if len(end) > 4:\n            return int(end[1:].strip(), base=16)"))
S("C04", "payload includes the identification line", "R6", (D, "return bytes(self._readout[self._data_pos : self._end_pos])", "return bytes(self._readout[: self._end_pos])"))
S("C04", "ASCII data characters rejected", "R3", (D, "if char > 0x80 or char == b\"!\":", "if char > 0x60 or char == b\"!\":"))
S("C04", "checksum compared as unpadded text", "R3", (D, "            if self._calculated_crc != expected_checksum:", "            if f\"{self._calculated_crc:X}\" != self.end_line[1:].strip().upper():"))
S("C04", "readouts with an empty data block refused", "R3", (D, "        try:\n            expected_checksum = self.expected_checksum\n        except ValueError:", "        if self._data_pos >= self._end_pos:\n            return False\n        try:\n            expected_checksum = self.expected_checksum\n        except ValueError:"))
N("C04", "presence test inverted branches", (D, "        if expected_checksum is not None:\n            if self._calculated_crc != expected_checksum:", "        if expected_checksum is None:\n            pass\n        else:\n            if expected_checksum != self._calculated_crc:"))
N("C04", "CRC conditional xor as expression", (D, "                if crc & 0x01:\n                    crc >>= 1\n                    crc ^= 0xA001  # CRC16 polynomial x16 + x15 + x2 +1\n                else:\n                    crc >>= 1", "                crc = (crc >> 1) ^ 0xA001 if crc & 1 else crc >> 1"))
N("C04", "digit class written [0-9]", (D, r"(?P<BAUDID>\d)", r"(?P<BAUDID>[0-9])"))

# ------------------------------------------------------------------------------------------------ C10
CO = "cosem"
S("C10", "deviation unsigned", "R1", (CO, "        construct.Int16sb,\n        decoder=lambda obj, ctx: obj if obj != -0x8000 else None,", "        construct.Int16ub,\n        decoder=lambda obj, ctx: obj if obj != 0x8000 else None,"))
S("C10", "sign of the offset", "R4", (CO, "minutes=ctx.deviation * -1", "minutes=ctx.deviation"))
S("C10", "hundredths x 1000", "R4", (CO, "ctx.hundredths_of_second * 10000", "ctx.hundredths_of_second * 1000"))
S("C10", "month/day arguments swapped", "R4", (CO, "            ctx.month,\n            ctx.day_of_month,\n", "            ctx.day_of_month,\n            ctx.month,\n"))
S("C10", "status octet consumed twice on 0xFF", "R2", (CO, "construct.If(construct.this.clock_status_byte == 0xFF, construct.Int8ub),", "construct.If(construct.this.clock_status_byte == None, construct.Int8ub),"))
S("C10", "year little-endian", "R1", (CO, '    "year" / construct.Int16ub,', '    "year" / construct.Int16ul,'))
S("C10", "hundredths sentinel 0xFE", "R3", (CO, '    "hundredths_of_second" / OptionalDateTimeByte,', '    "hundredths_of_second" / construct.ExprAdapter(construct.Int8ub, decoder=lambda obj, ctx: obj if obj < 0xFE else None, encoder=lambda obj, ctx: obj),'))
S("C10", "deviation range check off by one", "R3", (CO, "decoder=lambda obj, ctx: obj if obj != -0x8000 else None,", "decoder=lambda obj, ctx: obj if -720 < obj < 720 else None,"))
S("C10", "DST flag shifts the offset", "R4", (CO, "datetime.timezone(datetime.timedelta(minutes=ctx.deviation * -1))", "datetime.timezone(datetime.timedelta(minutes=ctx.deviation * -1 + (60 if ctx.clock_status and ctx.clock_status.daylight_saving_active else 0)))"))
S("C10", "text tried before date-time in Field", "R5", (CO, "construct.Select(DateTime, OctedStringText)", "construct.Select(OctedStringText, DateTime)"))
S("C10", "tagged APDU date-time parsed without consuming the tag", "R5", (CO, "                CommonDataTypes.octet_string: DateTimeField,\n            },\n            default=DateTime,", "                CommonDataTypes.octet_string: DateTime,\n            },\n            default=DateTime,"))
S("C10", "Aidon clock element consumes the tag twice", "R5", ("aidon", "            cosem.CommonDataTypes.octet_string: cosem.DateTime,", "            cosem.CommonDataTypes.octet_string: cosem.DateTimeField,"))
S("C10", "normaliser strips the time zone", "R6", ("aidon", "                dictionary[element_name] = measure.content.datetime\n", "                dictionary[element_name] = measure.content.datetime.replace(tzinfo=None)\n"))
N("C10", "dead second If removed", (CO, "    construct.If(construct.this.clock_status_byte == 0xFF, construct.Int8ub),\n", ""))
N("C10", "offset written with unary minus", (CO, "minutes=ctx.deviation * -1", "minutes=-ctx.deviation"))
N("C10", "microseconds via keyword", (CO, "            ctx.hundredths_of_second * 10000\n            if ctx.hundredths_of_second is not None\n            else 0,\n            datetime.timezone(datetime.timedelta(minutes=ctx.deviation * -1))\n            if ctx.deviation is not None\n            else None,\n",
                                       "            microsecond=10000 * ctx.hundredths_of_second\n            if ctx.hundredths_of_second is not None\n            else 0,\n            tzinfo=datetime.timezone(datetime.timedelta(minutes=ctx.deviation * -1))\n            if ctx.deviation is not None\n            else None,\n"))

# ------------------------------------------------------------------------------------------------ C07
AI = "aidon"
S("C07", "Long unsigned", "R1", (CO, "Long = construct.Int16sb", "Long = construct.Int16ub"))
S("C07", "scaler parsed unsigned", "R1", (CO, "Integer = construct.Int8sb", "Integer = construct.Int8ub"))
S("C07", "Decimal(10) ** -> 10 **", "R2", (CO, "lambda ctx: Decimal(10) ** ctx.exponent", "lambda ctx: 10 ** ctx.exponent"))
S("C07", "float rounded to 2 digits", "R3", (AI, "                    else float(measure.content.value)\n", "                    else round(float(measure.content.value), 2)\n"))
S("C07", "C.D.E built from groups 1-3", "R4", ("obis", 'return f"{self._groups[2]}.{self._groups[3]}.{self._groups[4]}"', 'return f"{self._groups[1]}.{self._groups[2]}.{self._groups[3]}"'))
S("C07", "name lookup without membership test", "R4", (AI, "        if obis_group_cdr in obis_map.obis_name_map:\n            element_name = obis_map.obis_name_map[obis_group_cdr]\n        else:\n            element_name = obis_group_cdr\n\n        if isinstance(measure.content, str):",
                                                      "        element_name = obis_map.obis_name_map[obis_group_cdr]\n\n        if isinstance(measure.content, str):"))
S("C07", "text upper-cased", "R5", (AI, "            dictionary[element_name] = measure.content\n", "            dictionary[element_name] = measure.content.upper()\n"))
S("C07", "manufacturer misspelt", "R5", (AI, 'obis_map.FIELD_METER_MANUFACTURER: "Aidon"', 'obis_map.FIELD_METER_MANUFACTURER: "AIDON"'))
S("C07", "frame normaliser reads a different list", "R6", (AI, "return _normalize_parsed_items(frame.information.notification_body.list_items)", "return _normalize_parsed_items(frame.information.notification_body.list_items[1:])"))
S("C07", "two names for one OBIS group", "R4", ("obis_map", 'FIELD_METER_TYPE: ["96.1.7", "96.1.1"],', 'FIELD_METER_TYPE: ["96.1.7", "96.1.1", "96.1.0"],'))
N("C07", "int-or-float with swapped comparison", (AI, "                    if measure.content.unscaled_value == measure.content.value\n", "                    if measure.content.value == measure.content.unscaled_value\n"))
N("C07", "name lookup through dict.get", (AI, "        if obis_group_cdr in obis_map.obis_name_map:\n            element_name = obis_map.obis_name_map[obis_group_cdr]\n        else:\n            element_name = obis_group_cdr\n\n        if isinstance(measure.content, str):",
                                            "        element_name = obis_map.obis_name_map.get(obis_group_cdr, obis_group_cdr)\n\n        if isinstance(measure.content, str):"))

# ------------------------------------------------------------------------------------------------ C08
KA = "kaifa"
S("C08", "two names swapped in the three-phase layout", "R1|R2|R3", (KA, "        obis_map.FIELD_CURRENT_L2,\n        obis_map.FIELD_CURRENT_L3,\n        obis_map.FIELD_VOLTAGE_L1,", "        obis_map.FIELD_CURRENT_L3,\n        obis_map.FIELD_CURRENT_L2,\n        obis_map.FIELD_VOLTAGE_L1,"))
S("C08", "single-phase voltage slice [10:11] -> [11:12]", "R1", (KA, "+ item_order_list_3_three_phase[10:11]", "+ item_order_list_3_three_phase[11:12]"))
S("C08", "voltage L2 scale -1 -> -2", "R2", (KA, "    obis_map.FIELD_VOLTAGE_L2: -1,", "    obis_map.FIELD_VOLTAGE_L2: -2,"))
S("C08", "rounding to 0 digits", "R3", (KA, "                scaled_value = round(measure.value * (10**scale), abs(scale))\n                dictionary[element_name] = scaled_value\n            else:\n                dictionary[element_name] = measure.value\n\n    return dictionary\n\n\ndef _normalize_parsed_obis",
                                          "                scaled_value = round(measure.value * (10**scale), 0)\n                dictionary[element_name] = scaled_value\n            else:\n                dictionary[element_name] = measure.value\n\n    return dictionary\n\n\ndef _normalize_parsed_obis"))
S("C08", "multiplication without rounding", "R3", (KA, "                scaled_value = round(measure.value * (10**scale), abs(scale))\n                dictionary[element_name] = scaled_value\n            else:\n                dictionary[element_name] = measure.value\n\n    return dictionary\n\n\ndef _normalize_parsed_obis",
                                                   "                scaled_value = measure.value * (10**scale)\n                dictionary[element_name] = scaled_value\n            else:\n                dictionary[element_name] = measure.value\n\n    return dictionary\n\n\ndef _normalize_parsed_obis"))
S("C08", "layout selected by >=", "R1", (KA, "(x for x in _field_order_lists if len(x) == len(list_items)), None", "(x for x in _field_order_lists if len(x) >= len(list_items)), None"))
S("C08", "double-long-unsigned parsed signed", "R5", (CO, "DoubleLongUnsigned = construct.Int32ub", "DoubleLongUnsigned = construct.Int32sb"))
S("C08", "dispatch swapped", "R1|R5", (KA, "    list_type = frame.information.notification_body.type\n    if list_type == KaifaBodyType.VALUE_ELEMENTS:\n        return _normalize_parsed_value_elements(frame)", "    list_type = frame.information.notification_body.type\n    if list_type == KaifaBodyType.VALUE_ELEMENTS:\n        return _normalize_parsed_obis_elements(frame)"))
S("C08", "OBIS layout scales voltages like currents", "R2", (KA, "            scale = _FIELD_SCALING.get(element_name, None)\n            if scale and isinstance(measure.value, int):\n                scaled_value = round(measure.value * (10**scale), abs(scale))\n                dictionary[element_name] = scaled_value\n            else:\n                dictionary[element_name] = measure.value\n\n    return dictionary\n\n\ndef normalize_parsed_frame",
    "            scale = -3 if element_name in _FIELD_SCALING else None\n            if scale and isinstance(measure.value, int):\n                scaled_value = round(measure.value * (10**scale), abs(scale))\n                dictionary[element_name] = scaled_value\n            else:\n                dictionary[element_name] = measure.value\n\n    return dictionary\n\n\ndef normalize_parsed_frame"))
N("C08", "scaling by division", (KA, "                scaled_value = round(measure.value * (10**scale), abs(scale))\n                dictionary[element_name] = scaled_value\n            else:\n                dictionary[element_name] = measure.value\n\n    return dictionary\n\n\ndef _normalize_parsed_obis",
                                    "                scaled_value = measure.value / (10 ** (-scale))\n                dictionary[element_name] = scaled_value\n            else:\n                dictionary[element_name] = measure.value\n\n    return dictionary\n\n\ndef _normalize_parsed_obis"))

# ------------------------------------------------------------------------------------------------ C09
KM = "kamstrup"
S("C09", "pinned defect: meter-type literal ...256", "R1", (KM, 'if x.obis == "1.1.96.1.1.255"', 'if x.obis == "1.1.96.1.1.256"'))
S("C09", "pinned defect: startswith on the element container", "R2", (KM, "        and isinstance(meter_type.value, str)\n        and meter_type.value.startswith(\"685\")", "        and meter_type.startswith(\"685\")"))
S("C09", "pinned defect: multiplication by 10**-n", "R4", (KM, "                    dictionary[element_name] = (\n                        measure.value * (10**scale)\n                        if scale > 0\n                        else measure.value / (10**-scale)\n                    )", "                    dictionary[element_name] = measure.value * (10**scale)"))
S("C09", "CT table currents -3 -> -2", "R2|R3", (KM, '    "1.1.51.7.0.255": -3,  # IL2', '    "1.1.51.7.0.255": -2,  # IL2'))
S("C09", "energy key typo", "R3", (KM, '    "1.1.3.8.0.255": 1,  # R12\n    "1.1.4.8.0.255": 1,  # R34\n}\n\n_field_scaling_ct_meter', '    "1.1.3.8.1.255": 1,  # R12\n    "1.1.4.8.0.255": 1,  # R34\n}\n\n_field_scaling_ct_meter'))
S("C09", 'startswith("685") -> ("686")', "R2", (KM, 'meter_type.value.startswith("685")', 'meter_type.value.startswith("686")'))
S("C09", "table selection inverted", "R2|R3", (KM, "field_scaling = _field_scaling_ct_meter if is_ct_meter else _field_scaling_standard", "field_scaling = _field_scaling_standard if is_ct_meter else _field_scaling_ct_meter"))
S("C09", "meter type looked up by another code", "R2", (KM, 'if x.obis == "1.1.96.1.1.255"', 'if x.obis == "1.1.96.1.0.255"'))
S("C09", "null padding fixed at four octets", "R5", (KM, '    "_NullData" / cosem.NullData,  # trim null-data between elements', '    "_NullData" / construct.Optional(construct.Const(b"\\x00\\x00\\x00\\x00")),'))
S("C09", "APDU clock only when the list has none", "R5", (KM, "        dictionary[obis_map.FIELD_METER_DATETIME] = frame.information.DateTime.datetime\n", "        dictionary.setdefault(obis_map.FIELD_METER_DATETIME, frame.information.DateTime.datetime)\n"))
S("C09", "list version stored under meter_id", "R5", (KM, "            element_name = obis_map.FIELD_OBIS_LIST_VER_ID\n", "            element_name = obis_map.FIELD_METER_ID\n"))
S("C09", "pinned defect: unknown OBIS raises KeyError", "R5", (KM, "            if obis_group_cdr in obis_map.obis_name_map:\n                element_name = obis_map.obis_name_map[obis_group_cdr]\n            else:\n                element_name = obis_group_cdr\n", "            element_name = obis_map.obis_name_map[obis_group_cdr]\n"))
N("C09", "scaling by rounding idiom for negatives", (KM, "                        else measure.value / (10**-scale)\n", "                        else round(measure.value * (10**scale), -scale)\n"))
N("C09", "CT test with explicit parentheses order", (KM, "    field_scaling = _field_scaling_ct_meter if is_ct_meter else _field_scaling_standard", "    field_scaling = _field_scaling_standard if not is_ct_meter else _field_scaling_ct_meter"))
S("C09", "CT registers kept in a module-level generator", "R1", (KM, "    field_scaling = _field_scaling_ct_meter if is_ct_meter else _field_scaling_standard", "    field_scaling = _field_scaling_ct_meter if is_ct_meter and all(k in _CT_KEYS for k in _field_scaling_ct_meter) else _field_scaling_standard"), (KM, "def _normalize_parsed_items(", "_CT_KEYS = (k for k in _field_scaling_ct_meter)\n\n\ndef _normalize_parsed_items("))
N("C09", "CT registers kept in a module-level tuple", (KM, "    field_scaling = _field_scaling_ct_meter if is_ct_meter else _field_scaling_standard", "    field_scaling = _field_scaling_ct_meter if is_ct_meter and all(k in _CT_KEYS for k in _field_scaling_ct_meter) else _field_scaling_standard"), (KM, "def _normalize_parsed_items(", "_CT_KEYS = tuple(k for k in _field_scaling_ct_meter)\n\n\ndef _normalize_parsed_items("))

# ------------------------------------------------------------------------------------------------ C15 (the repaired defects re-seeded, plus others)
S("C15", "pinned defect: unchecked find(')')", "R2", (D, "                if value_end_pos == -1:\n                    raise ValueError(\"Data set value is missing end parenthesis.\")\n", ""))
S("C15", "pinned defect: Aidon value switch without default", "R1", (AI, "                default=construct.Error,\n            ),\n            \"scaler_unit\"", "            ),\n            \"scaler_unit\""))
S("C15", "pinned defect: DateTime computed with unspecified time", "R1", (CO, "    construct.Check(\n        lambda ctx: ctx.hour is not None\n        and ctx.minute is not None\n        and ctx.second is not None\n    ),  # time of day must be specified to compute datetime\n", ""))
S("C15", "pinned defect: Kaifa layout default []", "R1", (KA, "(x for x in _field_order_lists if len(x) == len(list_items)), None\n    )\n    if current_list_names is None:\n        raise ValueError(f\"Unexpected number of list items: {len(list_items)}\")\n", "(x for x in _field_order_lists if len(x) == len(list_items)), []\n    )\n"))
S("C15", "pinned defect: Kaifa clock position without hasattr", "R1", (KA, "            if not hasattr(measure.value, \"datetime\"):\n                raise ValueError(\"Expected date-time list item.\")\n            dictionary[element_name] = measure.value.datetime\n        else:\n            scale = _FIELD_SCALING.get(element_name, None)\n            if scale and isinstance(measure.value, int):\n                scaled_value = round(measure.value * (10**scale), abs(scale))\n                dictionary[element_name] = scaled_value\n            else:\n                dictionary[element_name] = measure.value\n\n    return dictionary\n\n\ndef _normalize_parsed_obis",
    "            dictionary[element_name] = measure.value.datetime\n        else:\n            scale = _FIELD_SCALING.get(element_name, None)\n            if scale and isinstance(measure.value, int):\n                scaled_value = round(measure.value * (10**scale), abs(scale))\n                dictionary[element_name] = scaled_value\n            else:\n                dictionary[element_name] = measure.value\n\n    return dictionary\n\n\ndef _normalize_parsed_obis"))
S("C15", "pinned defect: Kaifa scales non-integers", "R1", (KA, "            if scale and isinstance(measure.value, int):\n                scaled_value = round(measure.value * (10**scale), abs(scale))\n                dictionary[element_name] = scaled_value\n            else:\n                dictionary[element_name] = measure.value\n\n    return dictionary\n\n\ndef _normalize_parsed_obis",
    "            if scale:\n                scaled_value = round(measure.value * (10**scale), abs(scale))\n                dictionary[element_name] = scaled_value\n            else:\n                dictionary[element_name] = measure.value\n\n    return dictionary\n\n\ndef _normalize_parsed_obis"))
S("C15", "pinned defect: Kaifa null APDU date dereferenced", "R1", (KA, "        if hasattr(parsed.information.DateTime, \"datetime\"):\n            dictionary[\n                obis_map.FIELD_METER_DATETIME\n            ] = parsed.information.DateTime.datetime\n", "        dictionary[obis_map.FIELD_METER_DATETIME] = parsed.information.DateTime.datetime\n"))
S("C15", "pinned defect: Kamstrup unknown OBIS KeyError", "R1", (KM, "            if obis_group_cdr in obis_map.obis_name_map:\n                element_name = obis_map.obis_name_map[obis_group_cdr]\n            else:\n                element_name = obis_group_cdr\n", "            element_name = obis_map.obis_name_map[obis_group_cdr]\n"))
S("C15", "pinned defect: Kamstrup null APDU date dereferenced", "R1", (KM, "    if hasattr(frame.information.DateTime, \"datetime\"):\n        dictionary[obis_map.FIELD_METER_DATETIME] = frame.information.DateTime.datetime\n", "    dictionary[obis_map.FIELD_METER_DATETIME] = frame.information.DateTime.datetime\n"))
S("C15", "pinned defect: Kamstrup clock element without hasattr", "R1", (KM, "            if not hasattr(measure.value, \"datetime\"):\n                raise ValueError(\"Expected date-time list item.\")\n            dictionary[element_name] = measure.value.datetime\n        else:\n            if isinstance", "            dictionary[element_name] = measure.value.datetime\n        else:\n            if isinstance"))
S("C15", "pinned defect: OverflowError from int(float())", "R1", (D, "                try:\n                    value = int(float(item.values[0].value) * 1000)\n                except OverflowError as ex:\n                    raise ValueError(\"Value is out of range.\") from ex\n", "                value = int(float(item.values[0].value) * 1000)\n"))
S("C15", "handler tuple loses ValueError", "R1", (AD, "                decoded = decoder(payload)\n                self.__previous_success = index\n                return decoded\n            except (construct.ConstructError, ValueError):", "                decoded = decoder(payload)\n                self.__previous_success = index\n                return decoded\n            except construct.ConstructError:"))
S("C15", "Aidon name lookup without membership test", "R1", (AI, "        if obis_group_cdr in obis_map.obis_name_map:\n            element_name = obis_map.obis_name_map[obis_group_cdr]\n        else:\n            element_name = obis_group_cdr\n\n        if isinstance(measure.content, str):", "        element_name = obis_map.obis_name_map[obis_group_cdr]\n\n        if isinstance(measure.content, str):"))
S("C15", "GreedyRange(Pass)", "R3", (CO, "        construct.GreedyRange(\n            construct.Const(CommonDataTypes.null_data, CommonDataTypes)\n        ),", "        construct.GreedyRange(construct.Pass),"))
S("C15", "explicit raise of a foreign class", "R1", (KA, '    raise ValueError(f"Unexpected list type {list_type}")\n\n\ndef normalize_parsed_notification', '    raise KeyError(f"Unexpected list type {list_type}")\n\n\ndef normalize_parsed_notification'))
S("C15", "value with several separators skipped without advancing", "R2", (D, "                values.append(DataSetValue.parse(line[from_pos + 1 : value_end_pos]))\n", "                try:\n                    values.append(DataSetValue.parse(line[from_pos + 1 : value_end_pos]))\n                except ValueError:\n                    continue\n"))
N("C15", "handler written as two except clauses", (AD, "                decoded = decoder(payload)\n                self.__previous_success = index\n                return decoded\n            except (construct.ConstructError, ValueError):\n                pass\n\n        return None\n\n    def decode_message(", "                decoded = decoder(payload)\n                self.__previous_success = index\n                return decoded\n            except construct.ConstructError:\n                pass\n            except ValueError:\n                pass\n\n        return None\n\n    def decode_message("))
N("C15", "handler broadened to Exception", (AD, "                return decoded\n            except (construct.ConstructError, ValueError):\n                pass\n\n        return None\n\n    def decode_message(", "                return decoded\n            except Exception:\n                pass\n\n        return None\n\n    def decode_message("))

# ------------------------------------------------------------------------------------------------ C11
S("C11", "unit set loses kvarh", "R1", (D, 'elif unit in ("kw", "kwh", "kvar", "kvarh"):', 'elif unit in ("kw", "kwh", "kvar"):'))
S("C11", "* 1000 -> * 100", "R1", (D, "value = int(float(item.values[0].value) * 1000)", "value = int(float(item.values[0].value) * 100)"))
S("C11", "clock slices [2:4] and [4:6] swapped", "R2", (D, "        int(value[2:4]),\n        int(value[4:6]),\n", "        int(value[4:6]),\n        int(value[2:4]),\n"))
S("C11", "century 1900", "R2", (D, "        2000 + int(value[0:2]),", "        1900 + int(value[0:2]),"))
S("C11", "manufacturer_id reads group ID", "R4", (D, 'return cast(str, self._match.group("MANID"))', 'return cast(str, self._match.group("ID"))'))
S("C11", "units compared case-sensitively", "R1", (D, "unit = item.values[0].unit.lower() if item.values[0].unit else None", "unit = item.values[0].unit if item.values[0].unit else None"))
S("C11", "float units rounded", "R1", (D, "                value = float(item.values[0].value)\n", "                value = round(float(item.values[0].value), 1)\n"))
S("C11", "multi-valued data sets decoded too", "R3", (D, "        if len(item.values) == 1:\n            obis = Obis.from_string(item.address)", "        if len(item.values) >= 1:\n            obis = Obis.from_string(item.address)"))
S("C11", "split on CRLF only", "R6", (D, "lines = [line for line in data.splitlines() if len(line.strip())]", 'lines = [line for line in data.split("\\r\\n") if len(line.strip())]'))
S("C11", "numeric guard clears the unit", "R1", (D, "            if unit in (\"v\", \"a\", \"var\", \"varh\"):\n                value = float(item.values[0].value)", "            if unit is not None and \".\" not in item.values[0].value:\n                unit = None\n            if unit in (\"v\", \"a\", \"var\", \"varh\"):\n                value = float(item.values[0].value)"))
S("C11", "content decoder parses a different payload", "R5", (D, "    return parse_p1_readout_content(readout.payload)", "    return parse_p1_readout_content(readout.as_bytes)"))
S("C11", "value and unit swapped", "R6", (D, "            return DataSetValue(pair[0], pair[1])", "            return DataSetValue(pair[1], pair[0])"))
N("C11", "unit folded with casefold-like temp", (D, "unit = item.values[0].unit.lower() if item.values[0].unit else None", "raw_unit = item.values[0].unit\n            unit = raw_unit.lower() if raw_unit else None"))

# ------------------------------------------------------------------------------------------------ C14
S("C14", "pinned defect: reader decodes candidate ident lines unchecked", "R1", (D, "                if line[0] == START_CHARACTER_HEX and line.isascii():", "                if line[0] == START_CHARACTER_HEX:"))
S("C14", "pinned defect: is_valid lets the checksum parse error escape", "R1", (D, "        try:\n            expected_checksum = self.expected_checksum\n        except ValueError:\n            _LOGGER.debug(\"Invalid end line or checksum.\")\n            return False\n", "        expected_checksum = self.expected_checksum\n"))
S("C14", "pinned defect: failing property re-evaluated inside the handler", "R1", (D, '            _LOGGER.debug("Invalid ident line.")', '            _LOGGER.debug("Invalid ident line: %s", self.identification_line)'))
S("C14", "handler narrowed to UnicodeDecodeError around int(..., 16)", "R1", (D, "            expected_checksum = self.expected_checksum\n        except ValueError:", "            expected_checksum = self.expected_checksum\n        except UnicodeDecodeError:"))
S("C14", "end line logged from inside the handler", "R1", (D, '            _LOGGER.debug("Invalid end line or checksum.")', '            _LOGGER.debug("Invalid end line or checksum: %s", self.end_line)'))
S("C14", "new decode in the collect branch", "R1", (D, "            else:\n                self._raw_data.extend(line)\n                if line[0] == END_CHARACTER_HEX:", "            else:\n                self._raw_data.extend(line)\n                _LOGGER.debug(\"line %s\", line.decode(\"ascii\"))\n                if line[0] == END_CHARACTER_HEX:"))
S("C14", "raise on over-long frame", "R1", (H, "            self._goto_hunt_mode()\n            frame_complete = False\n\n        return frame_complete", "            self._goto_hunt_mode()\n            raise ValueError(\"frame too long\")\n\n        return frame_complete"))
S("C14", "too-short test compares with an Optional position", "R1", (H, "        elif self._frame.header.header_check_sequence is None:", "        elif len(self._frame) < self._frame.header.information_position:"))
U("C14", "format field read without the length guard", (H, "        if len(self._frame) >= 2:\n            return self._frame.as_bytes[0] << 8 | self._frame.as_bytes[1]\n        return None", "        return self._frame.as_bytes[0] << 8 | self._frame.as_bytes[1]"))
S("C14", "P1 sixth character inspected", "R1", (D, "                if line[0] == START_CHARACTER_HEX and line.isascii():", "                if line[0] == START_CHARACTER_HEX and line[5] != 0 and line.isascii():"))
U("C14", "assert no longer dominated (the failing state is unreachable only through an invariant of the trims)", (H, "        elif self._frame is not None:  # not in hunt mode\n            self._append_to_frame(current)", "        else:\n            self._append_to_frame(current)"))
N("C14", "decode with errors=replace instead of the isascii guard", (D, "                if line[0] == START_CHARACTER_HEX and line.isascii():\n                    line_str = line.decode(\"ascii\")", "                if line[0] == START_CHARACTER_HEX:\n                    line_str = line.decode(\"ascii\", errors=\"replace\")"))
N("C14", "length guard written as > 1", (H, "        if len(self._frame) >= 2:\n            return self._frame.as_bytes[0] << 8 | self._frame.as_bytes[1]", "        if len(self._frame) > 1:\n            return self._frame.as_bytes[0] << 8 | self._frame.as_bytes[1]"))
