"""Thorough tier: validate the checker itself on in-memory variants of the current tree (DESIGN.md §5).

seeded  : a source substitution that breaks the property -> the rule set must report a VIOLATION
          (optionally: a finding whose rule id is the expected one)
neutral : a behaviour-preserving refactor -> the rule set must stay silent (no violation, not undecided)
A variant whose anchor text is not present in the current tree is skipped (the tree was edited), never failed.
Nothing is written under /repo or /verif; variants are dictionaries of source text.
"""
from __future__ import annotations

import importlib
import os
from concurrent.futures import ProcessPoolExecutor

from sa.report import Report, Undecided


def _apply(src, subs):
    overlay = {}
    for mod, old, new in subs:
        text = overlay.get(mod, src.text.get(mod))
        if text is None or text.count(old) != 1:
            return None
        overlay[mod] = text.replace(old, new)
    return src.variant(overlay)


def _run_variant(args):
    pid, repo, subs = args
    from sa.source import Sources
    src = Sources(repo)
    v = _apply(src, subs)
    if v is None:
        return ("skipped", [], [])
    mod = importlib.import_module(f"sa.props.{pid.lower()}")
    rep = Report(pid, "quick", 0)
    try:
        mod.check(v, rep)
    except Undecided as e:
        rep.undecide(str(e))
    except SyntaxError as e:
        return ("skipped", [], [f"variant does not parse: {e}"])
    except Exception as e:  # noqa
        rep.undecide(f"ANALYSIS-ERROR {type(e).__name__}: {e}")
    code = rep.finish(write=False, quiet=True)
    return ({0: "holds", 1: "violation", 2: "undecided"}[code], [f"{f.rule}:{f.at}:{f.construct}" for f in rep.findings], rep.undecided)


def run_selfval(pid, src, rep):
    from sa.selfval.catalogue import CATALOGUE
    if rep.findings or rep.undecided:
        rep.notes.append("self-validation skipped: the main analysis did not pass")
        return
    entries = CATALOGUE.get(pid, [])
    jobs = [(pid, src.repo, e["subs"]) for e in entries]
    results = []
    if jobs:
        workers = min(16, len(jobs), os.cpu_count() or 1)
        with ProcessPoolExecutor(max_workers=workers) as pool:
            results = list(pool.map(_run_variant, jobs))
    summary = {"seeded": 0, "caught": 0, "neutral": 0, "silent": 0, "skipped": 0}
    details = []
    for e, (status, finds, und) in zip(entries, results):
        kind = e["kind"]
        d = {"name": e["name"], "kind": kind, "status": status, "findings": finds[:4]}
        if status == "skipped":
            summary["skipped"] += 1
        elif kind == "unproven":
            summary["seeded"] += 1
            if status in ("undecided", "violation"):
                summary["caught"] += 1
            else:
                d["problem"] = f"variant that needs an unproven invariant passed silently ({status})"
                rep.undecide(f"self-validation: variant '{e['name']}' (unproven index) passed silently")
        elif kind == "seeded":
            summary["seeded"] += 1
            want = e.get("rule")
            hit = status == "violation" and (want is None or any(f.startswith(w_ + ":") for f in finds for w_ in want.split("|")))
            if hit:
                summary["caught"] += 1
            else:
                d["problem"] = f"seeded violation not reported (status {status}, findings {finds[:3]}, undecided {und[:2]})"
                rep.undecide(f"self-validation: seeded variant '{e['name']}' was not reported by rule {want} (status {status}; {finds[:2]} {und[:1]})")
        else:
            summary["neutral"] += 1
            if status == "holds":
                summary["silent"] += 1
            else:
                d["problem"] = f"neutral refactor not silent ({status}: {finds[:3]} {und[:2]})"
                rep.undecide(f"self-validation: neutral variant '{e['name']}' was not silent ({status}: {finds[:2]} {und[:1]})")
        details.append(d)
    rep.selfval = {"summary": summary, "details": details}
    rep.count("selfval_variants", len(entries))
