"""E-CONS: construct grammar IR from the declaration expressions (the library itself is never imported) + analyses."""
from __future__ import annotations
import ast
from dataclasses import dataclass, field


@dataclass(eq=False)
class N:
    kind: str
    a: dict = field(default_factory=dict)
    name: str | None = None
    src: str = ""
    line: int = 0

    def renamed(self, name):
        n = N(self.kind, self.a, name, self.src, self.line)
        n.orig = getattr(self, "orig", self)
        return n

    @property
    def ident(self):
        return getattr(self, "orig", self)


@dataclass(frozen=True)
class Expr:
    src: str
    node: ast.AST = field(compare=False, hash=False)
    mod: str = ""


@dataclass(frozen=True)
class EnumVal:
    enum: str
    member: str
    value: int


PRIMS = {"Int8ub": (1, False), "Int8sb": (1, True), "Int16ub": (2, False), "Int16sb": (2, True), "Int32ub": (4, False),
         "Int32sb": (4, True), "Byte": (1, False), "Int24ub": (3, False), "Int64ub": (8, False), "Int64sb": (8, True),
         "Int8ul": (1, False), "Int8sl": (1, True), "Int16ul": (2, False), "Int16sl": (2, True), "Int32ul": (4, False), "Int32sl": (4, True),
         "Int16un": (2, False), "Int16sn": (2, True), "Int32un": (4, False), "Int32sn": (4, True)}


class Module:
    def __init__(self, name, world):
        self.name, self.world = name, world
        self.tree = world.src.tree(name)
        self.env, self.funcs, self.imports = {}, {}, {}
        for s in self.tree.body:
            if isinstance(s, ast.ImportFrom) and s.module == "han":
                for a in s.names:
                    self.imports[a.asname or a.name] = a.name
            if isinstance(s, ast.FunctionDef):
                self.funcs[s.name] = s
        for s in self.tree.body:
            tgt = val = None
            if isinstance(s, ast.Assign) and len(s.targets) == 1 and isinstance(s.targets[0], ast.Name):
                tgt, val = s.targets[0].id, s.value
            elif isinstance(s, ast.AnnAssign) and isinstance(s.target, ast.Name) and s.value is not None:
                tgt, val = s.target.id, s.value
            if tgt is None:
                continue
            try:
                v = self.ev(val, {})
            except NotImplementedError:
                continue
            if isinstance(v, N) and not v.src:
                v.src = f"{name}.{tgt}"
            self.env[tgt] = v

    def is_c(self, n):
        return isinstance(n, ast.Attribute) and isinstance(n.value, ast.Name) and n.value.id == "construct"

    def plain(self, n, loc):
        """an ordinary (non-construct) value -- layout tables, records, numbers -- by the general interpreter (E-ABS)"""
        from sa.abseval import AbsEval, AbsRaise, SymbolicBranch
        from sa.consteval import NotConstant, Opaque
        if self.world.ae is None:
            from sa.model import Model
            self.world.ae = AbsEval(Model(self.world.src))
        try:
            v = self.world.ae.eval(n, dict(loc), self.name)
        except (NotConstant, AbsRaise, SymbolicBranch, RecursionError) as e:
            raise NotImplementedError(f"{ast.unparse(n)[:40]}: {e}")
        if isinstance(v, Opaque):
            raise NotImplementedError(f"{ast.unparse(n)[:40]} is opaque")
        return v

    def args_of(self, call, loc):
        out = []
        for a in call.args:
            if isinstance(a, ast.Starred):
                v = self.ev(a.value, loc)
                if not isinstance(v, (list, tuple)):
                    raise NotImplementedError("star argument is not a sequence")
                out += list(v)
            else:
                out.append(self.ev(a, loc))
        return out

    def ev(self, n, loc):
        if isinstance(n, ast.Constant):
            return n.value
        if isinstance(n, ast.Name):
            if n.id in loc:
                return loc[n.id]
            if n.id in self.env:
                return self.env[n.id]
            if n.id in self.funcs:
                # a named function used where construct takes a callable (decoder=, Computed(), Check()): an expression like a lambda
                return Expr(n.id, self.funcs[n.id], self.name)
            cdef_ = next((s_ for s_ in self.tree.body if isinstance(s_, ast.ClassDef) and s_.name == n.id), None)
            if cdef_ is not None:
                from sa.consteval import Opaque
                return Opaque(f"class {self.name}.{n.id}", cdef_, self.name)
            return self.plain(n, loc)
        if isinstance(n, ast.Attribute):
            if self.is_c(n):
                if n.attr in ("VarInt", "ZigZag"):
                    # LEB128-style variable-length integer: 1..n octets (size 0 = variable)
                    return N("Int", {"size": 0, "signed": n.attr == "ZigZag", "endian": "varint", "type": n.attr}, line=n.lineno)
                if n.attr in PRIMS:
                    endian = "big" if n.attr.endswith("b") or n.attr == "Byte" or PRIMS[n.attr][0] == 1 else ("little" if n.attr.endswith("l") else "native")
                    return N("Int", {"size": PRIMS[n.attr][0], "signed": PRIMS[n.attr][1], "endian": endian, "type": n.attr}, line=n.lineno)
                if n.attr in ("Pass", "Error"):
                    return N(n.attr, line=n.lineno)
                if n.attr == "this":
                    return Expr("this", n, self.name)
                raise NotImplementedError(f"construct.{n.attr}")
            if isinstance(n.value, ast.Name) and n.value.id in self.imports and n.value.id not in loc:
                m = self.world.module(self.imports[n.value.id])
                if n.attr in m.env:
                    return m.env[n.attr]
                raise NotImplementedError(f"{n.value.id}.{n.attr}")
            base = self.ev(n.value, loc)
            if isinstance(base, Expr):
                return Expr(ast.unparse(n), n, self.name)
            if type(base).__name__ == "AObj" and n.attr in base.attrs:
                return base.attrs[n.attr]
            if isinstance(base, N) and base.kind == "Enum":
                return EnumVal(base.src or "?", n.attr, base.a["mapping"][n.attr])
            raise NotImplementedError(f"attr {ast.unparse(n)}")
        if isinstance(n, ast.BinOp) and isinstance(n.op, (ast.Add, ast.Sub, ast.Mult, ast.FloorDiv, ast.LShift, ast.RShift, ast.BitOr, ast.BitAnd, ast.BitXor, ast.Pow, ast.Mod)):
            # arithmetic on constants (named sizes, masks): its value
            try:
                l_, r_ = self.ev(n.left, loc), self.ev(n.right, loc)
            except NotImplementedError:
                l_ = r_ = None
            if isinstance(l_, int) and isinstance(r_, int) and not isinstance(l_, bool) and not isinstance(r_, bool):
                import operator as _op
                try:
                    return {ast.Add: _op.add, ast.Sub: _op.sub, ast.Mult: _op.mul, ast.FloorDiv: _op.floordiv, ast.LShift: _op.lshift, ast.RShift: _op.rshift, ast.BitOr: _op.or_,
                            ast.BitAnd: _op.and_, ast.BitXor: _op.xor, ast.Pow: _op.pow, ast.Mod: _op.mod}[type(n.op)](l_, r_)
                except Exception:  # noqa
                    pass
        if isinstance(n, ast.BinOp) and isinstance(n.op, ast.Div):
            l, r = self.ev(n.left, loc), self.ev(n.right, loc)
            if isinstance(l, str) and isinstance(r, N):
                return r.renamed(l)
            raise NotImplementedError("div")
        if isinstance(n, ast.BinOp) and isinstance(n.op, ast.Mult):
            l = self.ev(n.left, loc)
            if isinstance(l, N):
                return l
            if isinstance(l, Expr):
                return Expr(ast.unparse(n), n, self.name)
            raise NotImplementedError("mult")
        if isinstance(n, ast.UnaryOp) and isinstance(n.op, (ast.USub, ast.UAdd)):
            v = self.ev(n.operand, loc)
            if isinstance(v, (int, float)) and not isinstance(v, bool):
                return -v if isinstance(n.op, ast.USub) else v
            return Expr(ast.unparse(n), n, self.name)
        if isinstance(n, ast.Lambda) and loc:
            # a lambda written inside a grammar-building helper: the helper's arguments it refers to are the (constant) values of this call
            import copy
            own = {a.arg for a in n.args.args}
            consts = {k_: v_ for k_, v_ in loc.items() if isinstance(v_, (int, str, float, bool, type(None))) and k_ not in own}
            if any(isinstance(x, ast.Name) and x.id in consts for x in ast.walk(n.body)):
                class _Bind(ast.NodeTransformer):
                    def visit_Name(self, node):
                        if isinstance(node.ctx, ast.Load) and node.id in consts:
                            return ast.copy_location(ast.Constant(consts[node.id]), node)
                        return node
                n2 = _Bind().visit(copy.deepcopy(n))
                ast.fix_missing_locations(n2)
                return Expr(ast.unparse(n2), n2, self.name)
        if isinstance(n, (ast.Compare, ast.BinOp, ast.Lambda, ast.JoinedStr, ast.UnaryOp, ast.BoolOp)):
            return Expr(ast.unparse(n), n, self.name)
        if isinstance(n, ast.Subscript):
            b = self.ev(n.value, loc)
            if isinstance(b, N):
                return N("Array", {"count": self.ev(n.slice, loc), "sub": b}, line=n.lineno)
            raise NotImplementedError("subscript")
        if isinstance(n, ast.Dict):
            return {self.ev(k, loc): self.ev(v, loc) for k, v in zip(n.keys, n.values)}
        if isinstance(n, (ast.Tuple, ast.List)):
            return [self.ev(x, loc) for x in n.elts]
        if isinstance(n, (ast.DictComp, ast.ListComp, ast.GeneratorExp)):
            out = []

            def bind(t, v, l):
                if isinstance(t, ast.Name):
                    l[t.id] = v
                elif isinstance(t, (ast.Tuple, ast.List)):
                    for tt, vv in zip(t.elts, v):
                        bind(tt, vv, l)
                else:
                    raise NotImplementedError("comprehension target")

            def rec(i, l):
                if i == len(n.generators):
                    if isinstance(n, ast.DictComp):
                        out.append((self.ev(n.key, l), self.ev(n.value, l)))
                    else:
                        out.append(self.ev(n.elt, l))
                    return
                g = n.generators[i]
                it = self.ev(g.iter, l)
                if isinstance(it, dict):
                    it = list(it)
                for x in it:
                    l2 = dict(l)
                    bind(g.target, x, l2)
                    if g.ifs:
                        raise NotImplementedError("comprehension condition")
                    rec(i + 1, l2)
            rec(0, dict(loc))
            return dict(out) if isinstance(n, ast.DictComp) else out
        if isinstance(n, ast.Call) and isinstance(n.func, ast.Attribute) and n.func.attr in ("items", "keys", "values") and not n.args:
            base = self.ev(n.func.value, loc)
            if isinstance(base, dict):
                return list(getattr(base, n.func.attr)())
        if isinstance(n, ast.Call):
            return self.call(n, loc)
        raise NotImplementedError(type(n).__name__)

    def call(self, n, loc):
        f = n.func
        if isinstance(f, ast.Name) and f.id == "map" and len(n.args) == 2 and not n.keywords and "map" not in loc:
            seq = self.ev(n.args[1], loc)
            if isinstance(seq, dict):
                seq = list(seq)
            if not isinstance(seq, (list, tuple)):
                raise NotImplementedError("map over a non-sequence")
            g = n.args[0]
            if isinstance(g, ast.Name) and g.id in self.funcs:
                return [self.inline_values(self, self.funcs[g.id], [x]) for x in seq]
            if isinstance(g, ast.Lambda):
                return [self.ev(g.body, {**loc, **dict(zip([a.arg for a in g.args.args], [x]))}) for x in seq]
            raise NotImplementedError("map with an unresolved function")
        if self.is_c(f):
            k = f.attr
            args = self.args_of(n, loc)
            kw = {a.arg: self.ev(a.value, loc) for a in n.keywords}
            mk = lambda kind, **a: N(kind, a, line=n.lineno)
            if k in ("Struct", "BitStruct", "Select"):
                return mk(k, subs=args)
            if k == "FocusedSeq":
                return mk(k, focus=args[0], subs=args[1:])
            if k == "Enum":
                mapping = dict(kw)
                for extra in args[1:]:
                    # construct.Enum(subcon, SomeIntEnum): the members of the enum class are merged into the mapping
                    cls_node = getattr(extra, "node", None)
                    if isinstance(cls_node, ast.ClassDef):
                        for s_ in cls_node.body:
                            if isinstance(s_, ast.Assign) and len(s_.targets) == 1 and isinstance(s_.targets[0], ast.Name) and isinstance(s_.value, ast.Constant) and isinstance(s_.value.value, int):
                                mapping.setdefault(s_.targets[0].id, s_.value.value)
                    elif isinstance(extra, dict):
                        mapping.update(extra)
                    else:
                        raise NotImplementedError("construct.Enum with an unresolved merge argument")
                return mk(k, sub=args[0], mapping=mapping)
            if k == "Const":
                return mk(k, value=args[0], sub=args[1] if len(args) > 1 else None)
            if k == "ExprAdapter":
                return mk(k, sub=args[0], decoder=kw.get("decoder", args[1] if len(args) > 1 else None))
            if k in ("Peek", "GreedyRange"):
                return mk(k, sub=args[0])
            if k == "If":
                return mk(k, cond=args[0], sub=args[1])
            if k == "IfThenElse":
                return mk(k, cond=args[0], then=args[1], els=args[2])
            if k == "Switch":
                return mk(k, key=args[0], cases=args[1], default=kw.get("default", N("Pass")), has_default="default" in kw)
            if k == "Array":
                return mk(k, count=args[0], sub=args[1])
            if k in ("Computed", "Check"):
                return mk(k, expr=args[0])
            if k == "BitsInteger":
                return mk(k, bits=args[0])
            if k == "BytesInteger":
                return mk("Int", size=args[0], signed=bool(kw.get("signed", args[1] if len(args) > 1 else False)), endian="little" if kw.get("swapped", False) else "big", type="BytesInteger")
            if k == "Optional":
                return mk("Select", subs=[args[0], N("Pass")])
            if k == "Padding":
                return mk(k, size=args[0])
            if k in ("PascalString", "PaddedString"):
                return mk(k, len=args[0], enc=args[1])
            if k == "len_":
                return Expr(ast.unparse(n), n, self.name)
            raise NotImplementedError(f"construct.{k}")
        if isinstance(f, ast.Name) and f.id in self.funcs:
            return self.inline(self, self.funcs[f.id], n, loc)
        if isinstance(f, ast.Name) and f.id not in loc:
            # an Adapter subclass of the module: subcon wrapped by its _decode method, with the instance fields set by __init__ substituted
            cdef = next((s_ for s_ in self.tree.body if isinstance(s_, ast.ClassDef) and s_.name == f.id), None)
            if cdef is not None and any(ast.unparse(b_).endswith("Adapter") for b_ in cdef.bases):
                args = self.args_of(n, loc)
                kwv = {a.arg: self.ev(a.value, loc) for a in n.keywords if a.arg}
                init = next((s_ for s_ in cdef.body if isinstance(s_, ast.FunctionDef) and s_.name == "__init__"), None)
                dec = next((s_ for s_ in cdef.body if isinstance(s_, ast.FunctionDef) and s_.name == "_decode"), None)
                if dec is None or not args or not isinstance(args[0], N):
                    raise NotImplementedError(f"adapter class {f.id} without _decode / subcon")
                fields = {}
                if init is not None:
                    params = [a.arg for a in init.args.args][1:]
                    bound = dict(zip(params, args))
                    bound.update(kwv)
                    for s_ in ast.walk(init):
                        if isinstance(s_, (ast.Assign, ast.AnnAssign)) and s_.value is not None:
                            t_ = s_.targets[0] if isinstance(s_, ast.Assign) else s_.target
                            if isinstance(t_, ast.Attribute) and isinstance(t_.value, ast.Name) and t_.value.id == "self":
                                if isinstance(s_.value, ast.Name) and s_.value.id in bound:
                                    fields[t_.attr] = bound[s_.value.id]
                                elif isinstance(s_.value, ast.Constant):
                                    fields[t_.attr] = s_.value.value
                import copy

                class _Sub(ast.NodeTransformer):
                    def visit_Attribute(self, node):
                        if isinstance(node.value, ast.Name) and node.value.id == "self" and node.attr in fields and isinstance(fields[node.attr], (int, str, float, type(None), bool)):
                            return ast.copy_location(ast.Constant(fields[node.attr]), node)
                        return self.generic_visit(node)
                d2 = _Sub().visit(copy.deepcopy(dec))
                d2.args.args = d2.args.args[1:]
                ast.fix_missing_locations(d2)
                return N("ExprAdapter", {"sub": args[0], "decoder": Expr(f"{f.id}._decode", d2, self.name)}, line=n.lineno)
        if isinstance(f, ast.Attribute) and isinstance(f.value, ast.Name) and f.value.id in self.imports:
            m = self.world.module(self.imports[f.value.id])
            if f.attr in m.funcs:
                return self.inline(m, m.funcs[f.attr], n, loc)
        raise NotImplementedError(f"call {ast.unparse(f)}")

    def inline(self, mod, fn, call, loc):
        return self.inline_values(mod, fn, self.args_of(call, loc), {a.arg: self.ev(a.value, loc) for a in call.keywords if a.arg})

    def inline_values(self, mod, fn, vals, kw=None):
        params = [a.arg for a in fn.args.args]
        l2 = dict(zip(params, vals))
        l2.update(kw or {})
        dflt = fn.args.defaults
        for p_, d_ in zip(params[len(params) - len(dflt):], dflt):
            if p_ not in l2:
                l2[p_] = mod.ev(d_, {})
        done, val = mod.run_block(fn.body, l2)
        if not done:
            raise NotImplementedError("no return")
        return val

    def run_block(self, stmts, l2):
        """grammar-building helper bodies: assignments, returns and conditionals on ordinary values"""
        for s in stmts:
            if isinstance(s, ast.Expr) and isinstance(s.value, ast.Constant):
                continue
            if isinstance(s, ast.Assign) and len(s.targets) == 1 and isinstance(s.targets[0], ast.Name):
                l2[s.targets[0].id] = self.ev(s.value, l2)
                continue
            if isinstance(s, ast.AnnAssign) and isinstance(s.target, ast.Name) and s.value is not None:
                l2[s.target.id] = self.ev(s.value, l2)
                continue
            if isinstance(s, ast.Return) and s.value is not None:
                return True, self.ev(s.value, l2)
            if isinstance(s, ast.If):
                plain_env = {k: v for k, v in l2.items() if not isinstance(v, (N, Expr))}
                t = self.plain(s.test, plain_env)
                if not isinstance(t, (bool, int, str, type(None), list, tuple, dict)):
                    raise NotImplementedError("grammar-building helper: condition on an abstract value")
                done, val = self.run_block(s.body if t else s.orelse, l2)
                if done:
                    return True, val
                continue
            raise NotImplementedError("grammar-building helper with control flow")
        return False, None


class World:
    ae = None

    def __init__(self, src):
        self.src = src
        self.mods = {}

    def module(self, name):
        if name not in self.mods:
            self.mods[name] = Module(name, self)
        return self.mods[name]


# ------------------------------------------------------------------ analyses
def consumption(n: N):
    """(min, max) octets consumed; None max = unbounded. Bits handled inside BitStruct."""
    k = n.kind
    if k == "Int":
        return (n.a["size"],) * 2
    if k in ("Pass", "Error", "Computed", "Check", "Peek"):
        return (0, 0)
    if k in ("Const", "Enum", "ExprAdapter"):
        s = n.a.get("sub")
        return consumption(s) if isinstance(s, N) else (1, 1)
    if k in ("Struct", "FocusedSeq"):
        lo = hi = 0
        for s in n.a["subs"]:
            if isinstance(s, N):
                a, b = consumption(s)
                lo += a
                hi = None if hi is None or b is None else hi + b
        return (lo, hi)
    if k == "BitStruct":
        bits = sum(s.a.get("bits", 0) if s.kind == "BitsInteger" else s.a.get("size", 0) if s.kind == "Padding" else bits_of(s) for s in n.a["subs"])
        assert bits % 8 == 0
        return (bits // 8,) * 2
    if k == "If":
        a, b = consumption(n.a["sub"])
        return (0, b)
    if k == "IfThenElse":
        a1, b1 = consumption(n.a["then"])
        a2, b2 = consumption(n.a["els"])
        return (min(a1, a2), None if b1 is None or b2 is None else max(b1, b2))
    if k == "Switch":
        rs = [consumption(c) for c in list(n.a["cases"].values()) + [n.a["default"]]]
        return (min(r[0] for r in rs), None if any(r[1] is None for r in rs) else max(r[1] for r in rs))
    if k == "Select":
        rs = [consumption(c) for c in n.a["subs"]]
        return (min(r[0] for r in rs), None if any(r[1] is None for r in rs) else max(r[1] for r in rs))
    if k == "GreedyRange":
        return (0, None)
    if k == "Array":
        a, b = consumption(n.a["sub"])
        c = n.a["count"]
        if isinstance(c, int):
            return (a * c, None if b is None else b * c)
        return (0, None)
    if k == "PascalString":
        return (1, 256)
    if k == "PaddedString":
        return (0, 255)
    raise NotImplementedError(k)


def bits_of(s):
    if s.kind == "Enum":
        return bits_of(s.a["sub"])
    if s.kind == "BitsInteger":
        return s.a["bits"]
    if s.kind == "Padding":
        return s.a["size"]
    raise NotImplementedError(s.kind)


def returned_exprs(node):
    """the expressions a lambda / named function can return (conditional expressions and if-statements opened up); None if not analysable"""
    def open_(e):
        if isinstance(e, ast.IfExp):
            return open_(e.body) + open_(e.orelse)
        return [e]
    if isinstance(node, ast.Lambda):
        return open_(node.body)
    if isinstance(node, ast.FunctionDef):
        out = []
        for r in ast.walk(node):
            if isinstance(r, ast.Return):
                out += open_(r.value) if r.value is not None else [ast.Constant(value=None)]
        return out or None
    return None


def first_param(node):
    a = node.args.args if isinstance(node, (ast.Lambda, ast.FunctionDef)) else []
    return a[0].arg if a else None


def kinds(n: N):
    """set of value kinds a parsed node can yield"""
    k = n.kind
    if k == "Int" or k == "BitsInteger":
        return {"int"}
    if k == "Enum":
        return {"enum"}
    if k == "Const":
        return kinds(n.a["sub"]) if isinstance(n.a["sub"], N) else {"bytes"}
    if k in ("Struct", "BitStruct"):
        members = tuple(sorted(s.name for s in n.a["subs"] if isinstance(s, N) and s.name))
        return {("container", members)}
    if k == "FocusedSeq":
        for s in n.a["subs"]:
            if isinstance(s, N) and s.name == n.a["focus"]:
                return kinds(s)
        return {"?"}
    if k in ("PascalString", "PaddedString"):
        return {"str"}
    if k == "ExprAdapter":
        d = n.a["decoder"]
        out = set()
        rets = returned_exprs(d.node) if isinstance(d, Expr) else None
        if not rets:
            return {"?"}
        for br in rets:
            if isinstance(br, ast.Constant) and br.value is None:
                out.add("none")
            elif isinstance(br, ast.Name) and br.id == first_param(d.node):
                out |= kinds(n.a["sub"])
            elif isinstance(br, ast.Call) and ast.unparse(br.func).endswith(".join"):
                out.add("str")
            else:
                out.add("?")
        return out
    if k == "Peek":
        return kinds(n.a["sub"]) | {"none"}
    if k == "If":
        return kinds(n.a["sub"]) | {"none"}
    if k == "IfThenElse":
        return kinds(n.a["then"]) | kinds(n.a["els"])
    if k == "Switch":
        out = set()
        for c in n.a["cases"].values():
            out |= kinds(c)
        out |= kinds(n.a["default"])
        return out
    if k == "Select":
        out = set()
        for c in n.a["subs"]:
            out |= kinds(c)
        return out
    if k in ("GreedyRange", "Array"):
        return {"list"}
    if k == "Pass":
        return {"none"}
    if k == "Error":
        return set()
    if k == "Computed":
        return {"computed"}
    if k == "Check":
        return {"none"}
    return {"?"}


def raw_lambda_sites(n: N, guarded=False, path=""):
    """yield (path, node, guarded) for Computed/ExprAdapter/Check/If-cond lambdas; guarded = under Select/GreedyRange."""
    k = n.kind
    here = f"{path}/{n.name or k}"
    if k in ("Computed", "Check") and isinstance(n.a["expr"], Expr):
        yield here, n, guarded
    if k == "ExprAdapter":
        yield here, n, guarded
    g2 = guarded or k in ("Select", "GreedyRange")
    for v in n.a.values():
        if isinstance(v, N):
            yield from raw_lambda_sites(v, g2, here)
        elif isinstance(v, list):
            for x in v:
                if isinstance(x, N):
                    yield from raw_lambda_sites(x, g2, here)
        elif isinstance(v, dict):
            for x in v.values():
                if isinstance(x, N):
                    yield from raw_lambda_sites(x, g2, here)


def find_ident(n: N, target: N, path=""):
    here = f"{path}/{n.name or n.kind}"
    if n.ident is target.ident:
        yield here
    for v in n.a.values():
        vs = [v] if isinstance(v, N) else v if isinstance(v, list) else list(v.values()) if isinstance(v, dict) else []
        for x in vs:
            if isinstance(x, N):
                yield from find_ident(x, target, here)




def first_octets(n: N, depth=0):
    """set of octet values a parse of this node can start with (None = any / unknown)"""
    if n is None or depth > 12:
        return None
    k = n.kind
    if k == "Const":
        v = n.a["value"]
        if isinstance(v, EnumVal):
            return {v.value}
        if isinstance(v, int):
            return {v}
        if isinstance(v, (bytes, str)) and len(v):
            return {v[0] if isinstance(v, bytes) else ord(v[0])}
        return None
    if k in ("Struct", "FocusedSeq"):
        for s in n.a["subs"]:
            if not isinstance(s, N):
                continue
            if consumption(s)[1] == 0:
                continue  # Peek / Computed / Check consume nothing
            return first_octets(s, depth + 1)
        return None
    if k == "Select":
        out = set()
        for s in n.a["subs"]:
            f = first_octets(s, depth + 1)
            if f is None:
                return None
            out |= f
        return out
    if k in ("Enum", "ExprAdapter", "Peek"):
        return None
    return None


def children(n: N):
    """(label, child) pairs"""
    k = n.kind
    a = n.a
    out = []
    if k in ("Struct", "BitStruct", "FocusedSeq"):
        for i, s in enumerate(a["subs"]):
            if isinstance(s, N):
                out.append((("sub", i), s))
    elif k == "Select":
        for i, s in enumerate(a["subs"]):
            if isinstance(s, N):
                out.append((("alt", i), s))
    elif k == "Switch":
        for key, s in a["cases"].items():
            if isinstance(s, N):
                out.append((("case", key), s))
        if isinstance(a.get("default"), N):
            out.append((("default",), a["default"]))
    elif k == "IfThenElse":
        out.append((("then",), a["then"]))
        out.append((("else",), a["els"]))
    else:
        for key in ("sub",):
            if isinstance(a.get(key), N):
                out.append(((key,), a[key]))
    return out


def routes(root: N, target: N, prefix=None, depth=0):
    """all structural routes [(node, label), ...] from root to the node with target's identity"""
    prefix = prefix or []
    if depth > 40:
        return
    if root.ident is target.ident:
        yield list(prefix)
        return
    for label, c in children(root):
        yield from routes(c, target, prefix + [(root, label)], depth + 1)


def all_nodes(root: N, seen=None):
    seen = seen if seen is not None else set()
    if id(root) in seen:
        return
    seen.add(id(root))
    yield root
    for _, c in children(root):
        yield from all_nodes(c, seen)
