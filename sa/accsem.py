"""E-ACC: semantics of the HDLC frame/header accessors over a symbolic frame.

Each accessor is path-enumerated by E-PATH with full inlining (frame <-> header), conditional expressions and short-circuit
operators split into paths.  The paths are then evaluated in a *world*: a frame of concrete length n whose octets are
symbolic 8-bit values (GF(2)-affine bit-vectors, E-BITLIN), a control position c (None or concrete) and opaque symbols for
what the accessor cannot know (address scan results, FCS state).  Guards only compare lengths / positions / None-ness, so in
a world every guard is a concrete boolean and exactly one path applies; its value (an affine bit-vector over the octet
variables, an octet slice, None, an int) is compared with the reference layout of ISO/IEC 13239 in the same world.
The grid of worlds covers every ordering of n against c+k (k = 0..5) and against the small constants in the layout, which
are the only quantities the guards can distinguish; field names, local temporaries, guard clauses, conditional
expressions, named constants and operand order do not matter.
"""
from __future__ import annotations

from sa.bitlin import BV, Vars, Top
from sa.paths import Engine, Unsupported, NeedFork, show_sv

SELF = ("self0",)
MAXN = 16


class Undef(Exception):
    pass


class Raises(Exception):
    pass


class World:
    def __init__(self, n, c, extra=None):
        self.n, self.c = n, c
        self.extra = extra or {}


class AccSem:
    def __init__(self, M, frame_key, header_key, roles, store, cp_field, keep=()):
        self.M = M
        self.FRAME, self.HEADER = frame_key, header_key
        self.roles = roles  # {'header': field of frame holding the header, 'frame': field of header holding the frame}
        self.store, self.cp = store, cp_field
        self.vars = Vars()
        self.oct = [self.vars.fresh(f"o{i}", 8) for i in range(MAXN)]
        self.keep = set(keep)
        self._paths = {}

    # ------------------------------------------------------------------ paths
    def paths(self, cls_key, name, no_inline=()):
        k = (cls_key, name, tuple(no_inline))
        if k not in self._paths:
            fn = self.M.classes[cls_key].methods.get(name)
            if fn is None:
                self._paths[k] = (None, "missing")
            else:
                try:
                    E = Engine(self.M, inline_depth=8, inline_subobjects=True, split_ifexp=True, fork_props=True, keep_props=self.keep, no_inline=no_inline)
                    self._paths[k] = (fn, E.run(fn))
                except (Unsupported, NeedFork) as ex:
                    self._paths[k] = (fn, f"outside the analysed subset: {ex}")
        return self._paths[k]

    # ------------------------------------------------------------------ object identity
    def kind(self, sv, root):
        if sv == SELF:
            return root
        if sv[0] == "f0" and len(sv) >= 3:
            b = self.kind(sv[1], root)
            if b == "frame" and sv[2] == self.roles["header"]:
                return "header"
            if b == "header" and sv[2] == self.roles["frame"]:
                return "frame"
        if sv[0] == "prop" and sv[2] == "header" and self.kind(sv[1], root) == "frame":
            return "header"
        return None

    # ------------------------------------------------------------------ evaluation
    def ev(self, sv, w: World, root):
        t = sv[0]
        if t == "c":
            return sv[1]
        if t == "f0" and sv[1][0] == "class":
            return Sym(f"{sv[1][1][1]}.{sv[2]}", none=False, truth=True)  # a class-level constant (enum member)
        if t == "f0":
            b = self.kind(sv[1], root)
            if b == "frame" and sv[2] == self.store:
                return tuple(self.oct[: w.n])
            if b == "header" and sv[2] == self.cp:
                return w.c
            key = (b, sv[2])
            if key in w.extra:
                return w.extra[key]
            raise Undef(f"field {show_sv(sv)}")
        if t == "prop":
            b = self.kind(sv[1], root)
            key = (b, sv[2])
            if key in w.extra:
                return w.extra[key]
            raise Undef(f"property {show_sv(sv)}")
        if t == "len":
            x = self.ev(sv[1], w, root) if self.kind(sv[1], root) != "frame" else tuple(self.oct[: w.n])
            return self._len(x)
        if t == "call":
            name, args = sv[1], sv[2]
            if name == "len" and len(args) == 1:
                return self._len(self.ev(args[0], w, root))
            if name in ("bytes", "bytearray") and len(args) == 1:
                x = self.ev(args[0], w, root)
                if isinstance(x, tuple):
                    return x
                raise Undef("bytes() of a non-sequence")
            if name == "cast" and len(args) == 2:
                return self.ev(args[1], w, root)
            if name == "bool" and len(args) == 1:
                return self._truth(self.ev(args[0], w, root))
            key = ("call", name if isinstance(name, str) else str(name))
            if key in w.extra:
                return w.extra[key]
            raise Undef(f"call {name}")
        if t == "sub":
            x, i = self.ev(sv[1], w, root), self.ev(sv[2], w, root)
            if isinstance(x, tuple) and isinstance(i, int) and not isinstance(i, bool):
                try:
                    return x[i]
                except IndexError:
                    raise Raises("IndexError")
            if x is None:
                raise Raises("TypeError")
            raise Undef("subscript")
        if t == "slice":
            x = self.ev(sv[1], w, root)
            lo = self.ev(sv[2], w, root) if sv[2] is not None else None
            hi = self.ev(sv[3], w, root) if sv[3] is not None else None
            if isinstance(x, tuple) and all(v is None or (isinstance(v, int) and not isinstance(v, bool)) for v in (lo, hi)):
                return x[lo:hi]
            if x is None or any(v is None for v, s in ((lo, sv[2]), (hi, sv[3])) if s is not None):
                raise Raises("TypeError")
            raise Undef("slice")
        if t == "tuple":
            return tuple(self.ev(x, w, root) for x in sv[1])
        if t == "op":
            a, b = self.ev(sv[2], w, root), self.ev(sv[3], w, root)
            return self._op(sv[1], a, b)
        if t == "un":
            a = self.ev(sv[2], w, root)
            if sv[1] == "USub" and isinstance(a, int):
                return -a
            raise Undef("unary")
        if t == "not":
            return not self._truth(self.ev(sv[1], w, root))
        if t == "bool":
            vals = sv[2]
            res = None
            for v in vals:
                res = self.ev(v, w, root)
                tr = self._truth(res)
                if (sv[1] == "and" and not tr) or (sv[1] == "or" and tr):
                    return res
            return res
        if t == "ite":
            return self.ev(sv[2] if self._truth(self.ev(sv[1], w, root)) else sv[3], w, root)
        if t == "cmp":
            a, b = self.ev(sv[2], w, root), self.ev(sv[3], w, root)
            return self._cmp(sv[1], a, b)
        raise Undef(f"value {show_sv(sv)[:60]}")

    def _len(self, x):
        if isinstance(x, tuple):
            return len(x)
        if x is None:
            raise Raises("TypeError")
        if isinstance(x, Sym) and x.length is not None:
            return x.length
        raise Undef("len")

    def _truth(self, v):
        if isinstance(v, bool) or v is None or isinstance(v, int):
            return bool(v)
        if isinstance(v, tuple) and v and v[0] in ("eqbv", "nebv", "bit"):
            raise SymbolicCondition("condition on symbolic octets")
        if isinstance(v, tuple):
            return len(v) > 0
        if isinstance(v, BV):
            if v.is_const():
                return v.value() != 0
            raise SymbolicCondition("condition on symbolic octets")
        if isinstance(v, Sym):
            if v.truth is not None:
                return v.truth
            raise Undef(f"truth of {v.name}")
        raise Undef("truth")

    def _bv(self, v):
        if isinstance(v, BV):
            return v
        if isinstance(v, int) and not isinstance(v, bool) and v >= 0:
            return BV.const(v)
        return None

    def _op(self, op, a, b):
        if isinstance(a, int) and isinstance(b, int) and not isinstance(a, bool) and not isinstance(b, bool):
            import operator
            f = {"Add": operator.add, "Sub": operator.sub, "Mult": operator.mul, "BitOr": operator.or_, "BitAnd": operator.and_, "BitXor": operator.xor,
                 "LShift": operator.lshift, "RShift": operator.rshift, "FloorDiv": operator.floordiv, "Mod": operator.mod}.get(op)
            if f is None:
                raise Undef(op)
            return f(a, b)
        if a is None or b is None:
            raise Raises("TypeError")
        x, y = self._bv(a), self._bv(b)
        if x is None or y is None:
            raise Undef(f"{op} on {type(a).__name__}/{type(b).__name__}")
        try:
            if op == "BitOr":
                return x.or_(y)
            if op == "BitAnd":
                return x.and_(y)
            if op == "BitXor":
                return x ^ y
            if op == "LShift" and y.is_const():
                return x.shl(y.value())
            if op == "RShift" and y.is_const():
                return x.shr(y.value())
            if op == "Add" and (x.and_(y)).is_const() and x.and_(y).value() == 0:
                return x.or_(y)  # disjoint supports: + is |
        except Top:
            pass
        raise Undef(f"{op} outside the affine domain")

    def _cmp(self, op, a, b):
        if op in ("Is", "IsNot"):
            same = (a is None and b is None) or (a is b) or (isinstance(a, (bool, int)) and isinstance(b, (bool, int)) and type(a) is type(b) and a == b)
            if (a is None) != (b is None):
                same = False
            return same if op == "Is" else not same
        if isinstance(a, BV) or isinstance(b, BV):
            x, y = self._bv(a), self._bv(b)
            if a is None or b is None:
                if op in ("Eq", "NotEq"):
                    return op == "NotEq"
                raise Raises("TypeError")
            if x is None or y is None:
                raise Undef("comparison")
            if x.is_const() and y.is_const():
                return self._cmp(op, x.value(), y.value())
            if op in ("Eq", "NotEq"):
                d = x ^ y
                if d.width() <= 1 or all(d.bit(i) == 0 for i in range(1, d.width())):
                    # single-bit predicate: value is the bit itself (or its complement)
                    bit = BV([d.bit(0) ^ 1]) if op == "Eq" else BV([d.bit(0)])
                    return ("bit", bit)
                return ("eqbv", d) if op == "Eq" else ("nebv", d)
            raise Undef("ordering of symbolic octets")
        if isinstance(a, Sym) or isinstance(b, Sym):
            if op in ("Eq", "NotEq") and (a is None or b is None):
                s = a if isinstance(a, Sym) else b
                if s.none is False:
                    return op == "NotEq"
            raise Undef("comparison with an opaque value")
        if op in ("Eq", "NotEq"):
            return (a == b) if op == "Eq" else (a != b)
        if a is None or b is None:
            raise Raises("TypeError")
        try:
            return {"Lt": a < b, "LtE": a <= b, "Gt": a > b, "GtE": a >= b}[op]
        except (KeyError, TypeError):
            raise Undef(f"comparison {op}")

    # ------------------------------------------------------------------ running an accessor in a world
    def run(self, cls_key, name, w: World, no_inline=()):
        """-> ('value', v, path) | ('raise', cls) | ('undef', why)"""
        root = "frame" if cls_key == self.FRAME else "header"
        fn, ps = self.paths(cls_key, name, no_inline)
        if fn is None:
            return ("undef", f"accessor {name} not found")
        if isinstance(ps, str):
            return ("undef", ps)
        hits = []
        for p in ps:
            ok = True
            try:
                for g, pol, _ in p.guards:
                    if self._truth(self.ev(g, w, root)) != pol:
                        ok = False
                        break
            except Undef as ex:
                return ("undef", f"{name}: guard not decidable in the frame world ({ex})")
            except Raises as ex:
                return ("raise", str(ex))
            if ok:
                hits.append(p)
        if len(hits) != 1:
            return ("undef", f"{name}: {len(hits)} paths apply for n={w.n}, control position={w.c}")
        p = hits[0]
        if p.status == "raise":
            return ("raise", "explicit")
        try:
            v = self.ev(p.ret, w, root) if p.ret is not None else None
        except Undef as ex:
            return ("undef", f"{name}: value not in the frame domain ({ex})")
        except Raises as ex:
            return ("raise", str(ex))
        return ("value", v, p)


class SymbolicCondition(Undef):
    """a condition on the symbolic octets themselves: both outcomes are possible in the world"""


def run_all(A, cls_key, name, w, no_inline=()):
    """every path of the accessor that is consistent with the world, conditions on the symbolic octets taken both ways:
    list of ('value', v) | ('raise', cls) | ('undef', why)"""
    root = "frame" if cls_key == A.FRAME else "header"
    fn, ps = A.paths(cls_key, name, no_inline)
    if fn is None:
        return [("undef", f"accessor {name} not found")]
    if isinstance(ps, str):
        return [("undef", ps)]
    out = []
    for p in ps:
        ok = True
        res = None
        for g, pol, _ in p.guards:
            try:
                if A._truth(A.ev(g, w, root)) != pol:
                    ok = False
                    break
            except SymbolicCondition:
                continue
            except Undef as ex:
                res = ("undef", f"{name}: guard not decidable in the frame world ({ex})")
                break
            except Raises as ex:
                res = ("raise", str(ex))
                break
        if res is not None:
            out.append(res)
            continue
        if not ok:
            continue
        if p.status == "raise":
            out.append(("raise", "explicit"))
            continue
        try:
            out.append(("value", A.ev(p.ret, w, root) if p.ret is not None else None))
        except Undef as ex:
            out.append(("undef", f"{name}: value not in the frame domain ({ex})"))
        except Raises as ex:
            out.append(("raise", str(ex)))
    return out or [("undef", f"{name}: no path applies for n={w.n}, control position={w.c}")]


class Sym:
    """opaque value with the few facts the worlds fix about it"""

    def __init__(self, name, none=None, truth=None, length=None):
        self.name, self.none, self.truth, self.length = name, none, truth, length

    def __repr__(self):
        return f"<{self.name}>"

    def __eq__(self, o):
        return isinstance(o, Sym) and o.name == self.name

    def __hash__(self):
        return hash(self.name)


def worlds():
    """(n, c): every ordering of n against c+k (k=0..5) for several c, and short frames without a control position"""
    out = [(n, None) for n in range(0, 9)]
    for c in (4, 5, 7, 9):
        for n in range(c, min(c + 7, MAXN) + 1):
            out.append((n, c))
    return out
