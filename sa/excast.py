"""E-EXC (AST form) for the reader / message / protocol code: which exceptions can leave an entry point.

Interprocedural over the resolved call graph (E-MODEL), with try/except scoping (handler bodies and logging arguments are
evaluated code too), dominance facts from enclosing tests / early exits / short-circuit operators, and two confidence classes:
  definite  -> VIOLATION : partial built-ins on wire text (decode, int(text, base), float(text)), explicit raise, assert, arithmetic /
               ordering / indexing with an Optional value that has a None path, none of them guarded or handled
  unproven  -> UNDECIDED : index subscripts whose safety needs an invariant outside the discharge catalogue
"""
from __future__ import annotations

import ast
import builtins

from sa.model import Func, Model


def exc_covered(cls, names):
    for h in names:
        h = h.split(".")[-1]
        if h in ("Exception", "BaseException"):
            return True
        a, b = getattr(builtins, cls, None), getattr(builtins, h, None)
        if isinstance(a, type) and isinstance(b, type) and issubclass(a, b):
            return True
        if cls == h:
            return True
    return False


def norm(node):
    return ast.unparse(node).replace(" ", "")


def conjuncts(test):
    if isinstance(test, ast.BoolOp) and isinstance(test.op, ast.And):
        out = []
        for v in test.values:
            out += conjuncts(v)
        return out
    return [test]


def negate_text(test):
    """facts that hold when `test` is false (only simple forms)"""
    out = []
    if isinstance(test, ast.UnaryOp) and isinstance(test.op, ast.Not):
        return [norm(c) for c in conjuncts(test.operand)]
    if isinstance(test, ast.Compare) and len(test.ops) == 1:
        inv = {ast.Is: "isnot", ast.IsNot: "is", ast.Lt: ">=", ast.LtE: ">", ast.Gt: "<=", ast.GtE: "<", ast.Eq: "!=", ast.NotEq: "=="}
        op = inv.get(type(test.ops[0]))
        if op:
            out.append(f"{norm(test.left)}{op}{norm(test.comparators[0])}")
    if isinstance(test, ast.BoolOp) and isinstance(test.op, ast.Or):
        for v in test.values:
            out += negate_text(v)
    out.append("not" + norm(test))
    return out


class Site:
    def __init__(self, cls, kind, fn, line, text, definite=True):
        self.cls, self.kind, self.fn, self.line, self.text, self.definite = cls, kind, fn, line, text, definite

    def key(self):
        return (self.cls, self.kind, self.fn, self.text)


class EscapeAnalysis:
    def __init__(self, M: Model, discharge=None):
        self.M = M
        self.memo = {}
        self.active = set()
        self.discharge = discharge or (lambda site, fn, node, facts: False)
        self.subscripts = []  # (fn qual, line, text, how discharged | None)
        self.callsite_facts = {}  # callee qual -> list of fact sets at each resolved call site
        self.visited = set()

    # ---------------------------------------------------------------- driver
    def escapes(self, fn: Func, entry_facts=frozenset()):
        q = (fn.qual, frozenset(entry_facts))
        if q in self.memo:
            return self.memo[q]
        if q in self.active:
            return []
        self.active.add(q)
        self.visited.add(fn.qual)
        out = []
        self._block(fn.node.body, fn, [], self._with_property_facts(set(entry_facts), fn), out)
        self.active.discard(q)
        self.memo[q] = out
        return out

    def _with_property_facts(self, facts, fn):
        """a fact `self.<property>` implies the conjuncts of the property's single return expression"""
        out = set(facts)
        if fn.cls:
            for f in list(facts):
                if f.startswith("self.") and f[5:].isidentifier():
                    m = self.M.find_method((fn.mod, fn.cls), f[5:])
                    if m is not None and m.kind == "property":
                        body = [s for s in m.node.body if not (isinstance(s, ast.Expr) and isinstance(s.value, ast.Constant))]
                        if len(body) == 1 and isinstance(body[0], ast.Return) and body[0].value is not None:
                            out |= {norm(c) for c in conjuncts(body[0].value)}
        return out

    @staticmethod
    def _mutated_receivers(s):
        """texts of objects a statement may mutate: receivers of method calls and assignment targets"""
        out = set()
        for n in ast.walk(s):
            if isinstance(n, ast.Call) and isinstance(n.func, ast.Attribute):
                out.add(norm(n.func.value))
            if isinstance(n, (ast.Assign, ast.AugAssign, ast.AnnAssign)):
                for t in (n.targets if isinstance(n, ast.Assign) else [n.target]):
                    out.add(norm(t))
        return out

    def _alias_facts(self, fn):
        return []

    # ---------------------------------------------------------------- statements
    def _block(self, stmts, fn, handlers, facts, out):
        facts = set(facts)
        for s in stmts:
            self._stmt(s, fn, handlers, facts, out)
            # state changes invalidate facts about the changed object (flow-sensitive dominance)
            if not isinstance(s, (ast.If, ast.While, ast.For, ast.Try, ast.With)):
                mut = {m for m in self._mutated_receivers(s) if m not in ("_LOGGER", "self") and not m.startswith("_LOGGER")}
                if mut:
                    facts -= {f for f in facts if any(m in f for m in mut)}
            # early exit: `if T: return/raise/continue/break` => not T afterwards
            if isinstance(s, ast.If) and s.body and isinstance(s.body[-1], (ast.Return, ast.Raise, ast.Continue, ast.Break)) and not s.orelse:
                facts |= set(negate_text(s.test))
            if isinstance(s, ast.Assert):
                facts |= {norm(c) for c in conjuncts(s.test)}

    def _expand(self, test, fn):
        """conjuncts of a test, expanding local boolean aliases assigned once from a conjunction"""
        out = []
        for c in conjuncts(test):
            out.append(norm(c))
            if isinstance(c, ast.Name):
                defs = [a for a in ast.walk(fn.node) if isinstance(a, ast.Assign) and len(a.targets) == 1 and isinstance(a.targets[0], ast.Name) and a.targets[0].id == c.id]
                if len(defs) == 1:
                    out += [norm(x) for x in conjuncts(defs[0].value)]
        return out

    def _stmt(self, s, fn, handlers, facts, out):
        if isinstance(s, (ast.FunctionDef, ast.AsyncFunctionDef, ast.ClassDef, ast.Import, ast.ImportFrom, ast.Pass, ast.Break, ast.Continue, ast.Global, ast.Nonlocal)):
            return
        if isinstance(s, ast.If):
            self._expr(s.test, fn, handlers, facts, out)
            self._block(s.body, fn, handlers, facts | set(self._expand(s.test, fn)), out)
            self._block(s.orelse, fn, handlers, facts | set(negate_text(s.test)), out)
            return
        if isinstance(s, (ast.While,)):
            self._expr(s.test, fn, handlers, facts, out)
            self._block(s.body, fn, handlers, facts | set(self._expand(s.test, fn)), out)
            self._block(s.orelse, fn, handlers, facts, out)
            return
        if isinstance(s, (ast.For, ast.AsyncFor)):
            self._expr(s.iter, fn, handlers, facts, out)
            self._block(s.body, fn, handlers, facts, out)
            self._block(s.orelse, fn, handlers, facts, out)
            return
        if isinstance(s, ast.Try):
            hs = []
            for h in s.handlers:
                if h.type is None:
                    hs.append("BaseException")
                elif isinstance(h.type, ast.Tuple):
                    hs += [ast.unparse(e) for e in h.type.elts]
                else:
                    hs.append(ast.unparse(h.type))
            self._block(s.body, fn, handlers + [hs], facts, out)
            for h in s.handlers:
                reraise = any(isinstance(x, ast.Raise) and x.exc is None for x in h.body)
                self._block(h.body, fn, handlers, facts, out)  # handler bodies run OUTSIDE the protection of this try
            self._block(s.orelse, fn, handlers, facts, out)
            self._block(s.finalbody, fn, handlers, facts, out)
            return
        if isinstance(s, (ast.With, ast.AsyncWith)):
            for it in s.items:
                self._expr(it.context_expr, fn, handlers, facts, out)
            self._block(s.body, fn, handlers, facts, out)
            return
        if isinstance(s, ast.Raise):
            if s.exc is not None:
                cls = ast.unparse(s.exc.func if isinstance(s.exc, ast.Call) else s.exc).split(".")[-1]
                self._emit(Site(cls, "raise", fn.qual, s.lineno, f"raise {cls}"), handlers, out, fn, s, facts)
                if isinstance(s.exc, ast.Call):
                    for a in s.exc.args:
                        self._expr(a, fn, handlers, facts, out)
            return
        if isinstance(s, ast.Assert):
            txts = [norm(c) for c in conjuncts(s.test)]
            if not all(t in facts for t in txts):
                self._emit(Site("AssertionError", "assert", fn.qual, s.lineno, f"assert {ast.unparse(s.test)[:60]}"), handlers, out, fn, s, facts)
            return
        if isinstance(s, ast.Assign):
            self._expr(s.value, fn, handlers, facts, out)
            for t in s.targets:
                self._target(t, fn, handlers, facts, out)
            return
        if isinstance(s, ast.AnnAssign):
            if s.value is not None:
                self._expr(s.value, fn, handlers, facts, out)
            self._target(s.target, fn, handlers, facts, out)
            return
        if isinstance(s, ast.AugAssign):
            self._expr(s.value, fn, handlers, facts, out)
            self._expr(ast.parse(ast.unparse(s.target), mode="eval").body, fn, handlers, facts, out)
            return
        if isinstance(s, ast.Return):
            if s.value is not None:
                self._expr(s.value, fn, handlers, facts, out)
            return
        if isinstance(s, ast.Expr):
            self._expr(s.value, fn, handlers, facts, out)
            return
        if isinstance(s, ast.Delete):
            return

    def _target(self, t, fn, handlers, facts, out):
        if isinstance(t, ast.Subscript):
            self._expr(t.value, fn, handlers, facts, out)
        elif isinstance(t, (ast.Tuple, ast.List)):
            for x in t.elts:
                self._target(x, fn, handlers, facts, out)

    # ---------------------------------------------------------------- expressions
    def _emit(self, site, handlers, out, fn, node, facts):
        for hs in handlers:
            if exc_covered(site.cls, hs):
                return
        if self.discharge(site, fn, node, facts):
            return
        out.append(site)

    def optional_source(self, e, fn):
        """is `e` a read of a repo property/field that can be None? returns description or None"""
        M = self.M
        if isinstance(e, ast.Call) and isinstance(e.func, ast.Name) and e.func.id == "cast":
            return None
        if isinstance(e, ast.Attribute):
            m = M.resolve_property(e, fn)
            if m is not None and m.node.returns is not None and M.ann_optional(m.node.returns):
                if any(isinstance(r, ast.Return) and (r.value is None or (isinstance(r.value, ast.Constant) and r.value.value is None)) for r in ast.walk(m.node)):
                    return f"{ast.unparse(e)} (property {m.qual} can return None)"
            base = M.type_of(e.value, fn)
            if base:
                for k in M.mro(base):
                    c = M.classes[k]
                    init = c.methods.get("__init__")
                    if init:
                        for a in ast.walk(init.node):
                            if isinstance(a, ast.AnnAssign) and isinstance(a.target, ast.Attribute) and a.target.attr == e.attr and M.ann_optional(a.annotation):
                                return f"{ast.unparse(e)} (field annotated Optional)"
        if isinstance(e, ast.Name):
            defs = [a for a in ast.walk(fn.node) if isinstance(a, ast.Assign) and len(a.targets) == 1 and isinstance(a.targets[0], ast.Name) and a.targets[0].id == e.id]
            if len(defs) == 1 and not isinstance(defs[0].value, ast.Name):
                return self.optional_source(defs[0].value, fn)
        return None

    def _nonnull(self, e, facts):
        t = norm(e)
        return f"{t}isnotNone" in facts or t in facts or f"not{t}isNone" in facts or f"{t}isnotNone" in {f.replace("(", "").replace(")", "") for f in facts}

    def _expr(self, e, fn, handlers, facts, out):
        if e is None:
            return
        M = self.M
        if isinstance(e, ast.BoolOp):
            cur = set(facts)
            for v in e.values:
                self._expr(v, fn, handlers, cur, out)
                if isinstance(e.op, ast.And):
                    cur |= set(self._expand(v, fn))
                else:
                    cur |= set(negate_text(v))
            return
        if isinstance(e, ast.IfExp):
            self._expr(e.test, fn, handlers, facts, out)
            self._expr(e.body, fn, handlers, facts | set(self._expand(e.test, fn)), out)
            self._expr(e.orelse, fn, handlers, facts | set(negate_text(e.test)), out)
            return
        if isinstance(e, ast.Call):
            self._call(e, fn, handlers, facts, out)
            return
        if isinstance(e, ast.Attribute):
            self._expr(e.value, fn, handlers, facts, out)
            m = M.resolve_property(e, fn)
            if m is not None:
                self._callee(m, e, fn, handlers, facts, out)
            return
        if isinstance(e, ast.Subscript):
            self._expr(e.value, fn, handlers, facts, out)
            if isinstance(e.slice, ast.Slice):
                for x in (e.slice.lower, e.slice.upper, e.slice.step):
                    self._expr(x, fn, handlers, facts, out)
                    if x is not None:
                        self._optional_use(x, fn, handlers, facts, out, "slice bound")
            else:
                self._expr(e.slice, fn, handlers, facts, out)
                self._optional_use(e.slice, fn, handlers, facts, out, "index")
                s = Site("IndexError", "subscript", fn.qual, e.lineno, ast.unparse(e)[:60], definite=False)
                how = self.discharge(s, fn, e, facts)
                self.subscripts.append((fn.qual, e.lineno, ast.unparse(e)[:60], how or None))
                if not how:
                    if not any(exc_covered("IndexError", hs) for hs in handlers):
                        out.append(s)
            return
        if isinstance(e, ast.BinOp):
            self._expr(e.left, fn, handlers, facts, out)
            self._expr(e.right, fn, handlers, facts, out)
            for x in (e.left, e.right):
                self._optional_use(x, fn, handlers, facts, out, "arithmetic")
            return
        if isinstance(e, ast.Compare):
            self._expr(e.left, fn, handlers, facts, out)
            for c in e.comparators:
                self._expr(c, fn, handlers, facts, out)
            if any(isinstance(o, (ast.Lt, ast.LtE, ast.Gt, ast.GtE)) for o in e.ops):
                for x in [e.left] + e.comparators:
                    self._optional_use(x, fn, handlers, facts, out, "ordering comparison")
            return
        if isinstance(e, ast.UnaryOp):
            self._expr(e.operand, fn, handlers, facts, out)
            return
        if isinstance(e, (ast.Tuple, ast.List, ast.Set)):
            for x in e.elts:
                self._expr(x, fn, handlers, facts, out)
            return
        if isinstance(e, ast.Dict):
            for x in list(e.keys) + list(e.values):
                self._expr(x, fn, handlers, facts, out)
            return
        if isinstance(e, ast.JoinedStr):
            for v in e.values:
                if isinstance(v, ast.FormattedValue):
                    self._expr(v.value, fn, handlers, facts, out)
            return
        if isinstance(e, (ast.ListComp, ast.GeneratorExp, ast.SetComp)):
            for g in e.generators:
                self._expr(g.iter, fn, handlers, facts, out)
                for c in g.ifs:
                    self._expr(c, fn, handlers, facts, out)
            self._expr(e.elt, fn, handlers, facts, out)
            return
        if isinstance(e, ast.Await):
            self._expr(e.value, fn, handlers, facts, out)
            return

    def _optional_use(self, x, fn, handlers, facts, out, what):
        if isinstance(x, ast.Call) and isinstance(x.func, ast.Name) and x.func.id == "cast" and len(x.args) == 2:
            inner = x.args[1]
            src = self.optional_source(inner, fn)
            if src and not self._nonnull(inner, facts):
                self._emit(Site("TypeError", "optional", fn.qual, x.lineno, f"{what} with {src} (cast does not check)"), handlers, out, fn, x, facts)
            return
        src = self.optional_source(x, fn)
        if src and not self._nonnull(x, facts):
            self._emit(Site("TypeError", "optional", fn.qual, x.lineno, f"{what} with {src} without a dominating `is not None` test"), handlers, out, fn, x, facts)

    def _callee(self, m: Func, node, fn, handlers, facts, out):
        self.callsite_facts.setdefault(m.qual, []).append(set(facts))
        # facts about the receiver's state hold at the callee's entry: translate `<recv>.x` to `self.x`
        entry = set()
        recv = None
        if isinstance(node, ast.Call) and isinstance(node.func, ast.Attribute):
            recv = norm(node.func.value)
        elif isinstance(node, ast.Attribute):
            recv = norm(node.value)
        if recv is not None and m.kind in ("method", "property"):
            for f in facts:
                if recv == "self":
                    if "self." in f and not any(ch in f for ch in ("(self)",)):
                        entry.add(f)
                elif (recv + ".") in f:
                    entry.add(f.replace(recv + ".", "self."))
        sub = self.escapes(m, frozenset(entry))
        for s in sub:
            if s.kind == "assert" and s.text.replace("assert ", "").replace(" ", "") in facts:
                continue
            self._emit(Site(s.cls, s.kind, s.fn, s.line, s.text, s.definite), handlers, out, fn, node, facts)

    def _call(self, e, fn, handlers, facts, out):
        M = self.M
        f = e.func
        fname = ast.unparse(f)
        is_log = fname.startswith("_LOGGER.") or fname.startswith("logging.")
        for a in e.args:
            self._expr(a.value if isinstance(a, ast.Starred) else a, fn, handlers, facts, out)
        for k in e.keywords:
            self._expr(k.value, fn, handlers, facts, out)
        if isinstance(f, ast.Attribute):
            self._expr(f.value, fn, handlers, facts, out)
        if is_log:
            return
        # partial built-ins
        if isinstance(f, ast.Attribute) and f.attr == "decode":
            errs = next((k.value for k in e.keywords if k.arg == "errors"), e.args[1] if len(e.args) > 1 else None)
            lenient = isinstance(errs, ast.Constant) and errs.value in ("replace", "ignore", "backslashreplace", "surrogateescape")
            recv = norm(f.value)
            guarded = f"{recv}.isascii()" in facts or any(fa.endswith(".isascii()") and fa[:-10] and recv.startswith(fa[:-10]) for fa in facts)
            enc = e.args[0].value if e.args and isinstance(e.args[0], ast.Constant) else "utf-8"
            if not lenient and not guarded and str(enc).lower().replace("-", "") not in ("latin1", "iso88591"):
                self._emit(Site("UnicodeDecodeError", "decode", fn.qual, e.lineno, f"{ast.unparse(e)[:70]} on bytes that are not known to be ASCII"), handlers, out, fn, e, facts)
            return
        if isinstance(f, ast.Name) and f.id == "int" and e.args and not isinstance(e.args[0], ast.Constant):
            has_base = len(e.args) > 1 or any(k.arg == "base" for k in e.keywords)
            a0 = e.args[0]
            texty = has_base or (isinstance(a0, (ast.Subscript, ast.Call, ast.Name, ast.Attribute)) and not (isinstance(a0, ast.Call) and ast.unparse(a0.func) in ("len", "float", "round", "abs")))
            if has_base:
                self._emit(Site("ValueError", "int()", fn.qual, e.lineno, f"{ast.unparse(e)[:60]} on wire text"), handlers, out, fn, e, facts)
            return
        if isinstance(f, ast.Name) and f.id == "float" and e.args and not isinstance(e.args[0], ast.Constant):
            self._emit(Site("ValueError", "float()", fn.qual, e.lineno, f"{ast.unparse(e)[:60]} on wire text"), handlers, out, fn, e, facts)
            return
        if isinstance(f, ast.Name) and f.id == "next" and len(e.args) == 1:
            self._emit(Site("StopIteration", "next()", fn.qual, e.lineno, "next() without default"), handlers, out, fn, e, facts)
            return
        # repo callees
        callee = None
        if isinstance(f, ast.Name):
            k = M.lookup_class_name(fn.mod, f.id)
            if k:
                callee = M.find_method(k, "__init__")
            else:
                callee = M.funcs.get(f"{fn.mod}.{f.id}")
                if callee is None:
                    imp = M.imports.get(fn.mod, {}).get(f.id)
                    if imp and imp[0] == "symbol":
                        callee = M.funcs.get(f"{imp[1]}.{imp[2]}")
        else:
            callee = M.resolve_call(e, fn)
        if callee is not None:
            self._callee(callee, e, fn, handlers, facts, out)
