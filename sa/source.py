"""Load /repo's current working tree as text (never imported, never executed)."""
from __future__ import annotations

import ast
import os

DEFAULT_REPO = "/repo"
PACKAGE = "han"
SCRIPTS = ("reader_async.py", "main_mqtt.py")


class Sources:
    """module name -> source text. Package modules are keyed by bare name ('hdlc'), scripts by '@reader_async'."""

    def __init__(self, repo=None, overlay=None):
        self.repo = repo or os.environ.get("AMSHAN_REPO", DEFAULT_REPO)
        self.text: dict[str, str] = {}
        self.path: dict[str, str] = {}
        pk = os.path.join(self.repo, PACKAGE)
        for fn in sorted(os.listdir(pk)):
            if fn.endswith(".py") and fn != "__init__.py":
                m = fn[:-3]
                self.path[m] = os.path.join(PACKAGE, fn)
                with open(os.path.join(pk, fn), encoding="utf-8") as fh:
                    self.text[m] = fh.read()
        for fn in SCRIPTS:
            p = os.path.join(self.repo, fn)
            if os.path.exists(p):
                m = "@" + fn[:-3]
                self.path[m] = fn
                with open(p, encoding="utf-8") as fh:
                    self.text[m] = fh.read()
        if overlay:
            self.text.update(overlay)
        self._trees = {}

    def variant(self, overlay):
        v = Sources.__new__(Sources)
        v.repo = self.repo
        v.text = dict(self.text)
        v.text.update(overlay)
        v.path = dict(self.path)
        v._trees = {}
        return v

    def tree(self, m) -> ast.Module:
        if m not in self._trees:
            from sa.desugar import desugar
            self._trees[m] = desugar(ast.parse(self.text[m], filename=self.path.get(m, m)))
        return self._trees[m]

    def package_modules(self):
        return [m for m in self.text if not m.startswith("@")]

    def file(self, m):
        return self.path.get(m, m)
