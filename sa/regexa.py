"""E-RE: regex analyses on the pattern AST (re._parser): conversion to an NFA/DFA over the 8-bit alphabet and language
inclusion.  Supported subset: literals, classes/ranges/negation, categories \\d \\w \\s (ASCII semantics), '.', groups,
alternation, greedy/lazy repeats with bounds, '^' at the start and '$' at the end ('$' also matches before a final newline)."""
from __future__ import annotations

import re._parser as sp

ALPHA = 256


class Unsupported(Exception):
    pass


def _cat(name):
    n = str(name)
    if n.endswith("CATEGORY_DIGIT"):
        return {c for c in range(ALPHA) if chr(c).isdigit() and c < 128}
    if n.endswith("CATEGORY_NOT_DIGIT"):
        return set(range(ALPHA)) - _cat("CATEGORY_DIGIT")
    if n.endswith("CATEGORY_WORD"):
        return {c for c in range(128) if chr(c).isalnum() or c == 95}
    if n.endswith("CATEGORY_NOT_WORD"):
        return set(range(ALPHA)) - _cat("CATEGORY_WORD")
    if n.endswith("CATEGORY_SPACE"):
        return {9, 10, 11, 12, 13, 32}
    if n.endswith("CATEGORY_NOT_SPACE"):
        return set(range(ALPHA)) - {9, 10, 11, 12, 13, 32}
    raise Unsupported(f"category {n}")


class NFA:
    def __init__(self):
        self.n = 0
        self.eps = {}
        self.tr = {}  # state -> list of (charset frozenset, target)

    def new(self):
        self.n += 1
        return self.n - 1

    def e(self, a, b):
        self.eps.setdefault(a, set()).add(b)

    def t(self, a, cs, b):
        self.tr.setdefault(a, []).append((frozenset(cs), b))


def _build(nfa, items, start):
    """returns the end state after matching the sequence"""
    cur = start
    for op, av in items:
        name = str(op)
        if name == "LITERAL":
            if av >= ALPHA:
                raise Unsupported("non 8-bit literal")
            nxt = nfa.new()
            nfa.t(cur, {av}, nxt)
            cur = nxt
        elif name == "NOT_LITERAL":
            nxt = nfa.new()
            nfa.t(cur, set(range(ALPHA)) - {av}, nxt)
            cur = nxt
        elif name == "ANY":
            nxt = nfa.new()
            nfa.t(cur, set(range(ALPHA)) - {10}, nxt)
            cur = nxt
        elif name == "IN":
            cs = set()
            neg = False
            for o2, a2 in av:
                n2 = str(o2)
                if n2 == "NEGATE":
                    neg = True
                elif n2 == "LITERAL":
                    cs.add(a2)
                elif n2 == "RANGE":
                    cs |= set(range(a2[0], min(a2[1], ALPHA - 1) + 1))
                elif n2 == "CATEGORY":
                    cs |= _cat(a2)
                else:
                    raise Unsupported(f"class item {n2}")
            if neg:
                cs = set(range(ALPHA)) - cs
            nxt = nfa.new()
            nfa.t(cur, {c for c in cs if c < ALPHA}, nxt)
            cur = nxt
        elif name == "SUBPATTERN":
            cur = _build(nfa, av[3], cur)
        elif name == "BRANCH":
            end = nfa.new()
            for br in av[1]:
                s = nfa.new()
                nfa.e(cur, s)
                e2 = _build(nfa, br, s)
                nfa.e(e2, end)
            cur = end
        elif name in ("MAX_REPEAT", "MIN_REPEAT"):
            lo, hi, sub = av
            for _ in range(lo):
                cur = _build(nfa, sub, cur)
            if str(hi) == "MAXREPEAT" or hi > 4096:
                s = nfa.new()
                nfa.e(cur, s)
                e2 = _build(nfa, sub, s)
                nfa.e(e2, s)
                cur = s
            else:
                end = nfa.new()
                nfa.e(cur, end)
                for _ in range(hi - lo):
                    cur = _build(nfa, sub, cur)
                    nfa.e(cur, end)
                cur = end
        elif name == "AT":
            raise Unsupported(f"anchor {av} inside the pattern")
        else:
            raise Unsupported(f"regex construct {name}")
    return cur


def to_dfa(pattern: str, method="match"):
    """DFA of the set of WHOLE strings s such that re.<method>(pattern, s) succeeds.
    match: the pattern may match a prefix unless it ends with '$'; fullmatch: whole string."""
    tree = list(sp.parse(pattern))
    anchored_start = bool(tree) and str(tree[0][0]) == "AT" and str(tree[0][1]).endswith("AT_BEGINNING")
    if anchored_start:
        tree = tree[1:]
    anchored_end = bool(tree) and str(tree[-1][0]) == "AT" and str(tree[-1][1]).endswith("AT_END")
    if anchored_end:
        tree = tree[:-1]
    nfa = NFA()
    s0 = nfa.new()
    end = _build(nfa, tree, s0)
    acc = nfa.new()
    if method == "fullmatch" or anchored_end:
        nfa.e(end, acc)
        if anchored_end and method != "fullmatch":
            nl = nfa.new()  # '$' also matches just before a trailing newline
            nfa.t(end, {10}, nl)
            nfa.e(nl, acc)
    else:
        nfa.e(end, acc)
        nfa.t(acc, set(range(ALPHA)), acc)  # anything may follow a prefix match
    if method == "search" and not anchored_start:
        nfa.t(s0, set(range(ALPHA)), s0)

    def closure(S):
        S = set(S)
        work = list(S)
        while work:
            x = work.pop()
            for y in nfa.eps.get(x, ()):
                if y not in S:
                    S.add(y)
                    work.append(y)
        return frozenset(S)

    start = closure({s0})
    states = {start: 0}
    trans = []
    accept = []
    work = [start]
    order = [start]
    while work:
        S = work.pop()
        row = {}
        # partition alphabet by behaviour
        for c in range(ALPHA):
            T = set()
            for x in S:
                for cs, y in nfa.tr.get(x, ()):
                    if c in cs:
                        T.add(y)
            T = closure(T) if T else frozenset()
            if T not in states:
                states[T] = len(states)
                order.append(T)
                work.append(T)
            row[c] = states[T]
        while len(trans) <= states[S]:
            trans.append(None)
            accept.append(False)
        trans[states[S]] = row
        accept[states[S]] = acc in S
        if len(states) > 20000:
            raise Unsupported("DFA too large")
    for S in order:
        i = states[S]
        while len(trans) <= i:
            trans.append(None)
            accept.append(False)
        if trans[i] is None:
            trans[i] = {c: i for c in range(ALPHA)}
            accept[i] = acc in S
    return trans, accept


def witness_not_included(a, b):
    """a, b = (trans, accept). Returns a string (bytes) in L(a) \\ L(b), or None if L(a) is included in L(b)."""
    ta, aa = a
    tb, ab = b
    start = (0, 0)
    seen = {start: None}
    work = [start]
    while work:
        nxt = []
        for st in work:
            x, y = st
            if aa[x] and not ab[y]:
                out = []
                cur = st
                while seen[cur] is not None:
                    prev, c = seen[cur]
                    out.append(c)
                    cur = prev
                return bytes(reversed(out))
            done = set()
            for c in range(ALPHA):
                t = (ta[x][c], tb[y][c])
                if t not in seen and t not in done:
                    seen[t] = (st, c)
                    nxt.append(t)
        work = nxt
    return None


# ------------------------------------------------------------------ catastrophic backtracking
def redos_witness(pattern: str):
    """a sub-pattern whose shape makes Python's backtracking matcher take exponential time on a non-matching subject: an unbounded repetition whose body contains
    another unbounded repetition over characters the body can also start with, followed only by optional items (`(\\d+x?)+`), or whose body can match the empty
    string (`(a*)*`).  Returns a description or None.  (A sufficient shape test, not a decision procedure for ambiguity.)"""
    import re
    try:
        import re._parser as sp
        import re._constants as sc
    except ImportError:  # pragma: no cover
        import sre_parse as sp
        import sre_constants as sc
    try:
        tree = sp.parse(pattern)
    except re.error:
        return None
    ALL = frozenset(range(128))

    def cat(c):
        n = str(c)
        base = {"CATEGORY_DIGIT": frozenset(range(48, 58)), "CATEGORY_SPACE": frozenset({9, 10, 11, 12, 13, 32}),
                "CATEGORY_WORD": frozenset(list(range(48, 58)) + list(range(65, 91)) + list(range(97, 123)) + [95])}
        for k, v in base.items():
            if n.endswith(k):
                return v
            if n.endswith(k.replace("CATEGORY_", "CATEGORY_NOT_")):
                return ALL - v
        return ALL

    def chars(item):
        op, av = item
        if op == sc.LITERAL:
            return frozenset({av}) & ALL
        if op == sc.NOT_LITERAL:
            return ALL - {av}
        if op == sc.ANY:
            return ALL - {10}
        if op == sc.CATEGORY:
            return cat(av)
        if op == sc.IN:
            out, neg = set(), False
            for o2, a2 in av:
                if o2 == sc.NEGATE:
                    neg = True
                elif o2 == sc.LITERAL:
                    out.add(a2)
                elif o2 == sc.RANGE:
                    out |= set(range(a2[0], min(a2[1], 127) + 1))
                elif o2 == sc.CATEGORY:
                    out |= cat(a2)
            return (ALL - out) if neg else frozenset(out) & ALL
        return None

    def seq_of(av):
        return list(av) if av is not None else []

    def nullable(item):
        op, av = item
        if op in (sc.MAX_REPEAT, sc.MIN_REPEAT):
            return av[0] == 0 or all(nullable(x) for x in seq_of(av[2]))
        if op == sc.SUBPATTERN:
            return all(nullable(x) for x in seq_of(av[3]))
        if op == sc.BRANCH:
            return any(all(nullable(x) for x in seq_of(alt)) for alt in av[1])
        if op == sc.AT:
            return True
        return False

    def first(items):
        out = set()
        for it in items:
            op, av = it
            if op in (sc.MAX_REPEAT, sc.MIN_REPEAT):
                out |= first(seq_of(av[2]))
            elif op == sc.SUBPATTERN:
                out |= first(seq_of(av[3]))
            elif op == sc.BRANCH:
                for alt in av[1]:
                    out |= first(seq_of(alt))
            else:
                c = chars(it)
                out |= (c if c is not None else set())
            if not nullable(it):
                break
        return out

    def flat(items):
        """top-level sequence with plain groups opened"""
        out = []
        for it in items:
            if it[0] == sc.SUBPATTERN:
                out += flat(seq_of(it[1][3]))
            else:
                out.append(it)
        return out

    def walk(items):
        for it in items:
            op, av = it
            if op in (sc.MAX_REPEAT, sc.MIN_REPEAT):
                lo, hi, sub = av
                body = flat(seq_of(sub))
                if hi == sc.MAXREPEAT or hi > 64:
                    if body and all(nullable(x) for x in body):
                        return "an unbounded repetition of a body that can match the empty string"
                    for k, inner in enumerate(body):
                        if inner[0] in (sc.MAX_REPEAT, sc.MIN_REPEAT) and (inner[1][1] == sc.MAXREPEAT or inner[1][1] > 64):
                            s_in = first(seq_of(inner[1][2]))
                            if all(nullable(x) for x in body[k + 1:]) and all(nullable(x) for x in body[:k]) | True and (first(body) & s_in):
                                if all(nullable(x) for x in body[k + 1:]):
                                    return "an unbounded repetition nested in an unbounded repetition, followed only by optional items, over overlapping characters (e.g. `(\\d+x?)+`)"
                r = walk(seq_of(sub))
                if r:
                    return r
            elif op == sc.SUBPATTERN:
                r = walk(seq_of(av[3]))
                if r:
                    return r
            elif op == sc.BRANCH:
                for alt in av[1]:
                    r = walk(seq_of(alt))
                    if r:
                        return r
        return None
    return walk(list(tree))
