"""E-RE: regex analyses on the pattern AST (re._parser): conversion to an NFA/DFA over the 8-bit alphabet and language
inclusion.  Supported subset: literals, classes/ranges/negation, categories \\d \\w \\s (ASCII semantics), '.', groups,
alternation, greedy/lazy repeats with bounds, '^' at the start and '$' at the end ('$' also matches before a final newline)."""
from __future__ import annotations

import re._parser as sp

ALPHA = 256


class Unsupported(Exception):
    pass


def _cat(name):
    n = str(name)
    if n.endswith("CATEGORY_DIGIT"):
        return {c for c in range(ALPHA) if chr(c).isdigit() and c < 128}
    if n.endswith("CATEGORY_NOT_DIGIT"):
        return set(range(ALPHA)) - _cat("CATEGORY_DIGIT")
    if n.endswith("CATEGORY_WORD"):
        return {c for c in range(128) if chr(c).isalnum() or c == 95}
    if n.endswith("CATEGORY_NOT_WORD"):
        return set(range(ALPHA)) - _cat("CATEGORY_WORD")
    if n.endswith("CATEGORY_SPACE"):
        return {9, 10, 11, 12, 13, 32}
    if n.endswith("CATEGORY_NOT_SPACE"):
        return set(range(ALPHA)) - {9, 10, 11, 12, 13, 32}
    raise Unsupported(f"category {n}")


class NFA:
    def __init__(self):
        self.n = 0
        self.eps = {}
        self.tr = {}  # state -> list of (charset frozenset, target)

    def new(self):
        self.n += 1
        return self.n - 1

    def e(self, a, b):
        self.eps.setdefault(a, set()).add(b)

    def t(self, a, cs, b):
        self.tr.setdefault(a, []).append((frozenset(cs), b))


def _build(nfa, items, start):
    """returns the end state after matching the sequence"""
    cur = start
    for op, av in items:
        name = str(op)
        if name == "LITERAL":
            if av >= ALPHA:
                raise Unsupported("non 8-bit literal")
            nxt = nfa.new()
            nfa.t(cur, {av}, nxt)
            cur = nxt
        elif name == "NOT_LITERAL":
            nxt = nfa.new()
            nfa.t(cur, set(range(ALPHA)) - {av}, nxt)
            cur = nxt
        elif name == "ANY":
            nxt = nfa.new()
            nfa.t(cur, set(range(ALPHA)) - {10}, nxt)
            cur = nxt
        elif name == "IN":
            cs = set()
            neg = False
            for o2, a2 in av:
                n2 = str(o2)
                if n2 == "NEGATE":
                    neg = True
                elif n2 == "LITERAL":
                    cs.add(a2)
                elif n2 == "RANGE":
                    cs |= set(range(a2[0], min(a2[1], ALPHA - 1) + 1))
                elif n2 == "CATEGORY":
                    cs |= _cat(a2)
                else:
                    raise Unsupported(f"class item {n2}")
            if neg:
                cs = set(range(ALPHA)) - cs
            nxt = nfa.new()
            nfa.t(cur, {c for c in cs if c < ALPHA}, nxt)
            cur = nxt
        elif name == "SUBPATTERN":
            cur = _build(nfa, av[3], cur)
        elif name == "BRANCH":
            end = nfa.new()
            for br in av[1]:
                s = nfa.new()
                nfa.e(cur, s)
                e2 = _build(nfa, br, s)
                nfa.e(e2, end)
            cur = end
        elif name in ("MAX_REPEAT", "MIN_REPEAT"):
            lo, hi, sub = av
            for _ in range(lo):
                cur = _build(nfa, sub, cur)
            if str(hi) == "MAXREPEAT" or hi > 4096:
                s = nfa.new()
                nfa.e(cur, s)
                e2 = _build(nfa, sub, s)
                nfa.e(e2, s)
                cur = s
            else:
                end = nfa.new()
                nfa.e(cur, end)
                for _ in range(hi - lo):
                    cur = _build(nfa, sub, cur)
                    nfa.e(cur, end)
                cur = end
        elif name == "AT":
            raise Unsupported(f"anchor {av} inside the pattern")
        else:
            raise Unsupported(f"regex construct {name}")
    return cur


def to_dfa(pattern: str, method="match"):
    """DFA of the set of WHOLE strings s such that re.<method>(pattern, s) succeeds.
    match: the pattern may match a prefix unless it ends with '$'; fullmatch: whole string."""
    tree = list(sp.parse(pattern))
    anchored_start = bool(tree) and str(tree[0][0]) == "AT" and str(tree[0][1]).endswith("AT_BEGINNING")
    if anchored_start:
        tree = tree[1:]
    anchored_end = bool(tree) and str(tree[-1][0]) == "AT" and str(tree[-1][1]).endswith("AT_END")
    if anchored_end:
        tree = tree[:-1]
    nfa = NFA()
    s0 = nfa.new()
    end = _build(nfa, tree, s0)
    acc = nfa.new()
    if method == "fullmatch" or anchored_end:
        nfa.e(end, acc)
        if anchored_end and method != "fullmatch":
            nl = nfa.new()  # '$' also matches just before a trailing newline
            nfa.t(end, {10}, nl)
            nfa.e(nl, acc)
    else:
        nfa.e(end, acc)
        nfa.t(acc, set(range(ALPHA)), acc)  # anything may follow a prefix match
    if method == "search" and not anchored_start:
        nfa.t(s0, set(range(ALPHA)), s0)

    def closure(S):
        S = set(S)
        work = list(S)
        while work:
            x = work.pop()
            for y in nfa.eps.get(x, ()):
                if y not in S:
                    S.add(y)
                    work.append(y)
        return frozenset(S)

    start = closure({s0})
    states = {start: 0}
    trans = []
    accept = []
    work = [start]
    order = [start]
    while work:
        S = work.pop()
        row = {}
        # partition alphabet by behaviour
        for c in range(ALPHA):
            T = set()
            for x in S:
                for cs, y in nfa.tr.get(x, ()):
                    if c in cs:
                        T.add(y)
            T = closure(T) if T else frozenset()
            if T not in states:
                states[T] = len(states)
                order.append(T)
                work.append(T)
            row[c] = states[T]
        while len(trans) <= states[S]:
            trans.append(None)
            accept.append(False)
        trans[states[S]] = row
        accept[states[S]] = acc in S
        if len(states) > 20000:
            raise Unsupported("DFA too large")
    for S in order:
        i = states[S]
        while len(trans) <= i:
            trans.append(None)
            accept.append(False)
        if trans[i] is None:
            trans[i] = {c: i for c in range(ALPHA)}
            accept[i] = acc in S
    return trans, accept


def witness_not_included(a, b):
    """a, b = (trans, accept). Returns a string (bytes) in L(a) \\ L(b), or None if L(a) is included in L(b)."""
    ta, aa = a
    tb, ab = b
    start = (0, 0)
    seen = {start: None}
    work = [start]
    while work:
        nxt = []
        for st in work:
            x, y = st
            if aa[x] and not ab[y]:
                out = []
                cur = st
                while seen[cur] is not None:
                    prev, c = seen[cur]
                    out.append(c)
                    cur = prev
                return bytes(reversed(out))
            done = set()
            for c in range(ALPHA):
                t = (ta[x][c], tb[y][c])
                if t not in seen and t not in done:
                    seen[t] = (st, c)
                    nxt.append(t)
        work = nxt
    return None
