"""C16 - Readers resynchronise after noise with bounded loss (level: other).

R1 per-frame state of the HDLC reader (pending escape, raw-octet history) never leaks into the next frame (typestate over the
abstract automaton induced by the decision table); R2 discard rows abandon the frame completely and emit nothing; hunt-mode
skipping goes to the *next* flag (buffer contract); R3 P1: end line and guard trip return to hunt mode and clear the collected lines,
hunt rows ignore everything that is not an identification line.
"""
from __future__ import annotations

from sa.hdlcmodel import HdlcModel, loc
from sa.hdlcref import buffer_contracts as hdlc_buffer, conformance as hdlc_conf, fresh_only_at_flag, leak_typestate
from sa import p1model
from sa.props.c02 import emit as emit_h
from sa.props.c05 import emit as emit_p

LEVEL = "other"


def check(src, rep):
    m = HdlcModel(src)
    rep.count("modules", len(src.text))
    rep.count("hdlc_step_paths", len(m.paths))
    rep.explanation = ("Decided: (HDLC) a typestate exploration of the abstract automaton (mode x pending-escape source x raw-history source) derived from the decision table shows that "
                       "state set while reading one frame is never consumed by the next one; the too-short, abort and over-long rows emit nothing and leave no partial frame; skipping in "
                       "hunt mode stops at the next flag. (P1) the end-line row and the guard's trip path clear the collected lines and return to hunt mode, and the hunt rows ignore "
                       "everything but identification lines. The length guard's threshold is at most 2047 (necessary for the stated loss bound). NOT decided: the full quantitative loss bounds ('except possibly the first', 'plus one frame length').")
    rep.assumptions += ["reference automata of sa/hdlcref.py and sa/p1model.py"]
    res, nstates = leak_typestate(m)
    rep.count("abstract_states", nstates)
    emit_h(rep, m, res, {"leak": "R1"})
    conf = hdlc_conf(m)
    emit_h(rep, m, [r for r in conf if r.instance in ("too-short", "abort", "start", "hunt")], {"row": "R2"})
    # over-long rows: every extension path with the guard true discards
    n = 0
    for sp in m.paths:
        if m.feasible(sp) and sp.lits.get("M1"):
            n += 1
            if sp.post.emitted or sp.post.frame not in ("none", "fresh"):
                rep.violation("R2", "hdlc.HdlcFrameReader.read", "row:over-long", "an over-long frame is not abandoned completely", m.file, loc(m, sp), witness=f"[{sp.guard_text()}] => {sp.post.brief()}")
    if n:
        rep.ok("R2", "over-long rows", f"{n} path(s): length guard true => nothing emitted, current frame dropped")
    # the bound of the statement: a frame begun inside noise swallows at most 2047 octets before the length guard abandons it
    thr = sorted({sp.m_thresholds[k] for sp in m.paths for k in sp.m_thresholds})
    for t in thr:
        if t > 2047:
            rep.violation("R2", "hdlc.HdlcFrameReader.read", "loss-bound", f"a frame begun inside noise is abandoned only after {t} octets: clean frames starting more than 2047 octets plus one frame length "
                          "after the noise are still swallowed (reader without octet stuffing)", m.file, m.read_fn.node.lineno, witness=f"length guard admits <= {t} octets; the statement's bound is 2047")
    if thr and all(t <= 2047 for t in thr):
        rep.ok("R2", "loss bound", f"length guard threshold(s) {thr}: a frame begun inside noise is abandoned after at most 2047 octets")
    emit_h(rep, m, fresh_only_at_flag(m), {"start-at-flag": "R2"})
    from sa.hdlcref import raw_history_values
    emit_h(rep, m, raw_history_values(m), {"raw-value": "R2"})
    from sa.hdlcref import skeleton as hdlc_skeleton
    emit_h(rep, m, [r for r in hdlc_skeleton(m) if r.tag == "hunt-trim"], {"hunt-trim": "R2"})
    emit_h(rep, m, [r for r in hdlc_buffer(m) if r.instance in ("trim-to-flag", "trim-to-position", "pop")], {"buffer": "R2"})
    # discard rows must not leave the reader in a frame that swallows the following traffic: frame' = none (hunt) or fresh
    p = p1model.P1Model(src)
    rep.count("p1_step_paths", len(p.paths))
    pc = p1model.conformance(p)
    emit_p(rep, p, [r for r in pc if r.instance in ("end", "ignore-nonslash", "ignore-nonident", "ident")], {"row": "R3"})
    emit_p(rep, p, [r for r in p1model.exit_and_guard(p) if r.tag in ("trip", "exit", "unconsumed", "limit")], {"trip": "R3", "exit": "R3", "unconsumed": "R3", "limit": "R3"})
    emit_p(rep, p, [r for r in p1model.buffer_contracts(p) if r.instance in ("trim-to-start", "pop")], {"buffer": "R3"})
    emit_p(rep, p, [r for r in p1model.skeleton(p) if r.tag in ("hunt-trim", "skeleton")], {"hunt-trim": "R3", "skeleton": "R3"})
    from sa.cross import include
    include(rep, src, "C02", {"R1", "R2", "R3", "R5"}, "R2", "every subsequent well-formed frame is delivered (the reader step refines the reference automaton; the maximum frame is admitted; the header fields the end-of-frame decision relies on are the transmitted ones)")
    include(rep, src, "C14", {"R1"}, "R3", "read() never raises on noise (an exception half-way through a step leaves per-readout / per-frame state behind and the reader does not recover)",
            at_prefix=("hdlc.", "dlde."))
    rep.floor("abstract states explored", nstates, 4)


def thorough(src, rep):
    from sa.selfval.harness import run_selfval
    run_selfval("C16", src, rep)
