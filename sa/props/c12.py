"""C12 - AutoDecoder picks a decoder that accepts the message, across any history (level: other; partial).

R1 rotation: for every remembered index the loop tries each table entry exactly once, starting with the remembered one (the index
expressions are extracted and tabulated for all remembered values); R2 first acceptor wins, memory written only on success with the
table index of the decoder that succeeded; R3 previous_success_decoder; R4 table integrity (E-CONST); R5 decode_message agrees with
decode_message_payload up to the P1 whole-readout case; R6 Aidon bodies start with a different tag octet than Kaifa/Kamstrup ones (E-CONS).
NOT decided: that each genuine message is rejected by every decoder tried before its own (grammar language emptiness).
"""
from __future__ import annotations

import ast

from sa.consteval import ConstEval, FuncRef, NotConstant
from sa.model import Model
from sa.paths import Engine, Path, show_sv, strip_epoch
from sa.props.c13 import Walker, _after_enter, attr_of
from sa.report import Undecided
from sa.sveval import CannotEval, ev

LEVEL = "other"
MOD = "autodecoder"
CLS = (MOD, "AutoDecoder")
SELF = ("self0",)
EXPECT = {
    "Aidon_frame": ("aidon", "decode_frame_content"), "Kaifa_frame": ("kaifa", "decode_frame_content"), "Kamstrup_frame": ("kamstrup", "decode_frame_content"),
    "P1": ("dlde", "decode_p1_readout_content"),
    "Aidon_notification_body": ("aidon", "decode_notification_body"), "Kaifa_notification_body": ("kaifa", "decode_notification_body"),
    "Kamstrup_notification_body": ("kamstrup", "decode_notification_body"),
}


def _mentions(sv, pred):
    if isinstance(sv, tuple):
        if pred(sv):
            return True
        return any(_mentions(x, pred) for x in sv if isinstance(x, tuple))
    return False


def check(src, rep):
    M = Model(src)
    ce = ConstEval(M)
    file = src.file(MOD)
    rep.count("modules", len(src.text))
    C = M.classes.get(CLS)
    rep.require(C is not None, "anchor vanished: autodecoder.AutoDecoder")
    for n in ("decode_message_payload", "decode_message", "previous_success_decoder"):
        rep.require(n in C.methods, f"anchor vanished: AutoDecoder.{n}")
    rep.assumptions += ["a decoder 'accepts' a message when it returns normally; it rejects by raising a class named in the except clause (C15 checks nothing else escapes)"]
    rep.explanation = ("Decided: for every possible remembered index the rotation loop tries each of the table entries exactly once beginning with the remembered one (index expressions "
                       "extracted by E-PATH, tabulated for all remembered values); the remembered index is written only on the path where the decoder call returned, with the table index of "
                       "that decoder, immediately followed by returning its result; the handler path neither returns nor writes; None only after the loop; the name property reads the table at "
                       "the remembered index; the table pairs each name with the matching module/function (E-CONST); decode_message is the same loop with the one permitted P1 difference. "
                       "NOT decided (honest not-applicable for this clause): that a genuine message of one meter is rejected by every decoder tried before its own.")
    # ---------------------------------------------------------------- R4: table
    try:
        table = ce.class_const(CLS[0], CLS[1], "payload_decoder_functions")
    except NotConstant as e:
        raise Undecided(f"decoder table is not a constant: {e}")
    n = len(table)
    bad = 0
    names = []
    for i, ent in enumerate(table):
        if not (isinstance(ent, tuple) and len(ent) == 2 and isinstance(ent[0], str) and isinstance(ent[1], FuncRef)):
            raise Undecided(f"table entry {i} is not (name, function)")
        name, fr = ent
        names.append(name)
        want = EXPECT.get(name)
        if want is None:
            pref = name.split("_")[0].lower()
            suf = "decode_frame_content" if name.endswith("_frame") else "decode_notification_body" if name.endswith("_notification_body") else None
            want = (pref, suf) if suf else None
        got = (fr.mod, fr.node.name)
        if want is None or got != want:
            bad += 1
            rep.violation("R4", f"{MOD}.AutoDecoder", f"table-entry:{name}", f"decoder table pairs the name '{name}' with {got[0]}.{got[1]}" + (f" instead of {want[0]}.{want[1]}" if want else ""),
                          file, C.node.lineno)
    if len(set(names)) != len(names):
        bad += 1
        rep.violation("R4", f"{MOD}.AutoDecoder", "table-duplicate-name", "two table entries share a name", file, C.node.lineno)
    missing = [k for k in EXPECT if k not in names]
    if missing:
        bad += 1
        rep.violation("R4", f"{MOD}.AutoDecoder", "table-missing", f"decoder(s) missing from the table: {missing}", file, C.node.lineno)
    if not bad:
        rep.ok("R4", f"decoder table ({n} entries)", "every name's meter prefix and frame/notification_body/P1 suffix agree with the module and function it is paired with")
    rep.count("table_entries", n)

    # field holding the remembered index
    mem = [a for a in C.field_inits]
    rep.require(len(mem) == 1, f"AutoDecoder has fields {mem}; cannot bind the remembered-index field")
    MEM = mem[0]
    MEMF = ("f0", SELF, MEM)
    TABLE = ("f0", ("class", CLS), "payload_decoder_functions")
    tab_val = [(nm, ("fn", i)) for i, (nm, _) in enumerate(table)]

    summaries = {}
    for mname in ("decode_message_payload", "decode_message"):
        fn = C.methods[mname]
        E = Engine(M)
        W = Walker(E, fn)
        loops = []
        ends = W.walk(fn.node.body, [Path()], loops)
        at = f"{MOD}.AutoDecoder.{mname}"
        if not loops or len({id(l.node) for l in loops}) != 1 or any(l.children for l in loops):
            raise Undecided(f"{mname} is not a single rotation loop")
        L = loops[0]
        all_recs = loops
        # writes / decoder calls outside the loop
        for p in ends:
            for e in p.effects:
                if e[0] == "write" and e[1] == SELF and e[2] == MEM:
                    rep.violation("R2", at, "memory-write-outside-success", "the remembered decoder index is written outside the success path of a decoder call "
                                  "(previous_success_decoder changes although nobody accepted the payload)", file, e[-1], witness=f"{MEM} := {show_sv(e[3])[:60]}")
                if e[0] == "calldyn" or (e[0] == "call" and "decode" in str(e[1])):
                    rep.violation("R1", at, "decoder-call-outside-loop", "a decoder is called outside the rotation loop (its exceptions and its result bypass the first-acceptor-wins protocol)", file, e[-1],
                                  witness=show_sv(e)[:100])
            if p.status == "return" and p.ret not in (None, ("c", None)) and any(e[0] == "loop-ref" for e in p.effects):
                rep.violation("R2", at, "return-after-loop", "after the loop is exhausted something other than None is returned", file, fn.node.lineno, witness=show_sv(p.ret)[:80])
        def own_exc(p, rec):
            return any(g[0] == "exc" for g, _, _ in p.guards[len(rec.entry.guards):])
        succ = [p for rec in all_recs for p in rec.body if not own_exc(p, rec)]
        hand = [p for rec in all_recs for p in rec.body if own_exc(p, rec)]
        rec_of = {id(p): rec for rec in all_recs for p in rec.body}
        handler_classes = sorted({g[1] for p in hand for g, _, _ in p.guards if g[0] == "exc"})
        callees = []
        okp = True
        for p in succ:
            eff = [e for e in p.effects[_after_enter(p):] if e[0] in ("calldyn", "call", "callm", "write")]
            calls = [e for e in eff if e[0] in ("calldyn",) or (e[0] in ("call", "callm") and "decode" in str(e[1] if e[0] == "call" else e[2]))]
            writes = [e for e in eff if e[0] == "write" and e[2] == MEM]
            if len(calls) != 1 or len(writes) != 1 or p.status != "return":
                okp = False
                rep.violation("R2", at, "success-path-shape", "the success path is not `call the decoder; remember its index; return its result`", file, fn.node.lineno,
                              witness=f"{len(calls)} decoder call(s), {len(writes)} memory write(s), status {p.status}")
                continue
            call, wr = calls[0], writes[0]
            if eff.index(wr) < eff.index(call):
                okp = False
                rep.violation("R2", at, "memory-before-call", "the index is remembered before the decoder has accepted the payload", file, wr[-1])
            rv = p.ret
            if not _mentions(rv, lambda s: s == call or (s[0] == call[0] and s[1:3] == call[1:3])):
                okp = False
                rep.violation("R2", at, "returns-other-value", "the value returned on success is not the result of the decoder call", file, fn.node.lineno, witness=show_sv(rv)[:80])
            callees.append((p, call, wr))
        for p in hand:
            if p.status != "run" or any(e[0] == "write" and e[2] == MEM for e in p.effects[_after_enter(p):]):
                okp = False
                rep.violation("R2", at, "handler-path", "the rejection handler returns or writes the remembered index instead of moving on to the next decoder", file, fn.node.lineno, witness=p.status)
        if not succ or not hand:
            raise Undecided(f"{mname}: cannot find success and handler paths of the decoder call")
        if okp:
            rep.ok("R2", mname, "success path = decoder call, then remember, then return that result; handler path continues with the next decoder without writing; None only after the loop")
        # ---------------------------------------------------------------- R1: rotation tabulated for every remembered value
        prevs = [None] + list(range(n))
        bad1 = None
        cells = 0
        payload_p = [("p", a) for a in fn.params]
        for prev in prevs:
          covered = False
          for rec in all_recs:
            env0 = {MEMF: prev, TABLE: tab_val}
            feasible = True
            for g, pol, _ in rec.entry.guards:
                try:
                    if bool(ev(g, env0)) != pol:
                        feasible = False
                        break
                except CannotEval:
                    pass  # a condition on the input (e.g. message.payload): both ways possible
            if not feasible:
                continue
            covered = True
            try:
                elems = ev(rec.iter_sv, env0)
            except CannotEval as e:
                raise Undecided(f"{mname}: loop iterable outside the evaluable subset ({e})")
            tried = []
            for x in elems:
                env = dict(env0)
                env[rec.var] = x
                idxs = set()
                for p, call, wr in [c for c in callees if rec_of.get(id(c[0])) is rec]:
                    # skip success paths whose own guards exclude this element (e.g. the P1 special case) -- guards are evaluated when possible
                    try:
                        callee = call[1] if call[0] == "calldyn" else None
                        if callee is None:
                            continue
                        fnv = ev(callee, env)
                        stored = ev(wr[3], env)
                    except CannotEval as e:
                        raise Undecided(f"{mname}: index expression outside the evaluable subset ({e})")
                    if not (isinstance(fnv, tuple) and fnv and fnv[0] == "fn"):
                        raise Undecided(f"{mname}: decoder callee does not come from the table")
                    idxs.add(fnv[1])
                    cells += 1
                    if stored != fnv[1] and bad1 is None:
                        bad1 = ("stored-index", prev, f"decoder #{fnv[1]} ({names[fnv[1]]}) succeeds but index {stored} is remembered"
                                f" ({names[stored] if isinstance(stored, int) and 0 <= stored < n else '?'})")
                if len(idxs) != 1:
                    raise Undecided(f"{mname}: an iteration can call different table entries")
                tried.append(idxs.pop())
            start = prev if prev else 0
            if bad1 is None and (sorted(tried) != list(range(n)) or tried[0] != start):
                miss = [names[i] for i in range(n) if i not in tried]
                bad1 = ("rotation", prev, f"tries {tried} (expected a rotation of 0..{n-1} starting at {start})" + (f"; never tried: {miss}" if miss else ""))
          if not covered:
            raise Undecided(f"{mname}: no loop entry path is feasible for remembered={prev}")
        rep.count("rotation_cells", cells)
        if bad1:
            key, prev, txt = bad1
            rep.violation("R1" if key == "rotation" else "R2", at, key, "with a remembered decoder the loop does not try every decoder once starting with the remembered one" if key == "rotation"
                          else "the index remembered on success is not the table index of the decoder that succeeded", file, L.node.lineno, witness=f"remembered={prev}: {txt}")
        else:
            rep.ok("R1", f"{mname} rotation", f"for each of the {len(prevs)} remembered values the loop calls table entries (start, start+1, ..., wrapping) - a bijection on the {n} entries; the stored index is the callee's own index")
        summaries[mname] = (L, callees, handler_classes, fn)
    # ---------------------------------------------------------------- R5: sibling agreement
    Lp, cp, hp, fp = summaries["decode_message_payload"]
    Lm, cm, hm, fm = summaries["decode_message"]
    if hp != hm:
        rep.violation("R5", f"{MOD}.AutoDecoder.decode_message", "handler-classes", "the two decode methods reject on different exception classes", file, fm.node.lineno, witness=f"{hp} vs {hm}")
    msg = ("p", fm.params[0])
    pay = ("p", fp.params[0])
    ok5 = True
    # argument of the table decoder
    for p, call, wr in cp:
        if call[2] != (pay,):
            ok5 = False
            rep.violation("R5", f"{MOD}.AutoDecoder.decode_message_payload", "decoder-argument", "the decoder is not called with the payload", file, fp.node.lineno, witness=show_sv(call)[:80])
    for p, call, wr in cm:
        a = call[2]
        if not (len(a) == 1 and attr_of(strip_epoch(a[0])) == (msg, "payload")):
            ok5 = False
            rep.violation("R5", f"{MOD}.AutoDecoder.decode_message", "decoder-argument", "decode_message does not hand message.payload to the table decoder (results differ from decode_message_payload)",
                          file, fm.node.lineno, witness=show_sv(call)[:100])
        # returned value: ite(name == 'P1' and isinstance(message, DataReadout), decode_p1_readout(message), decoder(payload)) or the plain call
        rv = p.ret
        if rv[0] == "ite":
            cond, a1, a2 = rv[1], rv[2], rv[3]
            ctext = show_sv(cond)
            is_p1 = "'P1'" in ctext and "isinstance" in ctext and "DataReadout" in ctext
            whole = _mentions(a1, lambda s: s[0] == "call" and "decode_p1_readout" in str(s[1]) and "content" not in str(s[1]))
            if not (is_p1 and whole):
                ok5 = False
                rep.violation("R5", f"{MOD}.AutoDecoder.decode_message", "special-case", "decode_message deviates from the payload loop for something other than a P1 DataReadout", file, fm.node.lineno, witness=ctext[:120])
    # early exit on empty payload
    fr_paths = Engine(M).run(fm)
    early = [p for p in fr_paths if p.status == "return" and not any(e[0] == "loop" for e in p.effects)]
    if len(early) == 1 and early[0].ret == ("c", None) and len(early[0].guards) == 1 and attr_of(strip_epoch(early[0].guards[0][0])) == (msg, "payload") and early[0].guards[0][1] is False:
        pass
    elif early:
        ok5 = False
        rep.violation("R5", f"{MOD}.AutoDecoder.decode_message", "early-exit", "decode_message returns early on a condition other than an empty/absent payload", file, fm.node.lineno)
    if strip_epoch(Lp.iter_sv) != strip_epoch(Lm.iter_sv) and (Lp.iter_sv[0:2] != Lm.iter_sv[0:2]):
        ok5 = False
        rep.violation("R5", f"{MOD}.AutoDecoder.decode_message", "different-loop", "the two decode methods iterate differently", file, fm.node.lineno)
    if ok5 and hp == hm:
        rep.ok("R5", "decode_message vs decode_message_payload", "same rotation, same handler classes, decoder(message.payload); the only difference is the whole-readout decoder for the 'P1' entry and a DataReadout; empty payload -> None")
    # ---------------------------------------------------------------- R3
    fn = C.methods["previous_success_decoder"]
    ps = Engine(M).run(fn)
    ok3 = len(ps) == 2
    for p in ps:
        isnone = None
        for g, pol, _ in p.guards:
            if g[0] == "cmp" and g[1] == "Is" and g[2] == MEMF and g[3] == ("c", None):
                isnone = pol
        if isnone is True:
            ok3 = ok3 and p.ret == ("c", None)
        elif isnone is False:
            ok3 = ok3 and p.ret == ("sub", ("sub", TABLE, MEMF), ("c", 0))
        else:
            ok3 = False
    if ok3:
        rep.ok("R3", "previous_success_decoder", "name at the remembered index; None when nothing was remembered")
    else:
        rep.violation("R3", f"{MOD}.AutoDecoder.previous_success_decoder", "name-lookup", "previous_success_decoder does not read the name at the remembered index", file, fn.node.lineno,
                      witness="; ".join(show_sv(p.ret)[:60] if p.ret else "None" for p in ps))
    # ---------------------------------------------------------------- R6: first-octet discrimination (E-CONS)
    try:
        from sa.consir import World, first_octets
        w = World(src)
        fo = {}
        for mod in ("aidon", "kaifa", "kamstrup"):
            g = w.module(mod).env.get("NotificationBody")
            fo[mod] = first_octets(g) if g is not None else None
        if None in fo.values() or any(v is None for v in fo.values()):
            rep.undecide("R6 first-octet sets could not be derived")
        elif fo["aidon"] & (fo["kaifa"] | fo["kamstrup"]):
            rep.violation("R6", "aidon.NotificationBody", "first-octet", "an Aidon body and a Kaifa/Kamstrup body can start with the same tag octet", src.file("aidon"), 1, witness=str(fo))
        else:
            rep.ok("R6", "first-octet sets", f"Aidon bodies start with {sorted(fo['aidon'])}, Kaifa with {sorted(fo['kaifa'])}, Kamstrup with {sorted(fo['kamstrup'])}: disjoint from Aidon")
    except ImportError:
        rep.notes.append("R6 not evaluated (E-CONS first_octets unavailable)")
    rep.floor("rotation cells", rep.analysed.get("rotation_cells", 0), 2 * n)


def thorough(src, rep):
    from sa.selfval.harness import run_selfval
    run_selfval("C12", src, rep)
