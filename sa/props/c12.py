"""C12 - AutoDecoder picks a decoder that accepts the message, across any history (level: other; partial).

R1 rotation: for every remembered index the loop tries each table entry exactly once, starting with the remembered one (the index
expressions are extracted and tabulated for all remembered values); R2 first acceptor wins, memory written only on success with the
table index of the decoder that succeeded; R3 previous_success_decoder; R4 table integrity (E-CONST); R5 decode_message agrees with
decode_message_payload up to the P1 whole-readout case; R6 Aidon bodies start with a different tag octet than Kaifa/Kamstrup ones (E-CONS).
NOT decided: that each genuine message is rejected by every decoder tried before its own (grammar language emptiness).
"""
from __future__ import annotations

import ast

from sa.consteval import ConstEval, FuncRef, NotConstant
from sa.model import Model
from sa.paths import Engine, Path, show_sv, strip_epoch
from sa.props.c13 import Walker, _after_enter, attr_of
from sa.report import Undecided
from sa.sveval import CannotEval, ev

LEVEL = "other"
MOD = "autodecoder"
CLS = (MOD, "AutoDecoder")
SELF = ("self0",)
EXPECT = {
    "Aidon_frame": ("aidon", "decode_frame_content"), "Kaifa_frame": ("kaifa", "decode_frame_content"), "Kamstrup_frame": ("kamstrup", "decode_frame_content"),
    "P1": ("dlde", "decode_p1_readout_content"),
    "Aidon_notification_body": ("aidon", "decode_notification_body"), "Kaifa_notification_body": ("kaifa", "decode_notification_body"),
    "Kamstrup_notification_body": ("kamstrup", "decode_notification_body"),
}


def _mentions(sv, pred):
    if isinstance(sv, tuple):
        if pred(sv):
            return True
        return any(_mentions(x, pred) for x in sv if isinstance(x, tuple))
    return False


def check(src, rep):
    M = Model(src)
    from sa.oneshot import rule as _one_shot
    _one_shot(rep, M, src, ("autodecoder",), "R1")
    ce = ConstEval(M)
    file = src.file(MOD)
    rep.count("modules", len(src.text))
    C = M.classes.get(CLS)
    rep.require(C is not None, "anchor vanished: autodecoder.AutoDecoder")
    for n in ("decode_message_payload", "decode_message", "previous_success_decoder"):
        rep.require(n in C.methods, f"anchor vanished: AutoDecoder.{n}")
    rep.assumptions += ["a decoder 'accepts' a message when it returns normally; it rejects by raising a class named in the except clause (C15 checks nothing else escapes)"]
    rep.explanation = ("Decided: for every possible remembered index the rotation loop tries each of the table entries exactly once beginning with the remembered one (index expressions "
                       "extracted by E-PATH, tabulated for all remembered values); the remembered index is written only on the path where the decoder call returned, with the table index of "
                       "that decoder, immediately followed by returning its result; the handler path neither returns nor writes; None only after the loop; the name property reads the table at "
                       "the remembered index; the table pairs each name with the matching module/function (E-CONST); decode_message is the same loop with the one permitted P1 difference. "
                       "NOT decided (honest not-applicable for this clause): that a genuine message of one meter is rejected by every decoder tried before its own.")
    # ---------------------------------------------------------------- R4: table
    try:
        table = ce.class_const(CLS[0], CLS[1], "payload_decoder_functions")
    except NotConstant as e:
        raise Undecided(f"decoder table is not a constant: {e}")
    n = len(table)
    bad = 0
    names = []
    for i, ent in enumerate(table):
        if not (isinstance(ent, tuple) and len(ent) == 2 and isinstance(ent[0], str) and isinstance(ent[1], FuncRef)):
            raise Undecided(f"table entry {i} is not (name, function)")
        name, fr = ent
        names.append(name)
        want = EXPECT.get(name)
        if want is None:
            pref = name.split("_")[0].lower()
            suf = "decode_frame_content" if name.endswith("_frame") else "decode_notification_body" if name.endswith("_notification_body") else None
            want = (pref, suf) if suf else None
        got = (fr.mod, fr.node.name)
        if want is None or got != want:
            bad += 1
            rep.violation("R4", f"{MOD}.AutoDecoder", f"table-entry:{name}", f"decoder table pairs the name '{name}' with {got[0]}.{got[1]}" + (f" instead of {want[0]}.{want[1]}" if want else ""),
                          file, C.node.lineno)
    if len(set(names)) != len(names):
        bad += 1
        rep.violation("R4", f"{MOD}.AutoDecoder", "table-duplicate-name", "two table entries share a name", file, C.node.lineno)
    missing = [k for k in EXPECT if k not in names]
    if missing:
        bad += 1
        rep.violation("R4", f"{MOD}.AutoDecoder", "table-missing", f"decoder(s) missing from the table: {missing}", file, C.node.lineno)
    if not bad:
        rep.ok("R4", f"decoder table ({n} entries)", "every name's meter prefix and frame/notification_body/P1 suffix agree with the module and function it is paired with")
    rep.count("table_entries", n)

    # ---------------------------------------------------------------- R1-R3, R5: the transition function of the AutoDecoder, tabulated (E-ABS)
    # state = the remembered index; input = which table decoders accept the payload (and with what); the decoders themselves are oracles
    from sa.abseval import AbsEval, AObj, AbsRaise, Sym
    from sa.sveval import Res
    p1_idx = names.index("P1") if "P1" in names else None
    REJECT = ["ValueError", "ConstructError", "StreamError", "ConstError", "CheckError", "SelectError", "ExplicitError"]
    state = {"accept": set(), "calls": []}

    def make_oracle(k):
        def oracle(args, kw):
            state["calls"].append((k, tuple(args)))
            if k in state["accept"]:
                return {} if k % 3 == 2 else Res("result", k)  # an accepting decoder may return an empty dictionary
            raise AbsRaise(REJECT[(k + len(state["accept"])) % len(REJECT)])
        return oracle

    def whole_p1(args, kw):
        state["calls"].append(("p1-whole", tuple(args)))
        if p1_idx in state["accept"]:
            return Res("result-p1-whole")
        raise AbsRaise("ValueError")

    AE = AbsEval(M)
    for k, (nm, fr) in enumerate(table):
        AE.func_hooks[(fr.mod, fr.node.name)] = make_oracle(k)
    AE.func_hooks[("dlde", "decode_p1_readout")] = whole_p1

    def expected(prev, accept, whole=False):
        start = prev if prev else 0
        for off in range(n):
            k = (start + off) % n
            if k in accept:
                if whole and k == p1_idx:
                    return Res("result-p1-whole"), k
                return ({} if k % 3 == 2 else Res("result", k)), k
        return None, prev

    thorough = rep.tier == "thorough"
    allp = [set(i for i in range(n) if (mask >> i) & 1) for mask in range(1 << n)]
    patterns = allp if thorough else [p_ for p_ in allp if len(p_) <= 2 or len(p_) == n]
    PAY_PRIME, PAY_NEXT = b"\x02an earlier payload", b"\x03a later payload"  # distinct payloads: one payload is accepted by the same decoders every time it is seen
    PAY = b"\n \x01pay load\t\r\n"  # begins and ends with octets a text normalisation (strip, splitlines, decode) would touch: decoders must get it verbatim
    fnp, fnm, fnn = C.methods["decode_message_payload"], C.methods["decode_message"], C.methods["previous_success_decoder"]
    init_fn = C.methods.get("__init__")

    def fresh(prev):
        """an AutoDecoder whose most recent success was decoder `prev` (None: never): built by the class's own constructor and brought
        into that state through the public API, so the representation of the remembered decoder does not matter"""
        obj = AObj("AutoDecoder", {}, cls_key=CLS)
        if init_fn is not None:
            r = AE.apply(init_fn, [obj])
            if r[0] != "value":
                raise Undecided(f"AutoDecoder.__init__ outside the interpreted subset: {r}")
        if prev is not None:
            state["accept"], state["calls"] = {prev}, []
            r = AE.apply(fnp, [obj, PAY_PRIME])
            if r[0] in ("undecided", "branch"):
                raise Undecided(f"AutoDecoder.decode_message_payload outside the interpreted subset: {r[1]}")
            # callers typically read the name after every message: a read between two decodes must not change anything
            AE.apply(fnn, [obj])
        return obj

    def remembered(obj):
        r = AE.apply(fnn, [obj])
        if r[0] in ("undecided", "branch"):
            raise Undecided(f"AutoDecoder.previous_success_decoder outside the interpreted subset: {r[1]}")
        return r[1] if r[0] == "value" else f"<raises {r[1]}>"
    cells = 0
    viol = {}

    def V(rule, tag, text, at, witness):
        if (rule, tag) not in viol:
            viol[(rule, tag)] = 1
            rep.violation(rule, f"{MOD}.AutoDecoder.{at.name}", tag, text, file, at.node.lineno, witness=witness)

    und = None
    for prev in [None] + list(range(n)):
        for accept in patterns:
            # decode_message_payload
            for variant in ("payload", "message-frame", "message-invalid-frame", "message-readout"):
                obj = fresh(prev)
                state["accept"], state["calls"] = accept, []
                if variant == "payload":
                    res = AE.apply(fnp, [obj, PAY])
                    whole = False
                else:
                    whole = variant == "message-readout"
                    msg = AObj("DataReadout" if whole else "HdlcFrame", {"payload": PAY, "is_valid": variant != "message-invalid-frame", "as_bytes": b"\x7ewhole message\x7e"})
                    res = AE.apply(fnm, [obj, msg])
                cells += 1
                desc = f"remembered={prev if prev is None else names[prev]}, accepting decoders={[names[i] for i in sorted(accept)]}, {variant}"
                if res[0] in ("undecided", "branch"):
                    if res[0] == "branch" and isinstance(res[1], Res) and res[1].op == "result":
                        V("R2", "success-by-truthiness", "success of a decoder is decided from its result instead of from its returning normally (an accepting decoder's empty dictionary counts as a rejection)",
                          fnp if variant == "payload" else fnm, desc)
                        continue
                    und = f"{desc}: {res[1]!r}"
                    break
                want, new_prev = expected(prev, accept, whole)
                at = fnp if variant == "payload" else fnm
                if res[0] == "raise":
                    V("R2", "exception-escapes", f"{res[1]} raised by a rejecting decoder leaves the AutoDecoder instead of moving on to the next decoder", at, desc)
                    continue
                got = res[1]
                if got != want or (want is None) != (got is None):
                    if want is None:
                        V("R2", "return-after-loop", "something other than None is returned although no decoder accepted the payload", at, f"{desc}: returns {got!r}")
                    elif got is None:
                        tried = [c[0] for c in state["calls"]]
                        V("R1" if variant == "payload" else "R5", "rotation" if variant == "payload" else "message-differs",
                          "None is returned although a decoder accepts the payload (not every decoder is tried, or an accepting result is discarded)" if variant == "payload" else
                          "decode_message gives None where decode_message_payload decodes the same payload (it must not depend on anything but the payload, e.g. not on is_valid)", at, f"{desc}: tried {tried}")
                    elif variant != "payload" and not whole:
                        V("R5", "message-differs", "decode_message does not give the result decode_message_payload gives for the payload", at, f"{desc}: returns {got!r}, expected {want!r}")
                    elif whole:
                        V("R5", "special-case", "for a P1 DataReadout the 'P1' entry must use the whole-readout decoder, every other entry the table decoder on the payload", at, f"{desc}: returns {got!r}, expected {want!r}")
                    else:
                        V("R1", "rotation", "the result is not that of the first accepting decoder in rotation order starting with the remembered one", at, f"{desc}: returns {got!r}, expected {want!r}")
                calls_now = list(state["calls"])
                want_name = None if new_prev is None else names[new_prev]
                got_name = remembered(obj)
                if got_name != want_name:
                    V("R2", "stored-index" if want is not None else "memory-write-outside-success",
                      "the decoder remembered on success is not the one whose result was returned" if want is not None else
                      "the remembered decoder changes although nobody accepted the payload", at, f"{desc}: previous_success_decoder becomes {got_name!r}, expected {want_name!r}")
                # the next call starts with the remembered decoder and nothing else of the history matters: same payload accepted by everybody
                state["accept"], state["calls"] = set(range(n)), []
                r2 = AE.apply(fnp, [obj, PAY_NEXT])
                first2 = state["calls"][0][0] if state["calls"] else None
                if r2[0] == "value" and first2 != (new_prev if new_prev else 0):
                    V("R2", "extra-state", "after this call the next decode does not start with the remembered decoder (the object carries other state of the history)", at,
                      f"{desc}: next call starts with decoder {first2}, expected {new_prev if new_prev else 0}")
                # every decoder call received the payload itself
                state["calls"] = calls_now
                for k, args_ in state["calls"]:
                    okarg = (args_ == (PAY,)) if k != "p1-whole" else (len(args_) == 1 and isinstance(args_[0], AObj))
                    if not okarg:
                        V("R5", "decoder-argument", "a decoder is not called with the payload (the whole-readout decoder: with the readout)", at, f"{desc}: decoder {k} called with {args_!r}"[:200])
                # first call is the remembered decoder
                if state["calls"] and accept is not None:
                    first = state["calls"][0][0]
                    start = prev if prev else 0
                    if first not in (start, "p1-whole") or (first == "p1-whole" and start != p1_idx):
                        V("R1", "rotation", "the remembered decoder is not the first one tried", at, f"{desc}: first tried {first}")
            if und:
                break
        if und:
            break
    # a payload seen before is decoded again from the state the object is in now: history [PAY (accepted by S), another payload (accepted by b only), PAY again]
    if not und:
        for S in patterns:
            if not S or und:
                continue
            for b in range(n):
                obj = fresh(None)
                state["accept"], state["calls"] = S, []
                r1 = AE.apply(fnp, [obj, PAY])
                state["accept"] = {b}
                r2 = AE.apply(fnp, [obj, PAY_NEXT])
                state["accept"], state["calls"] = S, []
                r3 = AE.apply(fnp, [obj, PAY])
                cells += 1
                desc = f"history: payload A accepted by {[names[i] for i in sorted(S)]}, payload B accepted by {names[b]} only, payload A again"
                if any(r[0] in ("undecided", "branch") for r in (r1, r2, r3)):
                    if "success-by-truthiness" not in [t for _, t in viol]:
                        und = f"{desc}: {[r[1] for r in (r1, r2, r3) if r[0] in ('undecided', 'branch')][0]!r}"
                    break
                if "raise" in (r1[0], r2[0], r3[0]):
                    continue  # reported by the table above
                want, new_prev = expected(b, S)
                if r3[1] != want:
                    V("R1", "repeated-payload", "a payload that was decoded before is not decoded from the state the object is in now (the earlier result is given again)", fnp,
                      f"{desc}: third call returns {r3[1]!r}, expected {want!r}")
                elif remembered(obj) != names[new_prev]:
                    V("R2", "repeated-payload", "decoding a payload that was decoded before does not update the remembered decoder", fnp,
                      f"{desc}: previous_success_decoder is {remembered(obj)!r} after the third call, expected {names[new_prev]!r}")
    # payloads nobody accepts leave the remembered decoder alone, however many of them arrive in a row
    if not und:
        for prev in range(n):
            obj = fresh(prev)
            for k_ in range(1, 7):
                state["accept"], state["calls"] = set(), []
                junk_ = (b"junk %d" % k_) if k_ % 3 else (b"/junk %d without end character" % k_)  # (also junk that begins like a P1 readout)
                rj = AE.apply(fnp, [obj, junk_])
                cells += 1
                if rj[0] == "raise":
                    V("R1", "escape:undecodable-payload", f"{rj[1]} leaves decode_message_payload for a payload that no decoder accepts (None is the documented answer)", fnp,
                      f"remembered={names[prev]}, payload {junk_!r}")
                    break
                if rj[0] in ("undecided", "branch"):
                    und = f"a run of undecodable payloads: {rj[1]!r}"
                    break
                if rj[0] == "value" and rj[1] is None and remembered(obj) != names[prev]:
                    V("R2", "memory-write-outside-success", "the remembered decoder changes although nobody accepted the payload (after a run of undecodable payloads)", fnp,
                      f"remembered={names[prev]}, then {k_} payload(s) no decoder accepts: previous_success_decoder becomes {remembered(obj)!r}")
                    break
            if und:
                break
    rep.count("rotation_cells", cells)
    # empty / absent payload
    if not und:
        for pay in (None, b""):
            obj = fresh(3)
            state["accept"], state["calls"] = set(range(n)), []
            res = AE.apply(fnm, [obj, AObj("HdlcFrame", {"payload": pay, "is_valid": True})])
            if res[0] != "value" or res[1] is not None or remembered(obj) != names[3]:
                if res[0] in ("undecided", "branch"):
                    und = f"message without payload: {res[1]!r}"
                else:
                    V("R5", "early-exit", "a message without payload is not answered with None (leaving the remembered decoder alone)", fnm, f"payload={pay!r}: {res}")
        # previous_success_decoder
        for prev in [None] + list(range(n)):
            res = AE.apply(fnn, [fresh(prev)])
            want = None if prev is None else names[prev]
            if res[0] in ("undecided", "branch"):
                und = f"previous_success_decoder: {res[1]!r}"
            elif res[0] != "value" or res[1] != want:
                V("R3", "name-lookup", "previous_success_decoder does not give the name at the remembered index (None when nothing was remembered)", fnn, f"remembered={prev}: {res}")
    if und:
        rep.undecide(f"R1 the AutoDecoder is outside the interpreted subset / branches on an undetermined condition for {und}")
    else:
        by = {r for r, _ in viol}
        if "R1" not in by:
            rep.ok("R1", "rotation", f"for each of the {n + 1} remembered values and each of the {len(patterns)} acceptance patterns the result is that of the first accepting decoder in rotation order from the remembered one ({cells} cells)")
        if "R2" not in by:
            rep.ok("R2", "first acceptor wins", "the remembered index becomes the table index of the decoder whose result is returned, is untouched when nobody accepts, and is the only state; rejections of every class named in the handler move on to the next decoder; None only when nobody accepts")
        if "R3" not in by:
            rep.ok("R3", "previous_success_decoder", "name at the remembered index; None when nothing was remembered")
        if "R5" not in by:
            rep.ok("R5", "decode_message vs decode_message_payload", "same transition function on message.payload (independent of is_valid); the only difference is the whole-readout decoder for the 'P1' entry and a DataReadout; no payload -> None")
    from sa.cross import include
    include(rep, src, "C15", {"R1"}, "R2", "no exception of a decoder escapes the AutoDecoder (every class a decoder can raise is named in the handler)")
    include(rep, src, "C08", {"R1"}, "R1", "the Kaifa decoder accepts the genuine Kaifa lists (documented layouts), so such a message is not left to a later, more lenient decoder")
    # ---------------------------------------------------------------- R6: first-octet discrimination (E-CONS)
    try:
        from sa.consir import World, first_octets
        w = World(src)
        fo = {}
        for mod in ("aidon", "kaifa", "kamstrup"):
            g = w.module(mod).env.get("NotificationBody")
            fo[mod] = first_octets(g) if g is not None else None
        if None in fo.values() or any(v is None for v in fo.values()):
            rep.undecide("R6 first-octet sets could not be derived")
        elif fo["aidon"] & (fo["kaifa"] | fo["kamstrup"]):
            rep.violation("R6", "aidon.NotificationBody", "first-octet", "an Aidon body and a Kaifa/Kamstrup body can start with the same tag octet", src.file("aidon"), 1, witness=str(fo))
        else:
            rep.ok("R6", "first-octet sets", f"Aidon bodies start with {sorted(fo['aidon'])}, Kaifa with {sorted(fo['kaifa'])}, Kamstrup with {sorted(fo['kamstrup'])}: disjoint from Aidon")
    except ImportError:
        rep.notes.append("R6 not evaluated (E-CONS first_octets unavailable)")
    # the text decoder must not accept what holds no data set at all: P1 comes before the bare-body decoders in the table, so a P1 decoder that returns
    # an (empty) dictionary for content without data sets takes binary messages away from their own decoder
    dcf, pcf = M.funcs.get("dlde.decode_p1_readout_content"), M.funcs.get("dlde.parse_p1_readout_content")
    if dcf is None or pcf is None:
        raise Undecided("anchor vanished: dlde.decode_p1_readout_content / parse_p1_readout_content")
    for content in (b"\x01\x02(\n", b"binary\x00", b"\r\n"):
        A6 = AbsEval(M)
        A6.func_hooks[("dlde", pcf.node.name)] = lambda args, kw: []
        r6 = A6.apply(dcf, [content])
        if r6[0] in ("undecided", "branch"):
            rep.undecide(f"R6 decode_p1_readout_content outside the interpreted subset for content without data sets: {r6[1]}")
            break
        if r6[0] == "value":
            rep.violation("R6", "dlde.decode_p1_readout_content", "accepts-empty", "the P1 content decoder accepts content in which the parser finds no data set (it returns a dictionary instead of raising "
                          "ValueError): tried before the bare-body decoders, it takes such binary messages away from the decoder that would decode them", src.file("dlde"), dcf.node.lineno, witness=repr(content))
            break
    else:
        rep.ok("R6", "P1 decoder rejects empty parses", "decode_p1_readout_content raises when the block parser finds no data set")
    rep.floor("rotation cells", rep.analysed.get("rotation_cells", 0), 2 * n)


def thorough(src, rep):
    from sa.selfval.harness import run_selfval
    run_selfval("C12", src, rep)
