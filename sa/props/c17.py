"""C17 - ConnectionManager: one connection at a time, and close() really stops it (level: other).

R1 task pairing (E-ASYNC typestate); R2 guarded connect (closing test dominates the factory call with no await in between; one
spawning site); R3 closing event cleared only where every task is settled; R4 transport release on every path that drops the
connection reference; R5 one attempt per iteration, next iteration only after the wait on done/closing; R6 close() sets the event first.
"""
from __future__ import annotations

import ast

from sa.asyncts import TaskTypestate, settles_args
from sa.model import Model
from sa.paths import Engine, loop_body_paths, show_sv, strip_epoch
from sa.report import Undecided

LEVEL = "other"
MOD = "meter_connection"
SELF = ("self0",)


def check(src, rep):
    M = Model(src)
    file = src.file(MOD)
    rep.count("modules", len(src.text))
    CM = M.classes.get((MOD, "ConnectionManager"))
    rep.require(CM is not None, "anchor vanished: ConnectionManager")
    for n in ("connect_loop", "close", "__init__"):
        rep.require(n in CM.methods, f"anchor vanished: ConnectionManager.{n}")
    cl, close = CM.methods["connect_loop"], CM.methods["close"]
    rep.assumptions += ["asyncio semantics of create_task/ensure_future/wait/cancel as summarised in DESIGN.md A.9",
                        "the connection factory honours cancellation; interleavings are not enumerated (that is a model-checking question)"]
    rep.explanation = ("Decided: every task created in connect_loop is done or cancelled at each loop back-edge and at exit (typestate with a summary for the cancel helper); the factory call "
                       "is dominated by a test of the closing event with no await in between and is reachable only from the one coroutine spawned once per iteration; the closing event is cleared "
                       "only after the loop, where all tasks are settled; every path that drops the manager's connection reference has either seen the protocol's done future complete or "
                       "closes the transport; close() sets the event before touching the connection. NOT decided: the full interleaving semantics and timing.")
    # roles
    closing = [a for a, v in CM.field_inits.items() if isinstance(v, ast.Call) and ast.unparse(v.func).split(".")[-1] == "Event"]
    rep.require(len(closing) == 1, f"cannot bind the closing event field: {closing}")
    CLOSING = closing[0]
    from sa.asyncts import connect_coroutine
    tc = connect_coroutine(CM)
    rep.require(tc is not None, "cannot find the coroutine awaiting the connection factory")
    conn = None
    for n in (x for f_ in CM.methods.values() for x in ast.walk(f_.node)):
        if isinstance(n, ast.Assign) and isinstance(n.value, ast.Await) and "factory" in ast.unparse(n.value) and isinstance(n.targets[0], ast.Attribute):
            conn = n.targets[0].attr
    if conn is None:
        # the awaited connection may pass through locals before it is stored: the field written with a value that comes from the awaited factory call (E-PATH)
        def _from_factory(sv):
            return isinstance(sv, tuple) and ((sv[:1] == ("await",) and "factory" in str(sv[1])) or any(_from_factory(x) for x in sv if isinstance(x, tuple)))
        try:
            for p_ in Engine(M, inline_async=True).run(tc):
                for e_ in p_.effects:
                    if e_[0] == "write" and e_[1] == SELF and _from_factory(e_[3]):
                        conn = e_[2]
        except Exception:  # noqa: Unsupported -- stays unbound
            pass
    rep.require(conn is not None, "cannot bind the connection field")
    # a connection the factory has handed out is kept (stored in the connection field, where close() / the loop find it) or closed - never just dropped
    def _ff(sv):
        return isinstance(sv, tuple) and ((sv[:1] == ("await",) and "factory" in str(sv[1])) or any(_ff(x) for x in sv if isinstance(x, tuple)))
    try:
        tc_paths = Engine(M, inline_async=True).run(tc)
    except Exception:  # noqa
        tc_paths = []
    for p_ in tc_paths:
        got = any((e_[0] == "await" and "factory" in str(e_[1])) or (e_[0] == "write" and _ff(e_[3])) or (e_[0] == "assign" and _ff(e_[-1])) for e_ in p_.effects) or any(_ff(v_) for v_ in p_.store.values())
        failed = any(g_[0] == "exc" for g_, _, _ in p_.guards) or p_.status == "raise"
        if not got or failed:
            continue
        kept = any(e_[0] == "write" and e_[1] == SELF and e_[2] == conn and _ff(e_[3]) for e_ in p_.effects)
        closed = any(e_[0] in ("mutate", "call", "callm") and "close" in str(e_[2] if e_[0] != "call" else e_[1]) and _ff(e_[1] if e_[0] != "call" else e_[2]) for e_ in p_.effects)
        if not kept and not closed:
            rep.violation("R4", f"{MOD}.ConnectionManager.{tc.name}", "connection-dropped", "on a path where the factory has returned a connection, it is neither stored in the manager's connection field nor closed: "
                          "a live transport is left behind that close() cannot reach", file, tc.node.lineno, witness="; ".join(("" if pol else "not ") + show_sv(g)[:60] for g, pol, _ in p_.guards))
            break

    # ---------------------------------------------------------------- R1
    helpers = {}
    for name, f in CM.methods.items():
        if f is not cl and name not in ("close",):
            try:
                helpers[name] = settles_args(f.node)
            except Exception:
                helpers[name] = False
    # every coroutine of the manager that creates tasks is a unit: its handles are local, so they must be settled at its own back-edges and exits
    from sa.asyncts import creates_task
    units = [f for name, f in CM.methods.items() if isinstance(f.node, ast.AsyncFunctionDef) and any(isinstance(n, ast.Call) and creates_task(n) for n in ast.walk(f.node))]
    # the coroutines that run as part of the reconnect loop itself (awaited from it, transitively): each of their suspension points must be
    # interruptible by close()
    loop_units, work = [], [cl]
    while work:
        f = work.pop()
        if f in loop_units:
            continue
        loop_units.append(f)
        for n in ast.walk(f.node):
            if isinstance(n, ast.Await) and isinstance(n.value, ast.Call) and isinstance(n.value.func, ast.Attribute) and isinstance(n.value.func.value, ast.Name) and n.value.func.value.id == "self":
                g = CM.methods.get(n.value.func.attr)
                if g is not None and isinstance(g.node, ast.AsyncFunctionDef) and g.kind == "method":
                    work.append(g)
    for f in loop_units:
        if f not in units:
            units.append(f)
    loop_unit_names = {f.name for f in loop_units}
    n_handles = 0
    n_find = 0
    nonlocal_find = []
    for f in units:
        ts = TaskTypestate(helpers, None)
        if f in loop_units:
            def on_await(stmt, e, st, ts=ts, f=f):
                from sa.asyncts import SETTLED, call_name
                ok_aw = False
                if isinstance(e, ast.Call) and call_name(e) in ("wait", "wait_for") and e.args:
                    tmo = [k for k in e.keywords if k.arg == "timeout" and not (isinstance(k.value, ast.Constant) and k.value.value is None)]
                    mem_ = ts.names_in(e.args[0], st)
                    if (tmo or (call_name(e) == "wait_for" and len(e.args) > 1)) and any(f".{tc.name}(" in ts.created.get(m_, ("",))[0] for m_ in mem_):
                        nonlocal_find.append(1)
                        rep.violation("R5", f"{MOD}.ConnectionManager.{f.name}", "connect-timeout", "the connect task - which sleeps the back-off before it connects - is raced against a timeout and cancelled when "
                                      "it expires: once the back-off delay exceeds the timeout no attempt is ever made again (and failure() is never reached, so the delay never changes)", file, stmt.lineno,
                                      witness=ast.unparse(e)[:120])
                if isinstance(e, ast.Call) and call_name(e) == "wait" and e.args:
                    members = ts.names_in(e.args[0], st)
                    raced = any(f"{CLOSING}.wait()" in ts.created.get(m_, ("",))[0] for m_ in members)
                    first = any(k.arg == "return_when" and ast.unparse(k.value).endswith("FIRST_COMPLETED") for k in e.keywords)
                    ok_aw = (raced and first) or (bool(members) and all(st.get(m_) in SETTLED for m_ in members))
                elif isinstance(e, ast.Call) and call_name(e) == "gather":
                    members = [m_ for a in e.args for m_ in ts.names_in(a, st)]
                    ok_aw = bool(members) and all(st.get(m_) in SETTLED for m_ in members)
                elif isinstance(e, ast.Call) and call_name(e) in helpers and (helpers[call_name(e)] or call_name(e) in loop_unit_names):
                    ok_aw = True
                elif isinstance(e, ast.Call) and call_name(e) not in ("sleep", "wait_for") and (helpers.get(call_name(e)) is None) and \
                        any(isinstance(x, ast.Name) and x.id in st for a_ in e.args for x in ast.walk(a_)):
                    ok_aw = None  # an unknown callee that is given the handles: not judged here (reported as escape)  # settle helper (cancelled tasks finish promptly) or another part of the loop, judged on its own
                elif isinstance(e, ast.Name) and st.get(e.id) in SETTLED:
                    ok_aw = True
                if ok_aw is None:
                    return
                if not ok_aw:
                    nonlocal_find.append(1)
                    rep.violation("R1", f"{MOD}.ConnectionManager.{f.name}", "uninterruptible-await", "the reconnect loop suspends on something that is not raced against the closing event "
                                  "(and is not a settled task): close() cannot interrupt it, so the loop outlives close() by that wait", file, stmt.lineno, witness=ast.unparse(e)[:100])
            ts.on_await = on_await
        findings = ts.analyse(f.node)
        n_handles += len(ts.created)
        for line_, what_ in ts.escaped:
            rep.undecide(f"R1 {f.name} (line {line_}) hands task handles to code the typestate does not follow: {what_}")
        for line, var, srcx, what in findings:
            n_find += 1
            rep.violation("R1", f"{MOD}.ConnectionManager.{f.name}", f"task={srcx}", f"task is abandoned while it may still be running: {what}. Pending tasks accumulate per reconnect cycle and "
                          "an abandoned connect task can connect after close()", file, line, witness=f"handle `{var}`")
        # handles must not escape the unit (returned / stored): then the local typestate would not be the whole story
        for n in ast.walk(f.node):
            if isinstance(n, ast.Return) and n.value is not None and any(isinstance(x, ast.Name) and x.id in ts.created for x in ast.walk(n.value)):
                rep.undecide(f"R1 {f.name} returns a task handle: its settlement is outside the per-coroutine typestate")
            if isinstance(n, ast.Assign) and isinstance(n.targets[0], ast.Attribute) and any(isinstance(x, ast.Name) and x.id in ts.created for x in ast.walk(n.value)):
                rep.undecide(f"R1 {f.name} stores a task handle in a field: its settlement is outside the per-coroutine typestate")
        # a settle-helper called with `*pending` (the possibly empty rest of a FIRST_COMPLETED wait) must cope with no task at all:
        # asyncio.wait() raises ValueError on an empty set
        for n in ast.walk(f.node):
            if isinstance(n, ast.Call) and isinstance(n.func, ast.Attribute) and n.func.attr in helpers and any(isinstance(a, ast.Starred) for a in n.args):
                h = CM.methods.get(n.func.attr)
                star = next(a for a in n.args if isinstance(a, ast.Starred))
                from_wait = isinstance(star.value, ast.Name) and star.value.id in ts.__dict__.get("wait_rest", set())
                if h is not None and from_wait and _waits_on_possibly_empty(h.node):
                    n_find += 1
                    rep.violation("R1", f"{MOD}.ConnectionManager.{f.name}", "wait-on-empty-set", f"{n.func.attr}(*{star.value.id}) hands the possibly empty rest of a FIRST_COMPLETED wait to a helper "
                                  "that awaits asyncio.wait() on it: wait() raises ValueError for an empty set, which ends the reconnect loop with live tasks/connection", file, n.lineno)
    # borrowed futures: ensure_future(<a future that exists already>) returns that very object -- cancelling it (directly, through a helper that cancels its
    # arguments, or through wait_for's timeout) cancels a future the manager does not own (the protocol's `done`): the owner's set_result() then raises
    from sa.asyncts import call_name as _cn
    n_borrowed = 0
    for f in units:
        borrowed = {}
        for n in ast.walk(f.node):
            if isinstance(n, ast.Assign) and len(n.targets) == 1 and isinstance(n.targets[0], ast.Name) and isinstance(n.value, ast.Call) and _cn(n.value) == "ensure_future" \
                    and n.value.args and not isinstance(n.value.args[0], ast.Call):
                borrowed[n.targets[0].id] = ast.unparse(n.value.args[0])
        n_borrowed += len(borrowed)
        for n in ast.walk(f.node):
            if not isinstance(n, ast.Call):
                continue
            hit = None
            if isinstance(n.func, ast.Attribute) and n.func.attr == "cancel" and isinstance(n.func.value, ast.Name) and n.func.value.id in borrowed:
                hit = (n.func.value.id, "cancel()")
            elif isinstance(n.func, ast.Attribute) and isinstance(n.func.value, ast.Name) and n.func.value.id in ("self", "cls", "ConnectionManager") and helpers.get(n.func.attr) is True:
                for a_ in n.args:
                    a0 = a_.value if isinstance(a_, ast.Starred) else a_
                    for x_ in ast.walk(a0):
                        if isinstance(x_, ast.Name) and x_.id in borrowed:
                            hit = (x_.id, f"{n.func.attr}(), which cancels the arguments that are still pending")
            elif _cn(n) == "wait_for" and n.args and isinstance(n.args[0], ast.Name) and n.args[0].id in borrowed:
                hit = (n.args[0].id, "wait_for(), which cancels it when the timeout expires")
            if hit:
                n_find += 1
                rep.violation("R1", f"{MOD}.ConnectionManager.{f.name}", f"cancels-borrowed-future:{hit[0]}", f"`{hit[0]}` is ensure_future({borrowed[hit[0]]}) - the very future object its owner completes - and is "
                              f"handed to {hit[1]}: the owner's later set_result() raises InvalidStateError and everybody else waiting on it sees a cancellation", file, n.lineno)
    rep.count("task_handles", n_handles)
    n_find += len(nonlocal_find)
    if not n_find:
        rep.ok("R1", f"{n_handles} task handles in {len(units)} coroutine(s)", "every task created by the manager is Done or Cancelled at every loop back-edge and at the exit of the coroutine that created it "
               f"(helper summaries: {sorted(k for k, v in helpers.items() if v)} settle all their task arguments)")
    rep.floor("task handles", n_handles, 2)

    # ---------------------------------------------------------------- R2: guarded connect
    # the factory call is reached only on paths that tested the closing event false *since the last suspension point*: field reads carry
    # the await-epoch in which they happened, so the closing test and the factory read must be in the same epoch
    tps = Engine(M, inline_async=True).run(tc)
    fac_paths = 0
    guarded = True
    why = "no dominating test of the closing event"
    fline = tc.node.lineno

    facname = next((a.arg for a in CM.methods["__init__"].node.args.args if "factory" in a.arg), None)
    facfield = next((t.attr for n in ast.walk(CM.methods["__init__"].node) if isinstance(n, (ast.Assign, ast.AnnAssign)) and isinstance(n.value, ast.Name) and n.value.id == facname
                     for t in (n.targets if isinstance(n, ast.Assign) else [n.target]) if isinstance(t, ast.Attribute)), None) if facname else None
    rep.require(facfield is not None, "cannot bind the connection-factory field from the constructor parameter")

    def find_factory(sv):
        """the awaited factory call inside sv -> epoch in which it was started"""
        if isinstance(sv, tuple):
            if sv and sv[0] == "await" and len(sv) >= 3 and isinstance(sv[1], tuple) and sv[1][0] in ("call", "calldyn") and facfield in str(sv[1][1]):
                return ("epoch", sv[2])
            for x in sv:
                r = find_factory(x)
                if r:
                    return r
        return None
    for p in tps:
        facs = [(e, find_factory(e[3])) for e in p.effects if e[0] == "write" and find_factory(e[3])] + \
            [(e, ("epoch", e[4])) for e in p.effects if e[0] == "await" and len(e) > 4 and e[1][0] in ("call", "calldyn") and facfield in str(e[1][1])]
        if not facs:
            continue
        fac_paths += 1
        fline = facs[0][0][4] if facs[0][0][0] == "write" else facs[0][0][2]
        epoch = facs[0][1][1]
        tests = [(g, pol) for g, pol, _ in p.guards if g[0] == "call" and g[1] == ".is_set" and strip_epoch(g[2][0]) == ("f0", SELF, CLOSING)]
        fresh = [(g, pol) for g, pol in tests if (g[2][0][3] if len(g[2][0]) > 3 else 0) == epoch]
        if not any(not pol for g, pol in fresh):
            guarded = False
            if any(not pol for g, pol in tests):
                why = "an await separates the closing test from the factory call (close() can be called in between)"
    tparents = {c: p for f in CM.methods.values() for p in ast.walk(f.node) for c in ast.iter_child_nodes(p)}
    for f in CM.methods.values():
        for n in ast.walk(f.node):
            if isinstance(n, ast.Call) and isinstance(n.func, ast.Attribute) and n.func.attr == facfield and not isinstance(tparents.get(n), ast.Await):
                guarded = False
                fac_paths += 1
                fline = n.lineno
                why = (f"the factory coroutine is wrapped ({ast.unparse(tparents.get(n))[:50]}) instead of being awaited directly: cancelling the connect task on close() does not cancel the attempt, "
                       "which can complete afterwards")
    rep.require(fac_paths > 0, "no path of the connecting coroutine reaches the factory")
    if guarded:
        rep.ok("R2", f"{tc.name}: factory call", f"{fac_paths} path(s): dominated by `not closing.is_set()` with no await between the test and the call")
    else:
        rep.violation("R2", f"{MOD}.ConnectionManager.{tc.name}", "unguarded-connect", f"a connection attempt can be started after close(): {why}", file, fline)
    # who may call
    sites = []
    for m in src.text:
        for n in ast.walk(src.tree(m)):
            if isinstance(n, ast.Attribute) and n.attr == tc.name and isinstance(n.ctx, ast.Load):
                sites.append((m, n.lineno))
    fsites = [(m, n.lineno) for m in src.text for n in ast.walk(src.tree(m)) if isinstance(n, ast.Call) and isinstance(n.func, ast.Attribute) and n.func.attr == "_connection_factory"]
    spawn_in_loop = [n for f in CM.methods.values() for n in ast.walk(f.node) if isinstance(n, ast.Call) and any(isinstance(x, ast.Attribute) and x.attr == tc.name for x in ast.walk(n)) and getattr(n.func, "id", getattr(n.func, "attr", "")) in ("create_task", "ensure_future")]
    if len(sites) == 1 and len(spawn_in_loop) == 1 and len(fsites) == 1:
        rep.ok("R2", "who may connect", f"the factory is called only in {tc.name}, which is spawned at exactly one site (once per connect_loop iteration)")
    else:
        rep.violation("R2", f"{MOD}.ConnectionManager", "connect-sites", "more than one site can start a connection attempt", file, cl.node.lineno, witness=f"references {sites}, factory calls {fsites}")

    # ---------------------------------------------------------------- R3: closing cleared only after the loop of connect_loop
    clears = []
    for m in src.text:
        tree = src.tree(m)
        for n in ast.walk(tree):
            if isinstance(n, ast.Call) and isinstance(n.func, ast.Attribute) and n.func.attr == "clear" and ast.unparse(n.func.value).endswith("." + CLOSING):
                clears.append((m, n))
    loops = [s for s in cl.node.body if isinstance(s, ast.While)]
    rep.require(len(loops) == 1, "connect_loop is not a single while loop")
    loop = loops[0]
    after = cl.node.body[cl.node.body.index(loop) + 1:]
    badc = 0
    for m, n in clears:
        ok = m == MOD and any(n is x for s in after for x in ast.walk(s))
        if not ok:
            badc += 1
            where = "before/inside the reconnect loop" if (m == MOD and any(n is x for x in ast.walk(cl.node))) else f"in {m}"
            rep.violation("R3", f"{MOD}.ConnectionManager", "closing-cleared", f"the closing event is cleared {where}: a close() issued earlier is forgotten and the manager keeps (re)connecting",
                          src.file(m), n.lineno)
    if not badc:
        rep.ok("R3", f"{len(clears)} clear() site(s)", "the closing event is cleared only after the reconnect loop has ended, where R1 shows every task settled")
    t = ast.unparse(loop.test).replace(" ", "")
    first = loop.body[0] if loop.body else None
    brk_first = isinstance(first, ast.If) and ast.unparse(first.test).replace(" ", "") == f"self.{CLOSING}.is_set()" and len(first.body) == 1 and isinstance(first.body[0], ast.Break) and not first.orelse
    tests_closing = any(isinstance(n, ast.Attribute) and n.attr == CLOSING for n in ast.walk(loop.test)) or \
        any(isinstance(n, ast.Attribute) and n.attr == CLOSING for s_ in loop.body if isinstance(s_, ast.If) for n in ast.walk(s_.test))
    if t == f"notself.{CLOSING}.is_set()":
        rep.ok("R3", "loop test", "the reconnect loop runs only while the closing event is not set")
    elif isinstance(loop.test, ast.Constant) and loop.test.value is True and brk_first:
        rep.ok("R3", "loop test", "the reconnect loop is left at the top of each iteration when the closing event is set (`while True: if closing.is_set(): break`)")
    elif not tests_closing:
        rep.violation("R3", f"{MOD}.ConnectionManager.connect_loop", "loop-test", "the reconnect loop does not stop on the closing event", file, loop.lineno, witness=ast.unparse(loop.test))
    else:
        rep.undecide(f"R3 the reconnect loop tests the closing event in a form the rule does not recognise: while {ast.unparse(loop.test)[:60]}")

    # ---------------------------------------------------------------- R4 / R5: paths through one iteration
    E = Engine(M, inline_async=True)
    _, ps = loop_body_paths(E, cl)
    rep.count("iteration_paths", len(ps))

    CONN = ("f0", SELF, conn)
    bad4 = bad5 = 0
    n_drop = 0
    for p in ps:
        evs = []
        for e in p.effects:
            if e[0] == "call" and e[1] in ("create_task", "ensure_future"):
                arg = e[2][0] if e[2] else None
                kind = "spawn-connect" if arg and tc.qual in str(arg) else "spawn-closing-wait" if arg and ".wait" in str(arg) else "done-future" if arg and "done" in str(arg) else "spawn"
                evs.append((kind, e))
            elif e[0] == "await" and e[1][0] == "call" and e[1][1] == "wait":
                evs.append(("wait", e))
            elif e[0] == "write" and e[1] == SELF and e[2] == conn:
                evs.append(("drop" if e[3] == ("c", None) else "set", e))
            elif e[0] in ("mutate", "call", "callm") and str(e[2] if e[0] != "call" else e[1]).endswith("close"):
                evs.append(("close-transport", e))
        kinds = [k for k, _ in evs]
        if p.status == "break" and not evs and any(strip_epoch(g)[0] == "call" and strip_epoch(g)[1] == ".is_set" and pol for g, pol, _ in p.guards):
            continue  # the iteration that finds the closing event set and leaves the loop at once
        if kinds.count("spawn-connect") == 0:
            bad5 += 1
            rep.undecide("R5 no connection attempt recognised on an iteration path of connect_loop (the connect task is created in a form the path analysis does not follow)")
        elif kinds.count("spawn-connect") != 1:
            bad5 += 1
            rep.violation("R5", f"{MOD}.ConnectionManager.connect_loop", "attempts-per-iteration", f"{kinds.count('spawn-connect')} connection attempts are started in one loop iteration", file, cl.node.lineno)
        had_conn = any(strip_epoch(g) == CONN and pol for g, pol, _ in p.guards)
        if had_conn:
            # must wait for done/closing before the iteration ends
            waits = [e for k, e in evs if k == "wait"]
            ok_wait = any("done" in str(e[1][2]) and ".wait" in str(e[1][2]) for e in waits)
            if not ok_wait:
                bad5 += 1
                rep.violation("R5", f"{MOD}.ConnectionManager.connect_loop", "no-wait-on-connection", "with a live connection the loop does not wait for its end (done future) or close() before the next attempt", file, cl.node.lineno)
        if "drop" in kinds:
            n_drop += 1
            closing_set = None
            still_conn = None
            for g, pol, _ in p.guards:
                gs = strip_epoch(g)
                if gs[0] == "call" and gs[1] == ".is_set" and gs[2] == (("f0", SELF, CLOSING),) and g != p.guards[0][0]:
                    closing_set = pol
                if gs == CONN and g != CONN:  # a re-read after an await
                    still_conn = pol
            if closing_set is True and still_conn is not False and "close-transport" not in kinds:
                bad4 += 1
                rep.violation("R4", f"{MOD}.ConnectionManager.connect_loop", "late-connection-not-closed", "a connection that exists when close() has been called is dropped without closing its transport "
                              "(e.g. the factory returned in the same event-loop iteration as close())", file, cl.node.lineno,
                              witness="; ".join(("" if pol else "not ") + show_sv(g)[:50] for g, pol, _ in p.guards))
            if closing_set is None and had_conn:
                bad4 += 1
                rep.violation("R4", f"{MOD}.ConnectionManager.connect_loop", "drop-without-test", "the connection reference is dropped without distinguishing loss from close()", file, cl.node.lineno)
    # the connection field is taken apart only where, since the last await, it is known not to be None (close() resets it at any suspension point)
    closes_to_none = any(e[0] == "write" and e[1] == SELF and e[2] == conn and e[3] == ("c", None) for p_ in Engine(M).run(close) for e in p_.effects)
    n_sub = 0

    def _subs(sv, out):
        if isinstance(sv, tuple):
            if len(sv) == 3 and sv[0] == "sub" and isinstance(sv[1], tuple) and strip_epoch(sv[1]) == CONN:
                out.add(sv[1])
            for x in sv:
                _subs(x, out)
        return out
    reported = False
    for p in ps if closes_to_none else ():
        if reported:
            break
        used = set()
        for e in p.effects:
            _subs(e, used)
        for g, pol, _ in p.guards:
            _subs(g, used)
        for u in sorted(used, key=str):
            n_sub += 1
            known = False
            unsure = False
            for g, pol, _ in p.guards:
                if g == u:
                    known = known or pol
                elif g[0] == "cmp" and g[1] in ("Is", "IsNot", "Eq", "NotEq") and u in g[2:4] and ("c", None) in g[2:4]:
                    known = known or (pol == (g[1] in ("IsNot", "NotEq")))
                elif u in _flat(g):
                    unsure = True
            ep = u[3] if len(u) > 3 else 0
            if any(e[0] == "write" and e[1] == SELF and e[2] == conn and e[3] != ("c", None) and _epoch_of_write(p, e) == ep for e in p.effects):
                known = True
            if known:
                continue
            if unsure or ep == 0:
                rep.undecide(f"R4 the connection field is taken apart under a test the path analysis does not classify ({show_sv(u)[:60]})")
                bad4 += 1
                continue
            bad4 += 1
            rep.violation("R4", f"{MOD}.ConnectionManager.connect_loop", "connection-unpacked-unchecked", "after an await the connection field is taken apart without a test that it is still there: close() resets it to "
                          "None at any suspension point, so connect_loop() dies with a TypeError instead of returning (and the closing event is never cleared)", file, cl.node.lineno,
                          witness="on the path [" + "; ".join(("" if pol else "not ") + show_sv(g)[:50] for g, pol, _ in p.guards) + "]")
            reported = True
            break
    if not bad4 and n_sub:
        rep.ok("R4", f"{n_sub} unpacking(s) of the connection field", "each is dominated by a test of the field with no await in between")
    if not bad4 and n_drop:
        rep.ok("R4", f"{n_drop} dropping path(s)", "the reference is dropped only after the wait on done/closing; when closing is set and a connection is still held its transport is closed")
    if not bad5:
        rep.ok("R5", f"{len(ps)} iteration path(s)", "exactly one connect task per iteration; with a live connection the iteration waits for done-or-closing before looping")
    rep.floor("iteration paths", len(ps), 3)

    # ---------------------------------------------------------------- R6: close()
    pc = Engine(M).run(close)
    okc = True
    for p in pc:
        eff = [e for e in p.effects if e[0] in ("mutate", "callm", "call", "write")]
        if not eff or not (eff[0][0] in ("mutate", "callm") and strip_epoch(eff[0][1]) == ("f0", SELF, CLOSING) and str(eff[0][2]).endswith("set")):
            okc = False
            rep.violation("R6", f"{MOD}.ConnectionManager.close", "event-first", "close() does not set the closing event before anything else", file, close.node.lineno)
            continue
        has = any(strip_epoch(g) == CONN and pol for g, pol, _ in p.guards)
        if has and not any(str(e[2] if e[0] != "call" else e[1]).endswith("close") and conn in str(e[1]) for e in eff[1:]):
            okc = False
            rep.violation("R6", f"{MOD}.ConnectionManager.close", "transport-not-closed", "close() does not close the current transport", file, close.node.lineno)
    if okc:
        rep.ok("R6", "close()", "sets the closing event first, then closes the current transport if there is one")
    _loss_signal(rep, M, src)
    from sa.cross import include
    include(rep, src, "C18", {"R1"}, "R5", "the back-off strategy answers after any number of consecutive failures (an exception there ends the connect task before the factory is called, and no further attempt is made)")
    include(rep, src, "C18", {"R4"}, "R5", "the loss bookkeeping the loop runs after every loss is well-formed (an exception there ends connect_loop and with it all reconnecting)")


def _flat(sv):
    out = set()
    if isinstance(sv, tuple):
        out.add(sv)
        for x in sv:
            out |= _flat(x)
    return out


def _epoch_of_write(p, e):
    """number of awaits on the path before the write effect e"""
    n = 0
    for x in p.effects:
        if x is e:
            return n
        if x[0] == "await":
            n += 1
    return -1


def _loss_signal(rep, M, src):
    """R7: a loss is signalled to the manager -- the awaitable handed out by the protocol's `done` is one object for the protocol's whole life
    (created with it, never re-bound), and connection_lost() completes exactly that object on every path"""
    file = src.file(MOD)
    B = M.classes.get((MOD, "SmartMeterBaseProtocol"))
    if B is None or "done" not in B.methods or "connection_lost" not in B.methods:
        raise Undecided("anchor vanished: SmartMeterBaseProtocol.done / connection_lost")
    SELF0 = ("self0",)
    try:
        dps = Engine(M, fork_props=True).run(B.methods["done"])
    except Exception as e:  # Unsupported
        raise Undecided(f"SmartMeterBaseProtocol.done outside the analysed subset: {e}")
    fields = set()
    bad = 0
    for p in dps:
        r = strip_epoch(p.ret) if getattr(p, "ret", None) is not None else None
        writes = [e for e in p.effects if e[0] == "write"]
        if writes:
            bad += 1
            rep.violation("R7", f"{MOD}.SmartMeterBaseProtocol.done", "done-created-on-demand", "the `done` awaitable is (re)created when it is read: a loss that happens before the manager first reads it completes nothing, and the "
                          "manager then waits forever on a connection that is already gone (no reconnect)", file, B.methods["done"].node.lineno, witness=f"writes {[e[2] for e in writes]}")
            continue
        if r is None or r[0] != "f0" or r[1] != SELF0:
            raise Undecided(f"SmartMeterBaseProtocol.done does not return a field of the protocol ({show_sv(r) if r else None})")
        fields.add(r[2])
    if bad:
        return
    if len(fields) != 1:
        raise Undecided(f"SmartMeterBaseProtocol.done returns different fields {sorted(fields)}")
    F = fields.pop()
    # the field is bound once, by a constructor
    for ck, C in M.classes.items():
        if ck[0] != MOD:
            continue
        for mname, fn in C.methods.items():
            for n in ast.walk(fn.node):
                tg = n.targets if isinstance(n, ast.Assign) else [n.target] if isinstance(n, (ast.AnnAssign, ast.AugAssign)) else []
                for t in tg:
                    if isinstance(t, ast.Attribute) and t.attr == F and isinstance(t.value, ast.Name) and t.value.id == "self" and mname != "__init__" and (isinstance(n, ast.Assign) or n.value is not None):
                        bad += 1
                        rep.violation("R7", f"{MOD}.{ck[1]}.{mname}", "done-rebound", f"the future behind `done` (self.{F}) is re-bound outside the constructor: the manager can be waiting on an object that is never completed",
                                      file, n.lineno)
    init = M.find_method((MOD, "SmartMeterBaseProtocol"), "__init__")
    if init is None or not any(isinstance(n, (ast.Assign, ast.AnnAssign)) and any(isinstance(t, ast.Attribute) and t.attr == F for t in (n.targets if isinstance(n, ast.Assign) else [n.target]))
                               and isinstance(n.value, ast.Call) for n in ast.walk(init.node)):
        bad += 1
        rep.violation("R7", f"{MOD}.SmartMeterBaseProtocol.__init__", "done-not-created", f"the constructor does not create the future behind `done` (self.{F})", file, (init or B).node.lineno)
    try:
        cps = Engine(M, fork_props=True).run(B.methods["connection_lost"])
    except Exception as e:
        raise Undecided(f"SmartMeterBaseProtocol.connection_lost outside the analysed subset: {e}")
    n = 0
    for p in cps:
        n += 1
        settled = [e for e in p.effects if e[0] == "mutate" and strip_epoch(e[1]) == ("f0", SELF0, F) and e[2] in ("set_result", "set_exception")]
        if p.status == "raise":
            if not settled:
                bad += 1
                rep.violation("R7", f"{MOD}.SmartMeterBaseProtocol.connection_lost", "loss-not-signalled", "connection_lost() can raise before completing the `done` future: the manager is never told about the loss", file,
                              B.methods["connection_lost"].node.lineno, witness="; ".join(("" if pol else "not ") + show_sv(g)[:50] for g, pol, _ in p.guards))
            continue
        if len(settled) != 1:
            bad += 1
            rep.violation("R7", f"{MOD}.SmartMeterBaseProtocol.connection_lost", "loss-not-signalled", f"a path of connection_lost() completes the `done` future {len(settled)} times (exactly once is needed: "
                          "otherwise the manager keeps waiting on a dead connection and never reconnects)", file, B.methods["connection_lost"].node.lineno,
                          witness="; ".join(("" if pol else "not ") + show_sv(g)[:50] for g, pol, _ in p.guards))
            break
    # the manager leaves a lost connection's transport to the protocol: connection_lost() closes it whenever there is one, whatever the cause of the loss
    cm_fn = B.methods.get("connection_made")
    T = None
    if cm_fn is not None and cm_fn.params:
        for n_ in ast.walk(cm_fn.node):
            if isinstance(n_, ast.Assign) and isinstance(n_.value, ast.Name) and n_.value.id == cm_fn.params[0] and isinstance(n_.targets[0], ast.Attribute) and isinstance(n_.targets[0].value, ast.Name) \
                    and n_.targets[0].value.id == "self":
                T = n_.targets[0].attr
    if T is not None:
        TF = ("f0", SELF0, T)
        n_close = 0
        for p in cps:
            has = None
            for g, pol, _ in p.guards:
                gs = strip_epoch(g)
                if gs == TF:
                    has = pol if has is None else has
                elif gs[0] == "cmp" and gs[1] == "Is" and gs[2] == TF and gs[3] == ("c", None):
                    has = (not pol) if has is None else has
            closes = [e for e in p.effects if (e[0] == "mutate" and e[2] == "close" and strip_epoch(e[1]) == TF) or
                      (e[0] in ("call", "callm") and str(e[1] if e[0] == "call" else e[2]).endswith("close") and TF in [strip_epoch(x) for x in (e[2] if e[0] == "call" else (e[1],)) if isinstance(x, tuple)])]
            # (a path that continues in an exception handler left the try block at the close attempt itself)
            attempted = any(g[0] == "exc" for g, _, _ in p.guards) and any(isinstance(n_, ast.Call) and isinstance(n_.func, ast.Attribute) and n_.func.attr == "close"
                                                                           for t_ in ast.walk(B.methods["connection_lost"].node) if isinstance(t_, ast.Try) for b_ in t_.body for n_ in ast.walk(b_))
            closes = closes or ([1] if attempted else [])
            if has is True and not closes:
                bad += 1
                rep.violation("R4", f"{MOD}.SmartMeterBaseProtocol.connection_lost", "transport-left-open", "a path of connection_lost() on which the protocol has a transport does not close it: the manager relies on "
                              "the protocol for that, so after such a loss the old transport stays open while the next connection is made", file, B.methods["connection_lost"].node.lineno,
                              witness="; ".join(("" if pol else "not ") + show_sv(g)[:50] for g, pol, _ in p.guards))
                break
            if closes:
                n_close += 1
        if not bad and n_close:
            rep.ok("R4", "transport closed on loss", f"every path of connection_lost() that has a transport (self.{T}) closes it, independently of the cause of the loss")
    if not bad:
        rep.ok("R7", f"{n} connection_lost path(s)", f"`done` hands out self.{F}, bound once by the constructor; every path of connection_lost() completes it exactly once")


def _waits_on_possibly_empty(fn):
    """the helper awaits wait(<its collection parameter>) without a dominating emptiness test"""
    a = fn.args
    coll = a.vararg.arg if a.vararg else (a.args[-1].arg if a.args else None)
    if coll is None:
        return False
    parents = {c: p for p in ast.walk(fn) for c in ast.iter_child_nodes(p)}
    for n in ast.walk(fn):
        if isinstance(n, ast.Call) and getattr(n.func, "id", getattr(n.func, "attr", "")) == "wait" and n.args and isinstance(n.args[0], ast.Name) and n.args[0].id == coll:
            cur, guarded = n, False
            while cur in parents:
                par = parents[cur]
                if isinstance(par, ast.If) and coll in {x.id for x in ast.walk(par.test) if isinstance(x, ast.Name)}:
                    guarded = True
                cur = par
            # early `if not coll: return` before the wait
            for s in fn.body:
                if isinstance(s, ast.If) and coll in {x.id for x in ast.walk(s.test) if isinstance(x, ast.Name)} and s.body and isinstance(s.body[-1], ast.Return) and s.lineno < n.lineno:
                    guarded = True
            if not guarded:
                return True
    return False


def thorough(src, rep):
    from sa.selfval.harness import run_selfval
    run_selfval("C17", src, rep)
