"""C06 - HDLC reader output does not depend on how the byte stream is chunked (level: other; non-interference).

N1 the chunk flows only into the buffer; N2 no per-call local or non-field state carries information across octets;
N3 buffered amount influences control flow only through the loop test, and nothing outside the per-octet step changes state;
N4/N5 trims are content preserving and the flag trim happens only while hunting; N6 hunt-mode rows are neutral.
"""
from __future__ import annotations

import ast

from sa.hdlcmodel import HdlcModel, loc
from sa.hdlcref import buffer_contracts, conformance, skeleton
from sa.props.c02 import emit

LEVEL = "other"
RULE = {"chunk-flow": "N1", "locals": "N2", "result": "N2", "lookahead": "N3", "skeleton": "N3", "hunt-trim": "N5", "buffer": "N4", "row": "N6"}


def check(src, rep):
    m = HdlcModel(src)
    rep.count("modules", len(src.text))
    rep.count("step_paths", len(m.paths))
    rep.assumptions += ["argument of DESIGN.md §3/C06: by N1-N3 the sequence of (state, octet) steps is a function of the concatenated stream up to N5's eager skipping, which N6 shows neutral"]
    rep.explanation = ("Decided (non-interference of the chunk boundary): the chunk parameter only extends the buffer; read() changes reader state only inside the per-octet step; "
                       "the step consumes exactly one octet and never looks at how much is buffered; no local or global carries information between octets; trims preserve the "
                       "unconsumed suffix; trim-to-flag runs only in hunt mode, where non-flag octets have no effect. NOT mechanised: composing these into equality of outputs.")
    sk = skeleton(m)
    emit(rep, m, sk, RULE)
    bc = buffer_contracts(m)
    for r in bc:
        if r.instance == "trim-to-flag":
            r.tag = "hunt-trim"
    emit(rep, m, bc, RULE)
    emit(rep, m, [r for r in conformance(m) if r.instance == "hunt"], RULE)
    # N2: state outside instance fields written by the step (globals, class attributes), and pops per step
    glob = []
    for fn in m.M.funcs.values():
        if fn.mod == "hdlc" and fn.cls in ("HdlcFrameReader", "_ReaderBuffer"):
            for n in ast.walk(fn.node):
                if isinstance(n, (ast.Global, ast.Nonlocal)):
                    glob.append((fn.qual, n.lineno, "global/nonlocal statement"))
                if isinstance(n, ast.Attribute) and isinstance(n.ctx, ast.Store) and isinstance(n.value, ast.Name) and n.value.id in ("HdlcFrameReader", "_ReaderBuffer", "cls"):
                    glob.append((fn.qual, n.lineno, f"class attribute {n.value.id}.{n.attr} written"))
    for q, line, what in glob:
        rep.violation("N2", q, "non-field-state", f"reader keeps state outside its instance fields: {what}", m.file, line)
    if not glob:
        rep.ok("N2", "reader and buffer methods", "no module global or class attribute is written; all cross-octet state is in instance fields")
    n_bad = 0
    for sp in m.paths:
        if m.feasible(sp) and sp.post.pops != 1:
            n_bad += 1
            rep.violation("N3", "hdlc.HdlcFrameReader.read", "pops-per-step", f"one loop iteration consumes {sp.post.pops} octets: whether the extra octet is available depends on the chunking",
                          m.file, loc(m, sp), witness=f"[{sp.guard_text()}]")
        if m.feasible(sp) and sp.post.other and all(o.startswith("buffer.") for o in sp.post.other):
            # a method of the reader's own buffer the contract classifier does not know: the effect stays inside the reader, what it does is not decided here
            n_bad += 1
            rep.undecide(f"N2 a step calls a buffer method the contract classifier cannot classify: {sp.post.other} [{sp.guard_text()}]")
        elif m.feasible(sp) and sp.post.other:
            n_bad += 1
            rep.violation("N2", "hdlc.HdlcFrameReader.read", "other-effect", f"step has an effect outside the reader's per-frame state: {sp.post.other}", m.file, loc(m, sp), witness=f"[{sp.guard_text()}]")
    # what a step does must not depend on what this very call has already returned (the result list is per call: another splitting puts the earlier frame in an earlier call)
    res_names = set()
    for sp in m.paths:
        for e in sp.path.effects:
            if e[0] in ("mutate", "callm") and len(e) > 3 and e[2] == "append" and isinstance(e[1], tuple) and e[1][0] in ("g", "l") and e[3] and sp.post.emitted:
                res_names.add(e[1])

    def _mentions_result(g):
        return isinstance(g, tuple) and (g in res_names or any(_mentions_result(x) for x in g))
    groups = {}
    for sp in m.paths:
        if m.feasible(sp):
            groups.setdefault(tuple(sorted(sp.lits.items())), []).append(sp)
    for lits_, sps in groups.items():
        dep = [sp for sp in sps if any(_mentions_result(g) for _, _, g in sp.unknown)]
        if dep and len({sp.post.key() for sp in sps}) > 1:
            n_bad += 1
            sp = dep[0]
            rep.violation("N3", "hdlc.HdlcFrameReader.read", "result-list-dependence", "what a step does depends on the frames this read() call has already returned: the list of results is per call, so a "
                          "splitting that delivers the earlier frame in an earlier call gives another sequence of frames", m.file, loc(m, sp), witness=f"[{sp.guard_text()}] => {sp.post.brief()}"[:260])
            break
    if not n_bad:
        rep.ok("N3", "step function", f"each of the {sum(1 for sp in m.paths if m.feasible(sp))} feasible step paths consumes exactly one octet and touches only frame, pending escape, raw store, buffer and result list")
    rep.floor("step paths", sum(1 for sp in m.paths if m.feasible(sp)), 10)


def thorough(src, rep):
    from sa.selfval.harness import run_selfval
    run_selfval("C06", src, rep)
