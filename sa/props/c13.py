"""C13 - Protocols forward exactly the selected reader's messages, payloads only if valid (level: other).

R1 payload-protocol guard; R2 message protocol forwards unconditionally; R3 selection (only in data_received, only the candidate
whose read() of this call produced a valid message); R4 forwarding source and completeness, nothing before selection, no other
reader after it, every candidate sees the chunk until one is selected; R5 who-may-call, sound reader-presence test.
"""
from __future__ import annotations

import ast
import os
from dataclasses import dataclass, field

from sa.model import Model
from sa.paths import Engine, Path, show_sv, strip_epoch
from sa.report import Undecided

LEVEL = "other"
MOD = "meter_connection"
SELF = ("self0",)
BASE = (MOD, "SmartMeterBaseProtocol")


@dataclass
class LoopRec:
    node: ast.AST
    iter_sv: tuple
    var: tuple
    body: list
    entry: Path
    children: list = field(default_factory=list)


class Walker:
    """Engine.block with explicit loop records (nested loops are analysed, not opaque)"""

    def __init__(self, E, fn):
        self.E, self.fn = E, fn
        self.fr = E.frame(fn, SELF, [], None)
        self.fr["params"] = {a: ("p", a) for a in fn.params}

    def _callee(self, s, fr):
        """`self.helper(...)` as a statement: the helper of the root object (its loops must stay visible, so it is walked, not summarised)"""
        if isinstance(s, ast.Expr) and isinstance(s.value, ast.Call) and isinstance(s.value.func, ast.Attribute) and isinstance(s.value.func.value, ast.Name) \
                and s.value.func.value.id == "self" and fr["self"] == SELF and fr["root_cls"]:
            m = self.E.M.find_method(fr["root_cls"], s.value.func.attr)
            if m is not None and m.kind == "method" and m.name not in self.E.no_inline and fr["depth"] < 4 and not isinstance(m.node, ast.AsyncFunctionDef) \
                    and any(isinstance(x, (ast.For, ast.While)) for x in ast.walk(m.node)) or (m is not None and m.kind == "method" and m.name not in self.E.no_inline and fr["depth"] < 4):
                return m
        return None

    def walk(self, stmts, paths, loops, fr=None):
        E = self.E
        fr = fr or self.fr
        for s in stmts:
            out = []
            for p in paths:
                if p.status != "run":
                    out.append(p)
                    continue
                if isinstance(s, (ast.For, ast.While)):
                    q = p.clone()
                    if isinstance(s, ast.For):
                        it = E.ev(s.iter, q, fr)
                        var = ("iter", it, s.lineno)
                        E.assign(s.target, var, q, fr, s.lineno)
                        starts = [q]
                    else:
                        it, var = None, None
                        starts, _ = E.cond(s.test, q, fr)
                    for st in starts:
                        st.effects = list(st.effects) + [("loop-enter", s.lineno)]
                    rec = LoopRec(s, it, var, [], p.clone())
                    rec.body = self.walk(s.body, starts, rec.children, fr)
                    loops.append(rec)
                    post = E.stmt(s, p, fr)  # havoc semantics of the engine for the code after the loop
                    for x in post:
                        x.effects.append(("loop-ref", id(rec), s.lineno))
                    out.extend(post)
                elif isinstance(s, ast.If):
                    t, f = E.cond(s.test, p, fr)
                    out.extend(self.walk(s.body, t, loops, fr))
                    out.extend(self.walk(s.orelse, f, loops, fr))
                elif self._callee(s, fr) is not None:
                    m = self._callee(s, fr)
                    args = [E.ev(a, p, fr) for a in s.value.args]
                    nfr = E.frame(m, SELF, args, fr)
                    for q in self.walk(m.node.body, [p], loops, nfr):
                        if q.status == "return":
                            q.status, q.ret = "run", None
                        out.append(q)
                else:
                    out.extend(E.stmt(s, p, fr))
            paths = out
        return paths


def _scenarios(M, PP, MP, thorough):
    """-> ('ok', n) | ('bad', text, witness, kind) | ('und', why)"""
    import itertools
    import random
    from sa.abseval import AbsEval, AObj, AbsRaise
    # message templates: V valid with payload, I invalid, E valid with empty payload, N valid with payload None
    TEMPL = [(), ("I",), ("V",), ("I", "V", "I"), ("E", "V"), ("V", "N"), ("E",)] + ([("V", "V"), ("I", "I"), ("N",), ("I", "E", "I", "V")] if thorough else [])

    def scripts_small():
        for nr, nc in ((1, 2), (2, 2)):
            for combo in itertools.product(range(len(TEMPL)), repeat=nr * nc):
                yield [[TEMPL[combo[r * nc + c]] for c in range(nc)] for r in range(nr)]
        rnd = random.Random(13)
        for _ in range(400 if thorough else 120):
            nr, nc = rnd.choice((2, 3)), 3
            yield [[rnd.choice(TEMPL) for _ in range(nc)] for _ in range(nr)]
    n = 0
    for kind, C in (("payload", PP), ("message", MP)):
        dr = M.find_method((C.mod, C.name), "data_received")
        for script in scripts_small():
            n += 1
            log = []
            msgs = {}

            same_pay = n % 2 == 0  # every other scenario: all messages carry the same payload octets (a meter repeating an unchanged reading)

            def mk_msg(r, c, k, t):
                o = AObj("Message", {"is_valid": t != "I", "payload": (None if t == "N" else b"" if t == "E" else b"unchanged reading" if same_pay else f"pay-{r}-{c}-{k}".encode()),
                                     "as_bytes": f"raw-{r}-{c}-{k}".encode()}, name=f"m{r}.{c}.{k}{t}")
                msgs[id(o)] = o
                return o
            table = [[[mk_msg(r, c, k, t) for k, t in enumerate(cell)] for c, cell in enumerate(row)] for r, row in enumerate(script)]

            def mk_reader(r):
                st = {"n": 0}

                def read(chunk):
                    c = st["n"]
                    st["n"] += 1
                    log.append(("read", r, chunk))
                    return list(table[r][c]) if c < len(table[r]) else []
                return AObj("Reader", {"read": read}, name=f"reader{r}")
            readers = [mk_reader(r) for r in range(len(script))]
            queue = AObj("Queue", {"put_nowait": (lambda x: log.append(("put", x)))}, name="queue")
            A = AbsEval(M)
            A.external_calls_opaque = True
            try:
                obj = A.instantiate((C.mod, C.name), [queue, list(readers)])
            except AbsRaise as ex:
                return ("bad", f"constructing the {kind} protocol raises {ex.cls}", f"{len(script)} candidate reader(s)", "select")
            except Exception as ex:  # noqa
                return ("und", f"{C.name}() outside the interpreted subset: {type(ex).__name__}: {ex}")
            nc = len(script[0])
            # reference
            want_put, selected, cands = [], None, list(range(len(script)))
            want_reads = []
            for c in range(nc):
                if selected is not None:
                    want_reads.append((selected, c))
                    fw = table[selected][c]
                else:
                    fw = []
                    for r in cands:
                        want_reads.append((r, c))
                        if any(m_.attrs["is_valid"] for m_ in table[r][c]):
                            selected, cands, fw = r, [], table[r][c]
                            break
                for m_ in fw:
                    if kind == "message":
                        want_put.append(m_)
                    elif m_.attrs["is_valid"] and m_.attrs["payload"]:
                        want_put.append(m_.attrs["payload"])
            chunks = [f"chunk{c}".encode() for c in range(nc)]
            for c in range(nc):
                r_ = A.apply(dr, [obj, chunks[c]])
                if r_[0] in ("undecided", "branch"):
                    return ("und", f"{C.name}.data_received outside the interpreted subset: {r_[1]!r}"[:300])
                if r_[0] == "raise":
                    return ("bad", f"data_received raises {r_[1]}", _show_script(script, c), "forward")
            got_put = [e[1] for e in log if e[0] == "put"]
            got_reads = [(e[1], chunks.index(e[2]) if e[2] in chunks else -1) for e in log if e[0] == "read"]
            same_put = len(got_put) == len(want_put) and all((a is b) or (isinstance(a, bytes) and a == b) for a, b in zip(got_put, want_put))
            if not same_put:
                return ("bad", f"the {kind} protocol does not put on its queue exactly " + ("every message" if kind == "message" else "the non-empty payloads of the valid messages") +
                        " of the selected reader, in order, from the chunk in which it first produced a valid message",
                        f"{_show_script(script)}: queue gets {[getattr(x, 'name', x) for x in got_put]}, expected {[getattr(x, 'name', x) for x in want_put]}"[:400], "forward")
            # reads: the reference reads must occur exactly once each and in order; reads of later candidates in the selection chunk are not constrained
            extra_ok = lambda rd: selected is not None and rd[0] != selected
            filt = [rd for rd in got_reads if rd in want_reads or not extra_ok(rd)]
            if filt != want_reads:
                return ("bad", "a reader is not given every chunk exactly once (until a reader is selected every remaining candidate reads the chunk; afterwards the selected one does): a reader that "
                        "misses or repeats a chunk loses its place in the stream", f"{_show_script(script)}: reads {got_reads}, expected {want_reads}"[:400], "select")
    return ("ok", n)


def _show_script(script, upto=None):
    return "candidates " + " | ".join("reader%d: %s" % (r, " , ".join("[" + "".join(cell) + "]" for cell in row[:None if upto is None else upto + 1])) for r, row in enumerate(script)) + \
        " (per chunk; V valid, I invalid, E valid with empty payload, N valid without payload)"


def attr_of(sv):
    """(base, attribute name) of a property/field read, whatever the engine could resolve"""
    if isinstance(sv, tuple) and sv and sv[0] in ("prop", "f0") and len(sv) >= 3:
        return sv[1], sv[2]
    return None, None


def is_mr_call(e):
    return e[0] == "call" and isinstance(e[1], str) and e[1].endswith(".message_received")


def read_call(sv, data):
    """sv is `<reader>.read(data)` -> reader sv, else None"""
    sv = strip_epoch(sv)
    if sv[0] == "call" and isinstance(sv[1], str) and sv[1].endswith("read") and len(sv[2]) == 2 and sv[2][1] == data:
        return sv[2][0]
    return None


def check(src, rep):
    M = Model(src)
    file = src.file(MOD)
    rep.count("modules", len(src.text))
    B = M.classes.get(BASE)
    PP = M.classes.get((MOD, "SmartMeterMessagePayloadProtocol"))
    MP = M.classes.get((MOD, "SmartMeterMessageProtocol"))
    rep.require(B and PP and MP, "anchor vanished: protocol classes")
    rep.require("data_received" in B.methods and "message_received" in PP.methods and "message_received" in MP.methods, "anchor vanished: data_received / message_received")
    rep.assumptions += ["reader.read(data) returns this call's complete messages in order (C01/C02/C05)", "asyncio Queue.put_nowait keeps FIFO order"]
    rep.explanation = ("Decided: the payload protocol enqueues exactly message.payload on paths guarded by is_valid, payload not None and non-empty; the message protocol enqueues its argument "
                       "unconditionally; the selected reader is assigned only in data_received, only to the candidate whose read() result of this call contains a valid message; every "
                       "message_received call iterates completely and unconditionally over the read() result of the reader that is selected on that path; the candidate loop is left only after a "
                       "selection, so every candidate sees every chunk until then; nothing else touches the queue. NOT decided: the clean-stream corollary (C02/C05).")
    # ---------------------------------------------------------------- R1
    fn = PP.methods["message_received"]
    ps = Engine(M, keep_props={"is_valid", "payload", "as_bytes"}).run(fn)
    msg = ("p", fn.params[0])
    n_put = 0
    bad = 0
    for p in ps:
        puts = [e for e in p.effects if e[0] in ("mutate", "callm", "call") and "put" in str(e[2] if e[0] != "call" else e[1])]
        if not puts:
            continue
        n_put += 1
        lits = {}
        for g, pol, _ in p.guards:
            g = strip_epoch(g)
            if attr_of(g) == (msg, "is_valid"):
                lits["valid"] = pol
            elif g[0] == "cmp" and g[1] == "Is" and attr_of(g[2]) == (msg, "payload") and g[3] == ("c", None):
                lits["none"] = pol
            elif g[0] == "cmp" and g[2][0] == "len" and attr_of(g[2][1]) == (msg, "payload") and g[3][0] == "c":
                k = g[3][1]
                if (g[1] == "LtE" and k == 0 and not pol) or (g[1] == "Lt" and k == 1 and not pol) or (g[1] == "Eq" and k == 0 and not pol):
                    lits["nonempty"] = True
            elif attr_of(g) == (msg, "payload") and pol:
                lits["none"] = False
                lits["nonempty"] = True  # truthiness of bytes = not None and non-empty
        val = puts[0][3][0] if puts[0][3] else None
        okv = val is not None and attr_of(strip_epoch(val)) == (msg, "payload")
        miss = [k for k, want in (("valid", True), ("none", False), ("nonempty", True)) if lits.get(k) != want]
        if miss or not okv or len(puts) != 1:
            bad += 1
            what = {"valid": "message.is_valid", "none": "payload is not None", "nonempty": "len(payload) > 0"}
            rep.violation("R1", f"{MOD}.SmartMeterMessagePayloadProtocol.message_received", "payload-guard",
                          "a payload is enqueued on a path not guarded by " + ", ".join(what[k] for k in miss) if miss else "the enqueued value is not message.payload (or is enqueued more than once)",
                          file, fn.node.lineno, witness="; ".join(("" if pol else "not ") + show_sv(g)[:60] for g, pol, _ in p.guards))
    if n_put == 0:
        rep.violation("R1", f"{MOD}.SmartMeterMessagePayloadProtocol.message_received", "never-enqueues", "no path enqueues a payload", file, fn.node.lineno)
    elif not bad:
        rep.ok("R1", "payload protocol", f"{n_put} enqueuing path(s): guarded by is_valid, payload is not None and len(payload) > 0; the value is message.payload")
    # ---------------------------------------------------------------- R2
    fn2 = MP.methods["message_received"]
    ps2 = Engine(M).run(fn2)
    ok2 = len(ps2) == 1 and not ps2[0].guards and len([e for e in ps2[0].effects if e[0] in ("mutate", "callm")]) == 1 and \
        [e for e in ps2[0].effects if e[0] in ("mutate", "callm")][0][3] == (("p", fn2.params[0]),)
    if ok2:
        rep.ok("R2", "message protocol", "enqueues its argument unconditionally, once")
    else:
        rep.violation("R2", f"{MOD}.SmartMeterMessageProtocol.message_received", "unconditional-forward", "the message protocol does not enqueue every message unconditionally", file, fn2.node.lineno)
    # ---------------------------------------------------------------- R3 / R4: data_received
    dr = B.methods["data_received"]
    data = ("p", dr.params[0])
    # the selected-reader field: the only field of the base protocol (re)bound outside the constructor
    reach, work = set(), ["data_received"]
    while work:
        nm = work.pop()
        if nm in reach or nm not in B.methods:
            continue
        reach.add(nm)
        for n in ast.walk(B.methods[nm].node):
            if isinstance(n, ast.Call) and isinstance(n.func, ast.Attribute) and isinstance(n.func.value, ast.Name) and n.func.value.id == "self":
                work.append(n.func.attr)
    stores = {n.attr for name in reach for n in ast.walk(B.methods[name].node)
              if isinstance(n, ast.Attribute) and isinstance(n.ctx, ast.Store) and isinstance(n.value, ast.Name) and n.value.id == "self"}
    first_init = {}
    if B.methods.get("__init__"):
        for n in ast.walk(B.methods["__init__"].node):
            if isinstance(n, (ast.Assign, ast.AnnAssign)) and n.value is not None:
                for t in (n.targets if isinstance(n, ast.Assign) else [n.target]):
                    if isinstance(t, ast.Attribute) and isinstance(t.value, ast.Name) and t.value.id == "self" and (t.attr not in first_init or n.lineno < first_init[t.attr][0]):
                        first_init[t.attr] = (n.lineno, n.value)
    none_init = {a for a in stores if a in first_init and isinstance(first_init[a][1], ast.Constant) and first_init[a][1].value is None}
    rep.require(len(none_init) == 1, f"data_received (with its helpers {sorted(reach)}) rebinds {sorted(stores)}; cannot bind the selected-reader field (the one that starts as None)")
    SEL = none_init.pop()
    init_fn = B.methods.get("__init__")
    init_writes = [n for n in ast.walk(init_fn.node) if isinstance(n, ast.Attribute) and isinstance(n.ctx, ast.Store) and isinstance(n.value, ast.Name) and n.value.id == "self" and n.attr == SEL] if init_fn else []
    if len(init_writes) != 1:
        rep.violation("R3", f"{MOD}.SmartMeterBaseProtocol.__init__", "selection-in-constructor", "a reader is selected in the constructor, before it has produced a valid message: its messages are forwarded "
                      "without the selection pass (invalid messages before the first valid one reach the queue)", file, init_writes[-1].lineno if init_writes else B.node.lineno)
    # the candidate field: iterated by data_received (or a helper) and filled by the constructor from one of its parameters
    iterated = {a.attr for name in reach for n in ast.walk(B.methods[name].node) if isinstance(n, (ast.For, ast.comprehension))
                for a in ast.walk(n.iter) if isinstance(a, ast.Attribute) and isinstance(a.value, ast.Name) and a.value.id == "self"}  # (also through list(...), a slice, enumerate(...))
    try:
        init_paths = [p for p in Engine(M, split_ifexp=True).run(init_fn) if p.status in ("run", "return")] if init_fn else []
    except Exception as ex_:  # Unsupported
        raise Undecided(f"SmartMeterBaseProtocol.__init__ outside the analysed subset: {ex_}")

    def _mentions_param(sv):
        return isinstance(sv, tuple) and ((len(sv) == 2 and sv[0] == "p") or any(_mentions_param(x) for x in sv if isinstance(x, tuple)))
    cand = sorted({k[2] for p in init_paths for k, v in p.store.items() if k[0] == "f" and k[1] == SELF and k[2] in iterated and _mentions_param(v)})
    if not cand:
        # not iterated directly (`readers = (selected,) if selected else self.candidates; for r in readers`): the one field read by data_received that the constructor fills from a parameter
        loaded = {a.attr for name in reach for a in ast.walk(B.methods[name].node) if isinstance(a, ast.Attribute) and isinstance(a.ctx, ast.Load) and isinstance(a.value, ast.Name) and a.value.id == "self"}
        cand = sorted({k[2] for p in init_paths for k, v in p.store.items() if k[0] == "f" and k[1] == SELF and k[2] in loaded and k[2] != SEL and _mentions_param(v)})
    rep.require(len(cand) == 1, f"cannot bind the candidate list field (fields iterated by data_received and filled from a constructor parameter: {cand})")
    CAND = cand[0]
    # ownership: the protocol works on its own copy -- it empties the list when a reader is selected, so an aliased caller list would lose its readers
    # for the next protocol instance built from it (connection factories keep one list)
    mutated = any(isinstance(n, ast.Call) and isinstance(n.func, ast.Attribute) and n.func.attr in ("clear", "pop", "remove", "append", "extend", "insert", "sort", "reverse")
                  and isinstance(n.func.value, ast.Attribute) and n.func.value.attr == CAND for name in B.methods for n in ast.walk(B.methods[name].node)) or \
        any(isinstance(n, ast.Delete) and any(isinstance(t, ast.Subscript) and isinstance(t.value, ast.Attribute) and t.value.attr == CAND for t in n.targets) for name in B.methods for n in ast.walk(B.methods[name].node))
    own_bad = None
    for p in init_paths:
        v = strip_epoch(p.store.get(("f", SELF, CAND), ("c", None)))
        fresh = (v[0] == "call" and v[1] in ("list", "tuple", "sorted", ".copy", "copy", "deque") ) or v[0] in ("tuple", "gen", "slice", "opaque", "mut")
        if not fresh and v[0] == "p":
            own_bad = (v, p)
    if own_bad is not None and mutated:
        rep.violation("R4", f"{MOD}.SmartMeterBaseProtocol.__init__", "candidates-aliased", "the protocol keeps the caller's candidate list itself (no copy) and later modifies it: once a reader is selected the caller's list is "
                      "emptied, so the next protocol created from the same list (a reconnect through the connection factory) has no candidates and forwards nothing", file, init_fn.node.lineno,
                      witness="; ".join(("" if pol else "not ") + show_sv(g)[:60] for g, pol, _ in own_bad[1].guards) or "unconditionally")
    E = Engine(M, no_inline={"message_received"}, keep_props={"is_valid"})
    W = Walker(E, dr)
    loops = []
    body = [s for s in dr.node.body if not (isinstance(s, ast.Expr) and isinstance(s.value, ast.Constant))]
    ends = W.walk(body, [Path()], loops)
    SELF0 = ("f0", SELF, SEL)

    def sel_lit(p, post_only=False):
        """truthiness literal of the selected field on path p: (entry value literal, latest re-read literal)"""
        entry = post = None
        for g, pol, _ in p.guards:
            gs = strip_epoch(g)
            v = None
            if gs == SELF0:
                v = pol
            elif gs[0] == "cmp" and gs[1] == "Is" and gs[2] == SELF0 and gs[3] == ("c", None):
                v = not pol
            if v is not None:
                entry = v
            gh = None
            if g[0] == "havoc-field" and g[1] == SEL:
                gh = pol
            elif g[0] == "cmp" and g[1] == "Is" and g[2][0] == "havoc-field" and g[2][1] == SEL and g[3] == ("c", None):
                gh = not pol
            if gh is not None:
                post = gh
        cur = p.store.get(("f", SELF, SEL))
        if cur is not None and cur[0] == "iter":
            post = True  # the field was assigned a candidate reader object on this very path
        return entry, post

    all_loops = []

    def collect(ls, parent=None, depth=0):
        for l in ls:
            all_loops.append((l, parent, depth))
            collect(l.children, l, depth + 1)
    collect(loops)
    rep.count("loops", len(all_loops))
    viol = []

    # the two protocol classes interpreted (E-ABS) on scripted readers: what reaches the queue and which reader reads which chunk, compared with the reference
    sc = _scenarios(M, PP, MP, rep.tier == "thorough")
    shape_complaints = []

    def V(rule, key, text, line, wit=None):
        viol.append(key)
        if sc[0] == "ok":
            # on every scripted scenario the queue gets exactly what the property says: the form of the code is merely not one the path rules recognise
            shape_complaints.append(f"{key}: {text[:120]}")
            return
        rep.violation(rule, f"{MOD}.SmartMeterBaseProtocol.data_received", key, text, file, line, wit)
    if sc[0] == "bad":
        rep.violation("R3" if sc[3] == "select" else "R4", f"{MOD}.SmartMeterBaseProtocol.data_received", f"scenario:{sc[3]}", sc[1], file, dr.node.lineno, sc[2])
    elif sc[0] == "ok":
        rep.ok("R4", f"{sc[1]} scripted scenarios", "candidate lists of 1-3 scripted readers x 2-3 chunks x message lists with every placement of valid / invalid / empty-payload messages, both protocol "
               "classes interpreted through __init__ and data_received: the queue receives exactly the reference sequence, every candidate reads every chunk once until one is selected, the selected "
               "one reads every later chunk once")
    rep.count("scenarios", sc[1] if sc[0] == "ok" else 0)

    # forwarding loops
    n_fw = 0
    for l, parent, depth in all_loops:
        direct = [p for p in l.body if any(is_mr_call(e) for e in p.effects[_after_enter(p):])]
        nested = any(any(is_mr_call(e) for p in c.body for e in p.effects) for c in l.children)
        if not direct:
            continue
        n_fw += 1
        reader = read_call(l.iter_sv, data) if l.iter_sv is not None else None
        if reader is None:
            V("R4", "forward-source", "messages are forwarded from something that is not the complete list returned by a reader's read(data) of this call", l.node.lineno, show_sv(l.iter_sv)[:100] if l.iter_sv else "while loop")
            continue
        for p in l.body:
            eff = p.effects[_after_enter(p):]
            calls = [e for e in eff if is_mr_call(e)]
            extra_guards = p.guards[len(l.entry.guards):]
            if len(calls) != 1 or strip_epoch(calls[0][2]) != (l.var,) or extra_guards or p.status != "run":
                cond = "; ".join(("" if pol else "not ") + show_sv(g)[:60] for g, pol, _ in extra_guards)
                V("R4", "forward-conditional", "the selected reader's messages of a chunk are not forwarded completely and unconditionally: forwarding inside the loop depends on a per-message condition "
                  "(messages before the first valid one are lost) or skips/breaks", l.node.lineno, f"calls={len(calls)} status={p.status} conditions=[{cond}]")
                break
        # which reader, under which knowledge about the selection
        entry_sel, post_sel = sel_lit(l.entry)
        rd = strip_epoch(reader)
        if rd == SELF0:
            if entry_sel is not True:
                V("R4", "forward-before-selection", "messages are forwarded from the selected-reader field on a path where no reader is selected", l.node.lineno)
        elif rd[0] == "iter":
            # a candidate of this iteration: must be known selected (re-read of the field after the selection loop is truthy)
            if post_sel is not True:
                V("R4", "forward-unselected", "a candidate reader's messages are forwarded on a path that has not established that this reader was selected", l.node.lineno,
                  "; ".join(("" if pol else "not ") + show_sv(g)[:60] for g, pol, _ in l.entry.guards))
        else:
            V("R4", "forward-source", "forwarded messages come from an unrecognised reader expression", l.node.lineno, show_sv(rd)[:80])
    if n_fw == 0:
        V("R4", "never-forwards", "data_received never forwards messages", dr.node.lineno)
    # selection writes
    n_sel = 0
    cand_loop = None
    for l, parent, depth in all_loops:
        if l.iter_sv is not None and strip_epoch(_unlist(l.iter_sv)) == ("f0", SELF, CAND):
            cand_loop = l
    for l, parent, depth in all_loops:
        for p in l.body:
            for e in p.effects[_after_enter(p):]:
                if e[0] == "write" and e[1] == SELF and e[2] == SEL:
                    n_sel += 1
                    val = strip_epoch(e[3])
                    okv = cand_loop is not None and val == cand_loop.var
                    # guard: is_valid of a message iterating over read(candidate, data)
                    okg = False
                    for g, pol, _ in p.guards:
                        gs = strip_epoch(g)
                        if gs[0] == "call" and gs[1] == "any" and len(gs[2]) == 1 and gs[2][0][0] == "gen":
                            gs = gs[2][0][1]  # any(m.is_valid for m in <list>) : the element predicate
                        b, nm = attr_of(gs)
                        if nm == "is_valid" and pol and b[0] == "iter":
                            r = read_call(b[1], data)
                            if r is not None and strip_epoch(r) == (cand_loop.var if cand_loop else None):
                                okg = True
                    if not okv:
                        V("R3", "selection-value", "the selected reader is assigned something other than the candidate being tried", l.node.lineno, show_sv(val)[:80])
                    elif not okg:
                        V("R3", "selection-guard", "a reader is selected without one of ITS messages of this call being valid", l.node.lineno,
                          "; ".join(("" if pol else "not ") + show_sv(g)[:60] for g, pol, _ in p.guards))
    # conversely: a valid message of the candidate selects it -- no further condition on the message (payload, type, ...) may stand in the way
    for l, parent, depth in all_loops:
        for p in l.body:
            valid_true = False
            for g, pol, _ in p.guards:
                gs = strip_epoch(g)
                if gs[0] == "call" and gs[1] == "any" and len(gs[2]) == 1 and gs[2][0][0] == "gen":
                    gs = gs[2][0][1]
                b, nm = attr_of(gs)
                if nm == "is_valid" and pol and b[0] == "iter" and cand_loop is not None:
                    r = read_call(b[1], data)
                    if r is not None and strip_epoch(r) == cand_loop.var:
                        valid_true = True
            if valid_true and p.status in ("run", "continue", "break", "return") and not any(e[0] == "write" and e[1] == SELF and e[2] == SEL for e in p.effects):
                V("R3", "selection-extra-condition", "a candidate whose message of this call is valid is not selected on some path: selection depends on more than is_valid (e.g. on the payload), so the chunk's "
                  "messages are dropped and another reader can take the selection later", l.node.lineno, "; ".join(("" if pol else "not ") + show_sv(g)[:60] for g, pol, _ in p.guards))
    for p in ends:
        for e in p.effects:
            if e[0] == "write" and e[1] == SELF and e[2] == SEL:
                V("R3", "selection-outside-loop", "the selected reader is assigned outside the candidate loop", dr.node.lineno)
    if n_sel == 0:
        V("R3", "never-selects", "no reader is ever selected", dr.node.lineno)
    # candidate loop discipline
    if cand_loop is None:
        V("R4", "no-candidate-loop", "data_received does not iterate over the candidate readers", dr.node.lineno)
    else:
        for p in cand_loop.body:
            if any(strip_epoch(g) == strip_epoch(cand_loop.var) and not pol for g, pol, _ in p.guards):
                continue  # a reader object is truthy (R5 checks that no reader class defines __bool__/__len__)
            eff = p.effects[_after_enter(p):]
            reads = [e for e in eff if (e[0] in ("call", "callm")) and str(e[1] if e[0] == "call" else e[2]).endswith("read")]
            reads_sv = _count_reads(p, cand_loop.var, data)
            entry_sel, post_sel = sel_lit(p)
            own = p.guards[len(cand_loop.entry.guards):]
            if reads_sv != 1:
                V("R4", "candidate-read-count", f"a candidate reader is fed the chunk {reads_sv} times on some path of its iteration (every candidate must see every chunk exactly once until a reader is selected)",
                  cand_loop.node.lineno, "; ".join(("" if pol else "not ") + show_sv(g)[:50] for g, pol, _ in own))
            if p.status in ("break", "return") and post_sel is not True:
                V("R4", "leave-without-selection", "the candidate loop is left although no reader was selected: later candidates never see this chunk and miss bytes of their messages", cand_loop.node.lineno,
                  "; ".join(("" if pol else "not ") + show_sv(g)[:50] for g, pol, _ in own))
            if post_sel is True and p.status not in ("break", "return"):
                V("R4", "continue-after-selection", "after a reader was selected the loop continues with the other candidates", cand_loop.node.lineno)
            if post_sel is True:
                fw = [c for c in cand_loop.children if any(is_mr_call(e) for q in c.body for e in q.effects) and any(e[0] == "loop-ref" and e[1] == id(c) for e in p.effects)]
                if not fw:
                    V("R4", "selected-not-forwarded", "the chunk in which a reader is selected is not forwarded", cand_loop.node.lineno)
    if shape_complaints and not os.environ.get("C13_STRICT_FORM"):
        # data_received has no state beyond (selected reader, candidate list) and treats the messages of a read() one by one: the scripted scenarios enumerate every
        # placement of the message kinds over one or two readers and two chunks (plus random longer ones), which decides its behaviour; the path rules only re-derive it
        rep.notes.append("form outside the path rules (decided by the scripted scenarios): " + "; ".join(shape_complaints[:3]))
    elif shape_complaints:
        rep.undecide("R3 data_received behaves as specified on all scripted scenarios, but its form is outside the path rules that extend this to every stream: " + "; ".join(shape_complaints[:3]))
    if not viol:
        rep.ok("R3", f"{n_sel} selection site(s)", "assigned only in the candidate loop, to the candidate itself, guarded by is_valid of a message from that candidate's read(data) of this call")
        rep.ok("R4", f"{n_fw} forwarding loop(s)", "each iterates completely and unconditionally over read(data) of the reader known selected on that path; candidate loop left only after selection; each candidate reads the chunk once")
    # ---------------------------------------------------------------- R5
    callers = []
    for m in src.text:
        for n in ast.walk(src.tree(m)):
            if isinstance(n, ast.Call) and isinstance(n.func, ast.Attribute) and n.func.attr == "message_received":
                callers.append((m, n.lineno))
    inside = [n.lineno for name in reach for n in ast.walk(B.methods[name].node) if isinstance(n, ast.Call) and isinstance(n.func, ast.Attribute) and n.func.attr == "message_received"]
    outside = [c for c in callers if not (c[0] == MOD and c[1] in inside)]
    puts = []
    for m in src.text:
        if m.startswith("@"):
            continue
        for n in ast.walk(src.tree(m)):
            if isinstance(n, ast.Call) and isinstance(n.func, ast.Attribute) and n.func.attr in ("put_nowait", "put") and "queue" in ast.unparse(n.func.value):
                puts.append((m, n.lineno))
    # functions from which the queue may be written: message_received of the two protocols, and helpers that are called from nowhere else
    fdefs = []  # (module, FunctionDef)
    for m in src.text:
        if m.startswith("@"):
            continue
        for n in ast.walk(src.tree(m)):
            if isinstance(n, (ast.FunctionDef, ast.AsyncFunctionDef)):
                fdefs.append((m, n))

    def enclosing(m, line):
        best = None
        for fm, fd in fdefs:
            if fm == m and fd.lineno <= line <= fd.end_lineno and (best is None or fd.lineno >= best.lineno):
                best = fd
        return best
    allowed = {id(c.methods["message_received"].node) for c in (PP, MP)}
    # one pass over the program: call sites and references by name
    sites_by, refs_by = {}, {}
    for m in src.text:
        if m.startswith("@"):
            continue
        for n in ast.walk(src.tree(m)):
            if isinstance(n, ast.Call):
                nm_ = n.func.attr if isinstance(n.func, ast.Attribute) else n.func.id if isinstance(n.func, ast.Name) else None
                if nm_:
                    sites_by.setdefault(nm_, []).append((m, n.lineno))
            if isinstance(n, ast.Attribute):
                refs_by.setdefault(n.attr, []).append(n)
            elif isinstance(n, ast.Name):
                refs_by.setdefault(n.id, []).append(n)
    changed = True
    while changed:
        changed = False
        for fm, fd in fdefs:
            if id(fd) in allowed or fd.name.startswith("__"):
                continue
            sites = sites_by.get(fd.name, [])
            refs = refs_by.get(fd.name, [])
            if sites and len(refs) == len(sites) and all((e := enclosing(m, ln)) is not None and id(e) in allowed for m, ln in sites):
                allowed.add(id(fd))
                changed = True
    bad_puts = [x for x in puts if (e := enclosing(x[0], x[1])) is None or id(e) not in allowed]
    if outside:
        rep.violation("R5", f"{MOD}", "message_received-caller", "message_received is called from outside data_received", src.file(outside[0][0]), outside[0][1])
    elif bad_puts:
        rep.violation("R5", f"{MOD}", "queue-writer", "the destination queue is written outside message_received", src.file(bad_puts[0][0]), bad_puts[0][1])
    else:
        rep.ok("R5", "who may call", f"message_received is called only from data_received ({len(inside)} site(s)); the queue is written only by message_received ({len(puts)} site(s))")
    # sound presence test: truthiness of a reader object
    uses_truthiness = True
    if uses_truthiness:
        offenders = []
        for (mm, cn), c in M.classes.items():
            if cn.endswith("Reader") or cn == "MeterReaderBase":
                for meth in ("__bool__", "__len__"):
                    if meth in c.methods:
                        offenders.append(f"{mm}.{cn}.{meth}")
        if offenders:
            rep.violation("R5", f"{MOD}.SmartMeterBaseProtocol.data_received", "reader-truthiness", "the reader-presence test uses truthiness but a reader class defines " + ", ".join(offenders), file, dr.node.lineno)
        else:
            rep.ok("R5", "reader presence test", "truthiness of a reader object is sound: no reader class defines __bool__ or __len__")
    from sa.cross import include
    include(rep, src, "C14", {"R1"}, "R6", "every candidate reader can be fed every chunk: read() does not raise on bytes of the other protocol", at_prefix=("dlde.", "hdlc."))
    include(rep, src, "C02", {"R1", "R2", "R3"}, "R6", "on a clean HDLC stream the HDLC reader delivers every frame for every chunking")
    include(rep, src, "C05", {"R1", "R2", "R3", "R4"}, "R6", "on a clean P1 stream the P1 reader delivers every readout for every chunking")
    include(rep, src, "C04", {"R1", "R2", "R3", "R4"}, "R6", "every well-formed readout of a clean stream is reported valid (checksum, identification line, characters), so its payload reaches the queue")
    include(rep, src, "C01", {"R1", "R3"}, "R6", "every intact frame of a clean stream is reported valid (FCS good, length field = number of octets, the length sub-field read with all its 11 bits), so its payload reaches the queue")
    include(rep, src, "C04", {"R5"}, "R6", "every standard identification line is recognised (a readout whose identification line is rejected is never delivered, so nothing of it reaches the queue)")
    rep.floor("loops in data_received", len(all_loops), 3)


def _after_enter(p):
    idx = 0
    for i, e in enumerate(p.effects):
        if e[0] == "loop-enter":
            idx = i + 1
    return idx


def _unlist(sv):
    if sv[0] == "call" and sv[1] in ("list", "tuple") and len(sv[2]) == 1:
        return sv[2][0]
    return sv


def _count_reads(p, var, data):
    n = 0
    for e in p.effects[_after_enter(p):]:
        if e[0] == "call" and isinstance(e[1], str) and e[1].endswith("read") and len(e[2]) >= 1:
            n += 1
        elif e[0] == "callm" and str(e[2]).endswith("read"):
            n += 1
    # reads that happen in expression position (messages = reader.read(data)) are visible in the store / guards / nested loop iterators
    seen = set()

    def scan(sv):
        if isinstance(sv, tuple):
            if sv and sv[0] == "call" and isinstance(sv[1], str) and sv[1].endswith("read") and len(sv) > 3 and len(sv[2]) == 2 and strip_epoch(sv[2][0]) == strip_epoch(var):
                seen.add(sv[3])
            for x in sv:
                scan(x)
    for v in p.store.values():
        scan(v)
    for g, _, _ in p.guards:
        scan(g)
    for e in p.effects:
        scan(e)
    return max(n, len(seen))


def thorough(src, rep):
    from sa.selfval.harness import run_selfval
    run_selfval("C13", src, rep)
