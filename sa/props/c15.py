"""C15 - AutoDecoder returns a dictionary or None for every input, and terminates (level: other).

R1 escape set of every table decoder (grammar lambdas outside Select/GreedyRange + typed analysis of the normalisers over the
grammar IR + the P1 text decoder) is covered by the except clause around the call, in both decode methods;
R2 termination of the P1 scanner (unchecked find() results never drive a loop position; every loop iteration makes progress);
R3 every GreedyRange body consumes at least one octet, Array counts come from one octet; R4 return kinds.
"""
from __future__ import annotations

import ast

from sa.consir import EnumVal, Expr, N, World, all_nodes, consumption
from sa.consteval import ConstEval, NotConstant
from sa.excflow import Escape, IRTypes, Typed, covered, lambda_escapes, scan_path
from sa.lameval import Ctx, LamEval
from sa.model import Func, Model
from sa.paths import Engine, Path, loop_paths_at, show_sv, strip_epoch
from sa.props.c13 import Walker, _after_enter
from sa.report import Undecided

LEVEL = "other"
DECODER_MODS = ("aidon", "kaifa", "kamstrup")


BUILTIN_CALLS = {"range", "len", "cast", "isinstance", "enumerate", "list", "tuple", "zip", "min", "max", "print", "bool", "int", "str"}


def handler_names(M):
    """per decoder call site of the two decode methods: the exception classes named by the enclosing try/except"""
    sites = []
    C = M.classes.get(("autodecoder", "AutoDecoder"))
    if C is None:
        raise Undecided("anchor vanished: AutoDecoder")
    for mname in ("decode_message_payload", "decode_message"):
        fn = C.methods.get(mname)
        if fn is None:
            raise Undecided(f"anchor vanished: AutoDecoder.{mname}")
        parents = {c: p for p in ast.walk(fn.node) for c in ast.iter_child_nodes(p)}
        for c in ast.walk(fn.node):
            if not isinstance(c, ast.Call):
                continue
            f = c.func
            is_dec = (isinstance(f, ast.Name) and f.id not in BUILTIN_CALLS) or isinstance(f, ast.Subscript) or (isinstance(f, ast.Attribute) and f.attr.startswith("decode"))
            if not is_dec:
                continue
            names = []
            cur = c
            while cur in parents:
                par = parents[cur]
                if isinstance(par, ast.Try) and any(cur is s or cur in list(ast.walk(s)) for s in par.body):
                    for h in par.handlers:
                        if h.type is None:
                            names.append("BaseException")
                        elif isinstance(h.type, ast.Tuple):
                            names += [ast.unparse(e) for e in h.type.elts]
                        else:
                            names.append(ast.unparse(h.type))
                cur = par
            sites.append((mname, c.lineno, names, ast.unparse(f)[:40]))
    if not sites:
        raise Undecided("no decoder call site found in AutoDecoder")
    return sites


class ModuleTyping:
    """parameter kinds of the normaliser functions of one decoder module, propagated from the .parse() roots.

    The propagation is run once per variant of each root grammar (one alternative of a Select at a time), and constant Computed members
    (the discriminator each variant carries) are evaluated, so that a test or a match on the discriminator -- in whichever function and
    whichever syntactic form it is made -- selects the branch that variant really takes.  A test that is not decided keeps both branches."""

    def __init__(self, M, w, T, mod, le=None):
        self.M, self.w, self.T, self.mod = M, w, T, mod
        self.le = le or LamEval(M)
        self.types = {}  # function name -> {param: kind set}
        self.ir = w.module(mod).env
        self.tree = M.mods[mod]
        self.funcs = {s.name: s for s in self.tree.body if isinstance(s, ast.FunctionDef)}
        self.menv = None
        entries = [f for f in ("decode_frame_content", "decode_notification_body") if f in self.funcs]
        for f in entries:
            self.types[f] = {}
            roots = set()
            for c in ast.walk(self.funcs[f]):
                if isinstance(c, ast.Call) and isinstance(c.func, ast.Attribute) and c.func.attr == "parse" and isinstance(c.func.value, ast.Name) and isinstance(self.ir.get(c.func.value.id), N):
                    roots |= self.T.result(self.ir[c.func.value.id])
            for v in sorted(roots, key=repr) or [None]:
                self.run(f, v)

    def run(self, entry, variant):
        self.variant = variant
        types, consts = {entry: {}}, {entry: {}}
        work = [entry]
        seen = 0
        while work and seen < 80:
            seen += 1
            f = work.pop()
            for callee, ptypes, pconsts in self.flow(self.funcs[f], dict(types.get(f, {})), dict(consts.get(f, {}))):
                cur = types.setdefault(callee, {})
                curc = consts.setdefault(callee, {})
                changed = False
                for k, v in ptypes.items():
                    if not v <= cur.get(k, set()):
                        cur[k] = cur.get(k, set()) | v
                        changed = True
                for k in list(curc) + list(pconsts):
                    nv = pconsts.get(k)
                    old = curc.get(k, "unset")
                    new = nv if old == "unset" else (None if (old is None or nv is None) else old | nv)
                    if new != old:
                        curc[k] = new
                        changed = True
                if changed and callee in self.funcs and callee not in work:
                    work.append(callee)
        for f, pt in types.items():
            cur = self.types.setdefault(f, {})
            for k, v in pt.items():
                cur[k] = cur.get(k, set()) | v

    def chain(self, node, env):
        if isinstance(node, ast.Name):
            return env.get(node.id)
        if isinstance(node, ast.Attribute):
            base = self.chain(node.value, env)
            if base is None:
                return None
            out = set()
            for k in base:
                if k[0] == "node":
                    m = self.T.members(k).get(node.attr)
                    if m is not None:
                        out |= self.T.result(m)
            return out
        if isinstance(node, ast.Call) and isinstance(node.func, ast.Attribute) and node.func.attr == "parse" and isinstance(node.func.value, ast.Name):
            g = self.ir.get(node.func.value.id)
            if isinstance(g, N):
                r = self.T.result(g)
                return {self.variant} if self.variant in r else r
        return None

    def const_of(self, node, env, cenv):
        """the set of constant values the expression can have for this variant (constant Computed members), or None if not known"""
        if isinstance(node, ast.Name):
            return cenv.get(node.id)
        if isinstance(node, ast.Attribute):
            base = self.chain(node.value, env)
            if not base:
                return None
            vals = set()
            for k in base:
                if k[0] != "node":
                    return None
                m = self.T.members(k).get(node.attr)
                if m is None or m.kind != "Computed" or not isinstance(m.a.get("expr"), Expr):
                    return None
                e = m.a["expr"]
                try:
                    v = self.le.call_lambda(e.node, [Ctx()], e.mod or self.mod, extra=dict(self.le.module_env(e.mod or self.mod)))
                    hash(v)
                except Exception:
                    return None
                vals.add(v)
            return vals
        return None

    def literal(self, node):
        try:
            if self.menv is None:
                self.menv = dict(self.le.module_env(self.mod))
            v = self.le.eval(node, dict(self.menv), self.mod)
            hash(v)
            return (v,)
        except Exception:
            return None

    def decide(self, test, env, cenv):
        """True / False / None (both ways)"""
        if isinstance(test, ast.UnaryOp) and isinstance(test.op, ast.Not):
            d = self.decide(test.operand, env, cenv)
            return None if d is None else not d
        if isinstance(test, ast.Compare) and len(test.ops) == 1 and isinstance(test.ops[0], (ast.Eq, ast.NotEq, ast.Is, ast.IsNot)):
            for x, y in ((test.left, test.comparators[0]), (test.comparators[0], test.left)):
                vals = self.const_of(x, env, cenv)
                lit = self.literal(y) if vals is not None else None
                if vals is not None and lit is not None:
                    eq = [v == lit[0] for v in vals]
                    neg = isinstance(test.ops[0], (ast.NotEq, ast.IsNot))
                    if all(eq):
                        return not neg
                    if not any(eq):
                        return neg
                    return None
        return None

    def flow(self, fn, env, cenv):
        calls = []

        def note_calls(node, env, cenv):
            for c in ast.walk(node):
                if isinstance(c, ast.Call) and isinstance(c.func, ast.Name) and c.func.id in self.funcs:
                    callee = self.funcs[c.func.id]
                    params = [a.arg for a in callee.args.args]
                    pt, pc = {}, {}
                    pairs = list(zip(params, c.args)) + [(k.arg, k.value) for k in c.keywords if k.arg in params]
                    for pn, a in pairs:
                        t = self.chain(a, env)
                        if t is not None:
                            pt[pn] = set(t)
                        pc[pn] = self.const_of(a, env, cenv)
                    calls.append((c.func.id, pt, pc))

        def block(stmts, env, cenv):
            for s in stmts:
                if isinstance(s, (ast.Assign, ast.AnnAssign)):
                    tgt = s.targets[0] if isinstance(s, ast.Assign) else s.target
                    if isinstance(tgt, ast.Name) and s.value is not None:
                        t = self.chain(s.value, env)
                        cv = self.const_of(s.value, env, cenv)
                        if t is not None:
                            env[tgt.id] = t
                        else:
                            env.pop(tgt.id, None)
                        cenv[tgt.id] = cv
                if isinstance(s, ast.If):
                    note_calls(s.test, env, cenv)
                    d = self.decide(s.test, env, cenv)
                    if d is not False:
                        block(s.body, dict(env), dict(cenv))
                    if d is not True:
                        block(s.orelse, dict(env), dict(cenv))
                    if d is True and s.body and isinstance(s.body[-1], (ast.Return, ast.Raise)):
                        return True
                elif isinstance(s, ast.Match):
                    note_calls(s.subject, env, cenv)
                    vals = self.const_of(s.subject, env, cenv)
                    remaining = set(vals) if vals is not None else None
                    for case in s.cases:
                        pats = case.pattern.patterns if isinstance(case.pattern, ast.MatchOr) else [case.pattern]
                        lits = [self.literal(p.value) if isinstance(p, ast.MatchValue) else None for p in pats]
                        wildcard = any(isinstance(p, ast.MatchAs) and p.pattern is None for p in pats)
                        if remaining is None or case.guard is not None or (not wildcard and any(l is None for l in lits)):
                            block(case.body, dict(env), dict(cenv))
                            if remaining is not None and (case.guard is not None or any(l is None for l in lits)):
                                remaining = None if not wildcard else remaining
                            continue
                        hit = set(remaining) if wildcard else {v for v in remaining if any(v == l[0] for l in lits)}
                        if hit:
                            block(case.body, dict(env), dict(cenv))
                            remaining -= hit
                elif isinstance(s, (ast.For, ast.While, ast.With, ast.AsyncWith)):
                    for fld in ("iter", "test"):
                        if getattr(s, fld, None) is not None:
                            note_calls(getattr(s, fld), env, cenv)
                    block(s.body, env, cenv)
                    block(getattr(s, "orelse", []), env, cenv)
                elif isinstance(s, ast.Try):
                    block(s.body, env, cenv)
                    for h in s.handlers:
                        block(h.body, dict(env), dict(cenv))
                    block(s.orelse, env, cenv)
                    block(s.finalbody, env, cenv)
                elif isinstance(s, (ast.FunctionDef, ast.AsyncFunctionDef, ast.ClassDef)):
                    pass
                else:
                    note_calls(s, env, cenv)
                    if isinstance(s, (ast.Return, ast.Raise)):
                        return True
            return False

        block(fn.body, env, cenv)
        return calls


def check(src, rep):
    M = Model(src)
    ce = ConstEval(M)
    le = LamEval(M)
    w = World(src)
    T = IRTypes(w)
    rep.count("modules", len(src.text))
    rep.assumptions += ["construct 2.10: parse errors are ConstructError subclasses; Select and GreedyRange swallow every exception of their alternatives/elements except ExplicitError; "
                        "Computed/Check/ExprAdapter lambdas propagate raw exceptions (summary written from the installed library's source)",
                        "every kind in the kind-set of a parse result is realisable by some input (the wire is arbitrary)",
                        "general AttributeError/TypeError freedom of non-wire values is type safety and is not decided (no type checker available)"]
    rep.explanation = ("Decided: for each of the seven table decoders the set of exception classes that can leave it - raw exceptions of grammar lambdas outside Select/GreedyRange evaluated on the "
                       "None value class of their inputs, partial operations of the normalisers on parse results whose kind-set (derived from the grammar IR) contains a kind they are not defined on "
                       "and that no guard on the path removes, dictionary look-ups with wire-derived keys without membership test, explicit raises, and the partial built-ins of the P1 text decoder - "
                       "is covered by the except clause around the decoder call in both decode methods; the P1 scanner's loop positions never depend on an unchecked find() result and every iteration "
                       "advances; every GreedyRange body consumes at least one octet. NOT decided: the polynomial time/memory bound.")
    try:
        table = ce.class_const("autodecoder", "AutoDecoder", "payload_decoder_functions")
    except NotConstant as e:
        raise Undecided(f"decoder table not constant: {e}")
    # which exception classes raised by a table decoder leave the AutoDecoder: decided by interpreting both decode methods (E-ABS) with every
    # decoder replaced by an oracle that raises the class in question -- independent of how the try/except is written
    from sa.abseval import AbsEval, AObj, AbsRaise
    from sa.sveval import Res
    AC = M.classes.get(("autodecoder", "AutoDecoder"))
    if AC is None or "decode_message_payload" not in AC.methods or "decode_message" not in AC.methods:
        raise Undecided("anchor vanished: AutoDecoder.decode_message_payload / decode_message")
    mem = list(AC.field_inits)
    caught_memo = {}

    def escapes_autodecoder(cls):
        """names of the decode methods that let `cls` (raised by a decoder) escape; raises Undecided when not interpretable"""
        if cls not in caught_memo:
            out = []
            for mname in ("decode_message_payload", "decode_message"):
                AE = AbsEval(M)

                def oracle(args, kw, cls=cls):
                    raise AbsRaise(cls)
                for nm, fr in table:
                    AE.func_hooks[(fr.mod, fr.node.name)] = oracle
                AE.func_hooks[("dlde", "decode_p1_readout")] = oracle
                for prev in (None, 3):
                    for mtype in (("HdlcFrame", "DataReadout") if mname == "decode_message" else ("payload",)):
                        obj = AObj("AutoDecoder", {}, cls_key=("autodecoder", "AutoDecoder"))
                        if AC.methods.get("__init__") is not None:
                            AE0 = AbsEval(M)
                            AE0.apply(AC.methods["__init__"], [obj])
                        if prev is not None:
                            AEp = AbsEval(M)
                            for k_, (nm_, fr_) in enumerate(table):
                                AEp.func_hooks[(fr_.mod, fr_.node.name)] = (lambda args, kw, k_=k_: (Res("r") if k_ == prev else (_ for _ in ()).throw(AbsRaise("ValueError"))))
                            AEp.apply(AC.methods["decode_message_payload"], [obj, b"\x01\x02"])
                        arg = b"\x01\x02" if mtype == "payload" else AObj(mtype, {"payload": b"\x01\x02", "is_valid": True, "as_bytes": b"\x01\x02"})
                        r = AE.apply(AC.methods[mname], [obj, arg])
                        if r[0] in ("undecided", "branch"):
                            raise Undecided(f"AutoDecoder.{mname} outside the interpreted subset: {r[1]}")
                        if r[0] == "raise" and mname not in out:
                            out.append(mname)
            caught_memo[cls] = out
        return caught_memo[cls]

    handlers = [((), "decode_message_payload", AC.methods["decode_message_payload"].node.lineno)]
    rep.count("decoder_call_sites", 2)
    for base_cls in ("ValueError", "ConstructError", "StreamError"):
        esc_m = escapes_autodecoder(base_cls)
        if esc_m:
            rep.violation("R1", f"autodecoder.AutoDecoder.{esc_m[0]}", "unprotected-decoder-call", f"a decoder rejecting with {base_cls} is not caught: its rejections escape AutoDecoder", src.file("autodecoder"),
                          AC.methods[esc_m[0]].node.lineno, witness=base_cls)
    n_sites = 0
    n_esc = 0
    reported = set()

    def sink_for(decoder_name, mod):
        def sink(esc: Escape):
            nonlocal n_esc
            for mname in escapes_autodecoder(esc.cls.split(".")[-1]):
                key = (esc.cls, esc.origin)
                if key in reported:
                    return
                reported.add(key)
                n_esc += 1
                rep.violation("R1", f"{mod}.{esc.origin.split(':')[0]}", f"escape:{esc.cls}:{esc.origin.split(':', 1)[-1]}",
                              f"{esc.cls} can leave decoder '{decoder_name}' and is not caught around the decoder call of AutoDecoder.{mname}: {esc.text}", src.file(mod), esc.line)
                return
        return sink

    # ---- grammar lambdas + typed normalisers, per COSEM decoder module
    consts = {}
    for k, v in ce.module_env("obis_map").items():
        if isinstance(v, dict):
            consts[("g2", "obis_map", k)] = v
            consts[("f0", ("g", "obis_map"), k)] = v
    for shared_ in ("cosem", "obis", "common"):
        # tables of the shared helper modules (a grammar lambda defined there indexes them by its bare name)
        if shared_ in M.mods:
            for k, v in ce.module_env(shared_).items():
                if isinstance(v, (dict, list)) and not k.startswith("__"):
                    consts.setdefault(("g", k), v)
    for mod in DECODER_MODS:
        mt = ModuleTyping(M, w, T, mod)
        for k, v in ce.module_env(mod).items():
            if isinstance(v, (dict, list)):
                consts[("g", k)] = v
        names = [n for n, fr in table if fr.mod == mod]
        dn = "/".join(names) or mod
        sink = sink_for(dn, mod)
        for gname in ("LlcPdu", "NotificationBody"):
            g = w.module(mod).env.get(gname)
            if not isinstance(g, N):
                raise Undecided(f"{mod}.{gname} grammar not extracted")
            esc, ns = lambda_escapes(w, g, le, mod)
            n_sites += ns
            for e in esc:
                e.origin = f"{gname}:{e.origin}"
                sink(e)
        # the public normalisers interpreted on abstract parse results of every kind of every position (E-ABS): what they really raise
        from sa.parsedworlds import normaliser_outcomes
        from sa.decoders import obis_hook as _oh
        world_classes, world_und = {}, None
        for gname, nname in (("LlcPdu", "normalize_parsed_frame"), ("NotificationBody", "normalize_parsed_notification")):
            nfn = M.funcs.get(f"{mod}.{nname}")
            g = w.module(mod).env.get(gname)
            if nfn is None or not isinstance(g, N):
                world_und = f"{mod}.{nname} / {gname} not found"
                continue
            try:
                outs_, nobj_, und_ = normaliser_outcomes(M, T, mod, g, nfn, hooks={"Obis.from_string": _oh})
            except Exception as ex_:  # noqa
                outs_, nobj_, und_ = [], 0, f"{type(ex_).__name__}: {ex_}"
            n_sites += nobj_
            if und_:
                world_und = und_
            for desc_, r_ in outs_:
                if r_[0] == "raise":
                    world_classes.setdefault(r_[1], (nfn, desc_))
        for cls_, (nfn, desc_) in sorted(world_classes.items()):
            sink(Escape(cls_, f"{nfn.name}:abstract-parse-result", nfn.node.lineno, f"{nfn.name} raises {cls_} on an abstract parse result the grammar can produce ({desc_})"))
        rep.count("abstract_parse_results", 1 if not world_und else 0)
        for fname, ptypes in sorted(mt.types.items()):
            fnode = mt.funcs.get(fname)
            if fnode is None:
                continue
            fn = M.funcs.get(f"{mod}.{fname}")
            if fn is None:
                continue
            tv = Typed(T, {k: set(v) for k, v in ptypes.items()}, consts)
            E = Engine(M, inline_depth=0, split_ifexp=True)
            W = Walker(E, fn)
            loops = []
            ends = W.walk(fn.node.body, [Path()], loops)
            allp = [(p, 0) for p in ends]

            def add_loops(ls):
                for l in ls:
                    for p in l.body:
                        allp.append((p, _after_enter(p)))
                    add_loops(l.children)
            add_loops(loops)
            def lex_sink(esc, fnode=fnode, sink=sink):
                # an attribute read that is written only inside try blocks catching AttributeError (EAFP probes) cannot let the class out
                if esc.cls == "AttributeError" and ":." in esc.origin:
                    attr_ = esc.origin.split(":.", 1)[1]
                    reads_ = [n_ for n_ in ast.walk(fnode) if isinstance(n_, ast.Attribute) and n_.attr == attr_ and isinstance(n_.ctx, ast.Load)]

                    def caught_at(n_):
                        for t_ in ast.walk(fnode):
                            if isinstance(t_, ast.Try) and any(n_ in list(ast.walk(b_)) for b_ in t_.body):
                                names__ = [x__ for h_ in t_.handlers for x__ in ([ast.unparse(x_) for x_ in (h_.type.elts if isinstance(h_.type, ast.Tuple) else [h_.type])] if h_.type is not None else ["BaseException"])]
                                if covered("AttributeError", names__):
                                    return True
                            if isinstance(t_, (ast.With, ast.AsyncWith)) and any(n_ in list(ast.walk(b_)) for b_ in t_.body):
                                names__ = [ast.unparse(a_) for it_ in t_.items if isinstance(it_.context_expr, ast.Call) and ast.unparse(it_.context_expr.func).endswith("suppress") for a_ in it_.context_expr.args]
                                if names__ and covered("AttributeError", names__):
                                    return True
                        return False
                    if reads_ and all(caught_at(n_) for n_ in reads_):
                        return
                # a partial operation written inside a try whose handler names the class (or a base of it) does not let that class out
                for t_ in ast.walk(fnode):
                    if isinstance(t_, ast.Try) and any(getattr(b_, "lineno", 0) <= esc.line <= getattr(b_, "end_lineno", 0) for b_ in t_.body):
                        names_ = [n_ for h_ in t_.handlers for n_ in ([ast.unparse(x_) for x_ in (h_.type.elts if isinstance(h_.type, ast.Tuple) else [h_.type])] if h_.type is not None else ["BaseException"])]
                        if covered(esc.cls, names_):
                            return
                    if isinstance(t_, (ast.With, ast.AsyncWith)) and any(getattr(b_, "lineno", 0) <= esc.line <= getattr(b_, "end_lineno", 0) for b_ in t_.body):
                        names_ = [ast.unparse(a_) for it_ in t_.items if isinstance(it_.context_expr, ast.Call) and ast.unparse(it_.context_expr.func).endswith("suppress") for a_ in it_.context_expr.args]
                        if names_ and covered(esc.cls, names_):
                            return
                sink(esc)
            for p, start in allp:
                n_sites += 1
                scan_path(p, tv, fname, lex_sink, start)
    # ---- the P1 decoder: partial built-ins and explicit raises, by AST census with the handler
    _p1_escapes(rep, M, src, sink_for("P1", "dlde"))
    n_sites += _p1_partial_ops(rep, M, sink_for("P1", "dlde"))
    rep.count("p1_readout_samples", _p1_readout_samples(rep, M, sink_for("P1", "dlde")))
    if n_esc == 0:
        rep.ok("R1", f"{len(table)} table decoders", f"{n_sites} lambda sites / normaliser paths analysed: every exception class that can leave a decoder ({sorted(caught_memo)}) is caught by both decode methods (oracle decoders raising each class, E-ABS)")
    rep.count("analysed_sites", n_sites)
    from sa.cross import include
    include(rep, src, "C20", {"R1", "R2"}, "R1", "the OBIS parser behind the P1 and COSEM decoders rejects malformed codes with ValueError only (no TypeError from absent regex groups)")
    include(rep, src, "C09", {"R2"}, "R1", "the Kamstrup normaliser is well-typed for lists without / with a non-text meter-type element (no AttributeError/TypeError)")
    include(rep, src, "C12", {"R1", "R2", "R5"}, "R1", "nothing escapes the rotation itself for any history (remembered index always valid); decode_message hands only real payloads to the decoders")
    rep.floor("analysed sites", n_sites, 40)
    # ---------------------------------------------------------------- R2 scanner termination
    _scanner(rep, M, src)
    # regular expressions applied to wire text: no shape that makes the backtracking matcher exponential
    from sa.regexa import redos_witness
    n_rx = 0
    for m_ in src.package_modules():
        for n_ in ast.walk(src.tree(m_)):
            if isinstance(n_, ast.Call) and ast.unparse(n_.func).split(".")[-1] in ("compile", "compile_regex", "regex_compile", "match", "fullmatch", "search", "sub", "split", "findall", "finditer") \
                    and n_.args and ("re" in ast.unparse(n_.func) or "compile" in ast.unparse(n_.func)):
                try:
                    pat_ = ce.eval(n_.args[0], {}, m_)
                except NotConstant:
                    continue
                if not isinstance(pat_, str):
                    continue
                n_rx += 1
                wit_ = redos_witness(pat_)
                if wit_:
                    rep.violation("R2", f"{m_}", f"regex-backtracking:line{n_.lineno}", f"a regular expression applied to wire text contains {wit_}: matching time grows exponentially with the length of a "
                                  "non-matching input, so decoding does not terminate in reasonable time for some inputs", src.file(m_), n_.lineno, witness=pat_[:80])
    rep.count("regular_expressions", n_rx)
    if n_rx:
        rep.ok("R2", f"{n_rx} regular expression(s)", "no unbounded repetition nested in an unbounded repetition with overlapping characters / empty-matching body")
    # ---------------------------------------------------------------- R3 grammar termination
    bad = 0
    ng = 0
    for mod in ("cosem",) + DECODER_MODS:
        for name, g in w.module(mod).env.items():
            if not isinstance(g, N):
                continue
            for n in all_nodes(g):
                if n.kind == "GreedyRange":
                    ng += 1
                    lo, hi = consumption(n.a["sub"])
                    if lo < 1:
                        bad += 1
                        rep.violation("R3", f"{mod}.{name}", "greedy-range-no-progress", "a GreedyRange body can succeed without consuming input: parsing does not terminate", src.file(mod), n.line or 1)
                if n.kind == "Array":
                    c = n.a["count"]
                    if not (isinstance(c, int) or (isinstance(c, Expr) and "this." in c.src)):
                        rep.undecide(f"R3 Array count {c} not recognised")
    if not bad:
        rep.ok("R3", f"{ng} GreedyRange nodes", "every GreedyRange body consumes at least one octet; Array counts are single-octet length fields")
    # ---------------------------------------------------------------- R4 return kind
    okr = True
    for name, fr in table:
        rets = [n for n in ast.walk(fr.node) if isinstance(n, ast.Return)]
        if not rets or any(r.value is None for r in rets):
            okr = False
            rep.violation("R4", f"{fr.mod}.{fr.node.name}", "returns-none", "a decoder can return without a dictionary", src.file(fr.mod), fr.node.lineno)
    if okr:
        rep.ok("R4", "return kinds", "each decoder returns its normaliser's dictionary; the decode methods return that or None (C12/R2)")


PARTIAL = {"int": "ValueError", "float": "ValueError", "datetime": "ValueError", "Decimal": "decimal.InvalidOperation"}


def _p1_escapes(rep, M, src, sink):
    """P1 content decoder: classes raised by explicit raise statements and by arithmetic that can overflow"""
    reach = ["dlde.decode_p1_readout_content", "dlde.parse_p1_readout_content", "dlde._decode_parsed", "dlde._parse_p1_datetime", "dlde.DataSet.parse_data_block",
             "dlde.DataSetValue.parse", "dlde.decode_p1_readout", "dlde.parse_p1_readout"]
    for q in reach:
        fn = M.funcs.get(q)
        if fn is None:
            continue
        parents = {c: p for p in ast.walk(fn.node) for c in ast.iter_child_nodes(p)}

        def caught(node, cls):
            cur = node
            while cur in parents:
                par = parents[cur]
                if isinstance(par, ast.Try) and any(cur is s or cur in list(ast.walk(s)) for s in par.body):
                    for h in par.handlers:
                        names = [ast.unparse(e) for e in h.type.elts] if isinstance(h.type, ast.Tuple) else [ast.unparse(h.type)] if h.type is not None else ["BaseException"]
                        if covered(cls, names):
                            return True
                cur = par
            return False
        for n in ast.walk(fn.node):
            if isinstance(n, ast.Raise) and n.exc is not None:
                cls = ast.unparse(n.exc.func if isinstance(n.exc, ast.Call) else n.exc)
                if not caught(n, cls):
                    sink(Escape(cls, f"{q.split('.', 1)[1]}:raise", n.lineno, f"explicit raise {cls}"))
            # regex match on a possibly-None address etc. is type safety (not decided)
            if isinstance(n, ast.Assert) and not caught(n, "AssertionError"):
                sink(Escape("AssertionError", f"{q.split('.', 1)[1]}:assert", n.lineno, "assert on wire-derived data"))


def _p1_readout_samples(rep, M, sink):
    """concrete readouts built directly from bytes (well-formed data block; identification line well-formed, mutated, truncated, non-ASCII) through
    decode_p1_readout, interpreted (E-ABS): an exception class that leaves it goes to the sink (which knows what AutoDecoder.decode_message catches).
    Samples outside the interpreted subset are skipped - this rule only adds witnesses, the census rules above decide."""
    from sa.abseval import AbsEval, AbsRaise
    fn = M.funcs.get("dlde.decode_p1_readout")
    if fn is None or ("dlde", "DataReadout") not in M.classes:
        return 0
    n = 0
    data = b"1-0:1.8.0(000123.456*kWh)\r\n0-0:1.0.0(210222161900W)\r\n1-0:32.7.0(230.1*V)\r\n"
    for ident in (b"/KAM5", b"/LGF5E360", b"/kAM5", b"/KAM", b"/", b"/K\xc5M5", b"/KAM5" + b"x" * 40, b"/ KAM5"):
        for data_ in (data, b""):
            raw = ident + b"\r\n\r\n" + data_ + b"!\r\n"
            A = AbsEval(M)
            try:
                obj = A.instantiate(("dlde", "DataReadout"), [raw])
                r = A.apply(fn, [obj])
            except AbsRaise as ex:
                r = ("raise", ex.cls)
            except Exception:  # noqa
                continue
            if r[0] == "raise":
                n += 1
                sink(Escape(str(r[1]).split("(")[0], "decode_p1_readout:sample", fn.node.lineno, f"decoding the directly built readout {raw[:24]!r}... raises {r[1]}"))
            elif r[0] == "value":
                n += 1
    return n


def _p1_partial_ops(rep, M, sink):
    """partial built-in operations of the P1 content decoder on the transmitted text (E-ABS): decode_p1_readout_content is interpreted on abstract
    data sets (every unit class, known / unknown / clock address) with the transmitted number symbolic; each conversion that can raise for some
    text is recorded together with the handlers dynamically enclosing it, wherever (helper, table entry, inline) it is written"""
    from sa.abseval import AbsEval, AObj, Sym
    from sa.decoders import obis_hook
    dc, pc = M.funcs.get("dlde.decode_p1_readout_content"), M.funcs.get("dlde.parse_p1_readout_content")
    if dc is None or pc is None:
        raise Undecided("anchor vanished: dlde.decode_p1_readout_content / parse_p1_readout_content")
    VAL = Sym("VAL", "str")
    n = 0
    for unit in ("kWh", "kW", "kvar", "kvarh", "V", "A", "var", "varh", "m3", None):
        for addr in ("1-0:1.8.0", "0-0:1.0.0", "1-0:250.250.250"):
            A = AbsEval(M, hooks={"Obis.from_string": obis_hook})
            items = [AObj("DataSet", {"address": addr, "values": [AObj("DataSetValue", {"value": VAL, "unit": unit}, cls_key=("dlde", "DataSetValue"))]}, cls_key=("dlde", "DataSet"))]
            A.func_hooks[("dlde", pc.node.name)] = lambda args, kw, items=items: list(items)
            r = A.apply(dc, [b"1-0:1.8.0(1*kWh)\r\n"])
            n += 1
            if r[0] == "undecided":
                raise Undecided(f"decode_p1_readout_content outside the interpreted subset (unit {unit!r}, address {addr}): {r[1]}")
            for cls, line, text in A.__dict__.get("may", []):
                sink(Escape(cls, f"decode_p1_readout_content:{text.split(' of ')[0]}", line, f"{text} (unit {unit!r}, address {addr})"))
            if r[0] == "raise" and r[1] not in ("ValueError",):
                sink(Escape(r[1], "decode_p1_readout_content:raise", dc.node.lineno, f"decoding a well-formed data set raises {r[1]} (unit {unit!r}, address {addr})"))
    # boundary texts of each value class, concretely: lengths around every fixed position a decoder might index, non-numbers, huge exponents
    samples = {"0-0:1.0.0": ["210222161900W", "210222161900", "21022216190", "2102221619", "2102", "", "x" * 20, "210222161900WS", "९९०२२२१६१९००"],
               "1-0:1.8.0": ["1.5", "", "abc", "1e999", "nan", "-1", "1_0", " 1 ", "0x10", "1,5"]}
    for addr, texts in samples.items():
        for unit in ("kWh", "V", None):
            for text in texts:
                A = AbsEval(M, hooks={"Obis.from_string": obis_hook})
                items = [AObj("DataSet", {"address": addr, "values": [AObj("DataSetValue", {"value": text, "unit": unit}, cls_key=("dlde", "DataSetValue"))]}, cls_key=("dlde", "DataSet"))]
                A.func_hooks[("dlde", pc.node.name)] = lambda args, kw, items=items: list(items)
                r = A.apply(dc, [b"x"])
                n += 1
                if r[0] == "raise" and r[1] != "ValueError":
                    sink(Escape(r[1], f"decode_p1_readout_content:{r[1]}", dc.node.lineno, f"decoding the value text {text!r} (unit {unit!r}, address {addr}) raises {r[1]}"))
    return n


def _scanner(rep, M, src):
    C = M.classes.get(("dlde", "DataSet"))
    fn = C.methods.get("parse_data_block") if C else None
    if fn is None:
        raise Undecided("anchor vanished: DataSet.parse_data_block")
    file = src.file("dlde")
    helpers = [n for n in fn.node.body if isinstance(n, ast.FunctionDef)]
    loops_outer = [n for n in ast.walk(fn.node) if isinstance(n, ast.While) and not any(n in list(ast.walk(h)) for h in helpers)]
    bad = 0
    n_loops = 0
    # scanning helpers: nested functions, and methods of the class / module functions the parser calls (one level)
    ext = []
    for n in ast.walk(fn.node):
        if isinstance(n, ast.Call):
            callee = None
            if isinstance(n.func, ast.Attribute) and isinstance(n.func.value, ast.Name) and n.func.value.id in ("cls", "self", "DataSet") and n.func.attr in C.methods:
                callee = C.methods[n.func.attr]
            elif isinstance(n.func, ast.Name) and f"dlde.{n.func.id}" in M.funcs and n.func.id not in [h.name for h in helpers]:
                callee = M.funcs[f"dlde.{n.func.id}"]
            if callee is not None and callee.node is not fn.node and callee not in ext and any(isinstance(x, ast.While) for x in ast.walk(callee.node)):
                ext.append(callee)
    scopes = [(h, Func("dlde", None, h.name, h)) for h in helpers] + [(c.node, c) for c in ext] + [(fn.node, fn)]
    returns_progress = {}
    stuck_reported = []
    for node, f in scopes:
        whiles = [n for n in ast.walk(node) if isinstance(n, ast.While) and (node is not fn.node or n in loops_outer)]
        # (a) taint: find() results must be compared against -1 (or a position) before they are used arithmetically
        finds = {}
        for a in ast.walk(node):
            if isinstance(a, ast.Assign) and isinstance(a.value, ast.Call) and isinstance(a.value.func, ast.Attribute) and a.value.func.attr in ("find", "index", "rfind") and isinstance(a.targets[0], ast.Name):
                if node is fn.node and any(a in list(ast.walk(h)) for h in helpers):
                    continue
                finds[a.targets[0].id] = a
        for v, a in finds.items():
            checked = False
            used_arith = None
            for n in ast.walk(node):
                if isinstance(n, ast.Compare) and any(isinstance(x, ast.Name) and x.id == v for x in [n.left] + n.comparators):
                    checked = True
                if isinstance(n, ast.BinOp) and any(isinstance(x, ast.Name) and x.id == v for x in (n.left, n.right)) and n.lineno >= a.lineno:
                    used_arith = used_arith or n
                if isinstance(n, ast.Assign) and isinstance(n.value, ast.Name) and n.value.id == v:
                    used_arith = used_arith or n
            if used_arith is not None and not checked:
                bad += 1
                rep.violation("R2", f"dlde.DataSet.parse_data_block.{getattr(node, 'name', '')}", f"unchecked-find:{v}",
                              f"the result of {ast.unparse(a.value.func)}() is used as a scan position without being compared against -1: for unbalanced input the position jumps back and the loop never ends",
                              file, a.lineno)
        # (b) progress on every back-edge of every while loop
        for wl in whiles:
            n_loops += 1
            E = Engine(M, inline_depth=0)
            paths, fr = loop_paths_at(E, f, wl)
            ctl = [x.id for x in ast.walk(wl.test) if isinstance(x, ast.Name)]
            if not ctl and isinstance(wl.test, ast.Constant) and wl.test.value is True:
                # `while True:` left by return / break / raise: the scan positions are the integer locals the body re-assigns from a find() result or by stepping
                ctl = sorted({t.id for n in ast.walk(wl) if isinstance(n, ast.Assign) for t in n.targets if isinstance(t, ast.Name)
                              and (isinstance(n.value, ast.BinOp) or (isinstance(n.value, ast.Call) and isinstance(n.value.func, ast.Attribute) and n.value.func.attr in ("find", "index", "rfind")))})
            for p in paths:
                if p.status not in ("run", "continue"):
                    continue
                progressed = False
                for c in ctl:
                    k = ("l", fr["id"], c)
                    newv = p.store.get(k)
                    if newv is None:
                        continue
                    entry = E.ev(ast.Name(id=c, ctx=ast.Load()), Path(), fr)
                    if _strictly_greater(newv, entry, p, E, f):
                        progressed = True
                    if newv[0] == "sub" and newv[1][0] in ("call", "calldyn") and newv[2] == ("c", 0):
                        # position returned by the helper: -1 or a value after at least one strictly increasing update
                        hname = str(newv[1][1])
                        hp_ = returns_progress.get(hname.split(".")[-1])
                        if hp_ is True:
                            progressed = True
                        elif isinstance(hp_, tuple) and hp_[0] == "stuck" and len(newv[1]) > 2 and len(newv[1][2]) > hp_[1] and newv[1][2][hp_[1]] == entry and not stuck_reported:
                            stuck_reported.append(hname)
                            bad += 1
                            rep.violation("R2", f"dlde.DataSet.parse_data_block.{hname.split('.')[-1]}", "helper-returns-position-unchanged",
                                          f"a path of {hname.split('.')[-1]}() hands the scan position it was given back unchanged, and the calling loop at line {wl.lineno} calls it again with the same "
                                          "arguments: the parser never returns for the inputs that take this path", file, hp_[2], witness=hp_[3][:240])
                            progressed = True
                stuck = False
                if not progressed:
                    # positively stuck: every control variable of the loop test keeps its value (or provably does not grow) on this back edge
                    vals_ = [(E.ev(ast.Name(id=c, ctx=ast.Load()), Path(), fr), p.store.get(("l", fr["id"], c))) for c in ctl if c not in ("self", "cls")]
                    vals_ = [(e0, n0 if n0 is not None else e0) for e0, n0 in vals_ if e0[0] in ("l", "g", "p", "havoc", "c") or True]
                    stuck = bool(vals_) and all(Order(p, E, f).ge(e0, n0) for e0, n0 in vals_) and not any(isinstance(x, ast.Call) for x in ast.walk(wl.test))
                if not progressed and not stuck:
                    conds = "; ".join(("" if pol else "not ") + show_sv(g)[:50] for g, pol, _ in p.guards)
                    rep.undecide(f"R2 progress of the scanning loop at line {wl.lineno} of {getattr(node, 'name', fn.name)} is not proved on the path [{conds[:160]}] (loop controlled by something other than a scan position the prover follows)")
                    und_loops = True
                    continue
                if not progressed:
                    bad += 1
                    conds = "; ".join(("" if pol else "not ") + show_sv(g)[:50] for g, pol, _ in p.guards)
                    rep.violation("R2", f"dlde.DataSet.parse_data_block.{getattr(node, 'name', '')}", f"no-progress:line{wl.lineno - fn.node.lineno}",
                                  "a path through the scanning loop reaches the next iteration without advancing the scan position: the parser never returns for some input", file, wl.lineno, witness=conds)
        if node is not fn.node:
            # helper summary: its first return value is -1 or a position that went through >= 1 strictly increasing update
            returns_progress[node.name] = _helper_progress(node, M)
    if not bad:
        rep.ok("R2", f"{n_loops} scanner loops", "no unchecked find() result reaches a scan position; every path that re-enters a loop has strictly advanced the position (helper returns -1 or an advanced position)")
    rep.floor("scanner loops", n_loops, 2)


class Order:
    """a small prover of `a > b` / `a >= b` between integer-valued symbolic values on one path.  Facts: the path's comparisons; str.find/index/rfind
    results are -1 or >= their start argument; a variable assigned in an inner loop is, after the loop, >= its value before the loop when every
    iteration of that loop leaves it >= (checked recursively on the inner loop's own paths); constants."""

    def __init__(self, p, E=None, f=None, depth=0):
        self.p, self.E, self.f, self.depth = p, E, f, depth
        self.facts = []  # (x, y, strict): x > y or x >= y
        for g, pol, _ in p.guards:
            g = strip_epoch(g)
            if g[0] != "cmp" or len(g) < 4:
                continue
            op, x, y = g[1], g[2], g[3]
            rel = {"Gt": (x, y, True), "GtE": (x, y, False), "Lt": (y, x, True), "LtE": (y, x, False)}.get(op) if pol else \
                {"Gt": (y, x, False), "GtE": (y, x, True), "Lt": (x, y, False), "LtE": (x, y, True)}.get(op)
            if rel:
                self.facts.append(rel)
            if op == "Eq" and pol or op == "NotEq" and not pol:
                self.facts += [(x, y, False), (y, x, False)]
        self.pre = {}
        for e in p.effects:
            if e[0] == "loop" and len(e) > 3:
                self.pre[e[2]] = dict(e[3])
        self._mono = {}

    def not_minus_one(self, t):
        """the path establishes that the find result t is not -1"""
        for g, pol, _ in self.p.guards:
            g = strip_epoch(g)
            if g[0] == "cmp" and g[2] == t:
                if (g[1] == "Eq" and g[3] == ("c", -1) and not pol) or (g[1] == "NotEq" and g[3] == ("c", -1) and pol) or (g[1] == "Lt" and g[3] == ("c", 0) and not pol) or \
                        (g[1] == "GtE" and g[3] == ("c", 0) and pol) or (g[1] == "Gt" and g[3] == ("c", -1) and pol):
                    return True
        return any(x == t and self.ge(y, ("c", -1), 3) and (strict or self.ge(y, ("c", 0), 3)) for x, y, strict in self.facts)

    def lower_bounds(self, a):
        """[(y, strict)]: a > y or a >= y"""
        out = [(y, st) for x, y, st in self.facts if x == a]
        if a[0] == "op" and a[1] in ("Add", "Sub") and len(a) == 4:
            x, c = a[2], a[3]
            if a[1] == "Add" and x[0] == "c" and c[0] != "c":
                x, c = c, x
            if c[0] == "c" and isinstance(c[1], int) and not isinstance(c[1], bool):
                k = c[1] if a[1] == "Add" else -c[1]
                if k >= 1:
                    out.append((x, True))
                elif k == 0:
                    out.append((x, False))
        if a[0] == "call" and isinstance(a[1], str) and a[1].endswith((".find", ".index", ".rfind")) and len(a[2]) >= 3 and (a[1].endswith(".index") or self.not_minus_one(a)):
            out.append((a[2][2], False))
        if a[0] == "havoc" and a[2] in self.pre and a[1] in self.pre[a[2]] and self.monotone(a[2], a[1]):
            out.append((self.pre[a[2]][a[1]], False))
        return out

    def monotone(self, line, var):
        key = (line, var)
        if key not in self._mono:
            self._mono[key] = False
            if self.E is not None and self.f is not None and self.depth < 3:
                wl = next((n for n in ast.walk(self.f.node) if isinstance(n, (ast.While, ast.For)) and n.lineno == line), None)
                if wl is not None:
                    try:
                        E2 = Engine(self.E.M, inline_depth=0)
                        paths, fr = loop_paths_at(E2, self.f, wl)
                        entry = E2.ev(ast.Name(id=var, ctx=ast.Load()), Path(), fr)
                        ok = True
                        for q in paths:
                            if q.status not in ("run", "continue", "break"):
                                continue
                            newv = q.store.get(("l", fr["id"], var), entry)
                            if not Order(q, E2, self.f, self.depth + 1).ge(newv, entry):
                                ok = False
                        self._mono[key] = ok
                    except Exception:
                        self._mono[key] = False
        return self._mono[key]

    def ge(self, a, b, fuel=8):
        return self.rel(a, b, False, fuel)

    def gt(self, a, b, fuel=8):
        return self.rel(a, b, True, fuel)

    def rel(self, a, b, strict, fuel):
        a, b = strip_epoch(a), strip_epoch(b)
        if a == b:
            return not strict
        if a[0] == "c" and b[0] == "c" and isinstance(a[1], int) and isinstance(b[1], int):
            return a[1] > b[1] if strict else a[1] >= b[1]
        if fuel <= 0:
            return False
        for y, st in self.lower_bounds(a):
            if self.rel(y, b, strict and not st, fuel - 1):
                return True
        # b + k <= ... : b = y - k etc. (upper bounds of b)
        for x, y, st in self.facts:
            if y == b and x != a and self.rel(a, x, strict and not st, fuel - 1):
                return True
        return False


def _strictly_greater(newv, oldv, p, E=None, f=None):
    return Order(p, E, f).gt(newv, oldv)


def _helper_progress(h, M=None):
    """the helper returns (pos if values else -1, ...): values is appended in the same loop body that advances pos.  Every return of the helper must have
    that form (or return -1); a return that hands back the position parameter unchanged is reported as ("stuck", parameter index, line, path conditions):
    the caller calls again with the same arguments, and a function of its arguments gives the same answer for ever."""
    rets = [n for n in ast.walk(h) if isinstance(n, ast.Return) and n.value is not None]
    n_ok = 0
    for r in rets:
        v = r.value
        first = v.elts[0] if isinstance(v, ast.Tuple) and v.elts else v
        if isinstance(first, ast.UnaryOp) and isinstance(first.op, ast.USub) and isinstance(first.operand, ast.Constant) and first.operand.value == 1:
            n_ok += 1
            continue
        if isinstance(first, ast.IfExp) and isinstance(first.orelse, ast.UnaryOp) and isinstance(first.orelse.operand, ast.Constant) and first.orelse.operand.value == 1 \
                and isinstance(first.test, ast.Name) and isinstance(first.body, ast.Name):
            lst, pos = first.test.id, first.body.id
            for wl in [n for n in ast.walk(h) if isinstance(n, ast.While)]:
                appends = [n for n in ast.walk(wl) if isinstance(n, ast.Call) and isinstance(n.func, ast.Attribute) and n.func.attr == "append" and ast.unparse(n.func.value) == lst]
                assigns = [n for n in wl.body if isinstance(n, ast.Assign) and isinstance(n.targets[0], ast.Name) and n.targets[0].id == pos]
                if appends and assigns and all(a.lineno > 0 for a in assigns):
                    # append happens before the advance in the same straight-line body => non-empty list implies an advanced position
                    ap_top = [s for s in wl.body if any(x is appends[0] for x in ast.walk(s))]
                    if ap_top and wl.body.index(ap_top[0]) < wl.body.index(assigns[0]):
                        n_ok += 1
                        break
    if rets and n_ok == len(rets):
        return True
    if M is not None:
        params = [a.arg for a in h.args.args]
        try:
            E = Engine(M, inline_depth=0)
            f = Func("dlde", None, h.name, h)
            paths = [p for p in E.run(f) if p.status == "return"]
            proved = bool(paths)
            for p in paths:
                if not isinstance(p.ret, tuple):
                    proved = False
                    continue
                first = p.ret[1][0] if p.ret[0] == "tuple" and p.ret[1] else p.ret
                if isinstance(first, tuple) and len(first) == 2 and first[0] == "p" and first[1] in params and n_ok:
                    line = max([g[2] for g in p.guards] or [h.lineno])
                    return ("stuck", params.index(first[1]), line, "; ".join(("" if pol else "not ") + show_sv(g)[:60] for g, pol, _ in p.guards))
                # the position handed back is -1, or strictly beyond a position parameter (path facts: find() results, +1 steps, monotone inner loops)
                ok_ = first == ("c", -1) or (isinstance(first, tuple) and first and first[0] == "ite" and len(first) == 4 and first[3] == ("c", -1) and n_ok) or \
                    any(_strictly_greater(first, ("p", a_), p, E, f) for a_ in params)
                proved = proved and ok_
            if proved:
                return True
        except Exception:  # noqa - outside E-PATH: not proven
            pass
    return False


def thorough(src, rep):
    from sa.selfval.harness import run_selfval
    run_selfval("C15", src, rep)
