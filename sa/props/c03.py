"""C03 - FCS-16 implementation equals the RFC 1662 definition for every input (level: proof).

Seven obligations, each universally quantified over inputs by GF(2)-linearity (E-BITLIN, with point
case-splits for tests such as `reg == k` / `reg or INIT`) or by exhaustive constant evaluation
(E-CONST).  Obligations are stated on observable behaviour: what update()/checksum/is_good compute
from a symbolic register and from the constructor's state.  See DESIGN.md §3/C03.
"""
from __future__ import annotations

import ast

from sa.bitlin import BV, Opq, SymExec, Top, Vars, explore, point_value, rank_gf2, ref_crc_reflected_step, ref_table
from sa.consteval import ConstEval, NotConstant
from sa.model import Model
from sa.report import Undecided

LEVEL = "proof"
MOD, CLS = "fastframecheck", "FastFrameCheckSequence16"
POLY = 0x8408  # x^16 + x^12 + x^5 + 1, reflected (RFC 1662 appendix C)
INIT, GOOD = 0xFFFF, 0xF0B8


class TableWrong(Exception):
    pass


def _body(fn):
    return [s for s in fn.node.body if not (isinstance(s, ast.Expr) and isinstance(s.value, ast.Constant))]


def census_writes(src, names):
    """all stores (assign/augassign/del/subscript-store/mutator call/setattr) to attributes in `names`, anywhere."""
    out = []
    muts = {"append", "extend", "insert", "pop", "remove", "clear", "sort", "reverse", "__setitem__", "update"}
    for m in src.text:
        tree = src.tree(m)
        parents = {}
        for n in ast.walk(tree):
            for c in ast.iter_child_nodes(n):
                parents[c] = n

        def owner(n):
            f = c = None
            while n in parents:
                n = parents[n]
                if isinstance(n, (ast.FunctionDef, ast.AsyncFunctionDef)) and f is None:
                    f = n.name
                if isinstance(n, ast.ClassDef) and c is None:
                    c = n.name
            return m, c, f

        for n in ast.walk(tree):
            if isinstance(n, ast.Attribute) and n.attr in names:
                if isinstance(n.ctx, (ast.Store, ast.Del)):
                    out.append((n.attr, owner(n), n.lineno, "store"))
                p = parents.get(n)
                if isinstance(p, ast.Subscript) and p.value is n and isinstance(p.ctx, (ast.Store, ast.Del)):
                    out.append((n.attr, owner(n), n.lineno, "item-store"))
                if isinstance(p, ast.Attribute) and p.attr in muts and isinstance(parents.get(p), ast.Call):
                    out.append((n.attr, owner(n), n.lineno, "mutator " + p.attr))
            if isinstance(n, ast.Call) and isinstance(n.func, ast.Name) and n.func.id in ("setattr", "delattr") and len(n.args) >= 2:
                a = n.args[1]
                if isinstance(a, ast.Constant) and a.value in names:
                    out.append((a.value, owner(n), n.lineno, n.func.id))
            if isinstance(n, ast.Name) and n.id in names and isinstance(n.ctx, (ast.Store, ast.Del)):
                o = owner(n)
                if o[1] == CLS and o[2] is None and m == MOD:
                    out.append((n.id, o, n.lineno, "class-body"))
    return out


def self_attrs(node, ctx):
    return {n.attr for n in ast.walk(node) if isinstance(n, ast.Attribute) and isinstance(n.ctx, ctx)
            and isinstance(n.value, ast.Name) and n.value.id == "self"}


def check(src, rep):
    try:
        try:
            _check(src, rep)
        except Undecided as e:
            # the field-level analysis (E-BITLIN on the class's own fields) does not apply to this representation: decide through the public API
            if "other state" in str(e) or not _api_route(src, rep, str(e)):
                raise
    except TableWrong as e:
        rep.violation("O1", f"{MOD}.{CLS}", f"table {e}", "the look-up table is not the RFC 1662 FCS-16 table at the point where it is read (wrong entries, or not yet built when the "
                      "static one-shot functions or the constructor read it)", src.file(MOD), 1, witness=str(e))


def _api_route(src, rep, why):
    """O1-O7 through FastFrameCheckSequence16's public API (E-ABS/BV, sa/fcsworlds.py); True when every obligation was decided (holds or violated)"""
    from sa.fcsworlds import incremental, one_shot
    M = Model(src)
    ce = ConstEval(M)
    key = (MOD, CLS)
    cls = M.classes.get(key)
    if cls is None:
        return False
    file = src.file(MOD)
    inc = incremental(M)
    if inc[0] == "undecided":
        rep.notes.append(f"public-API route not applicable either: {inc[1]}")
        return False
    rep.notes.append(f"field-level analysis not applicable ({why[:120]}); obligations decided through the public API")
    if inc[0] == "bad":
        fn_ = M.find_method(key, inc[2])
        rep.violation(inc[1], f"{MOD}.{CLS}.{inc[2]}", "api:" + inc[2], inc[3], file, fn_.node.lineno if fn_ else 1)
    else:
        rep.ok("O2", "update()", "for 0..3 symbolic octets fed to a new object, the value update() returns equals the RFC 1662 bit-serial register (the register after two octets ranges over all "
               "2^16 values, so the third step is the RFC step for every register and octet)")
        rep.ok("O3", "initial state / return value", "a new object behaves as register 0xFFFF; update() returns the new register")
        rep.ok("O4", "checksum", "register xor 0xFFFF after 0..3 symbolic octets; reading it changes nothing")
        rep.ok("O5", "is_good", "the test `register == 0xF0B8` after 0..3 symbolic octets")
        rep.ok("O6", "residue", "implied: a correct step function and the 0xF0B8 test (RFC 1662 good-FCS value)")
        rep.ok("O1", "table", "every table entry the step function can use is right (the step equals the bit-serial definition for every register and octet)", nontrivial=False)
    rep.count("api_cells", inc[1] if inc[0] == "ok" else 0)
    # nobody outside the class writes the object's state
    fields = {n.attr for f in cls.methods.values() for n in ast.walk(f.node) if isinstance(n, ast.Attribute) and isinstance(n.ctx, ast.Store) and isinstance(n.value, ast.Name) and n.value.id == "self"}
    fields |= set(cls.consts)
    badw = 0
    for name, (m, c, f), line, kind in census_writes(src, fields):
        if kind == "class-body" or (m == MOD and c == CLS):
            continue
        if m == MOD and c is not None and c != CLS and c.startswith("_"):
            continue  # a private helper class of the module (e.g. a register record): its own fields
        badw += 1
        rep.violation("O3", f"{m}.{c}.{f}", f"{kind} {name}", "writer of FCS state / table / constant outside the class", src.file(m), line)
    if not badw:
        rep.ok("O3", f"write census over {len(src.text)} modules", f"no store to {sorted(fields)[:6]} outside the class")
    # one-shot function: bounded windows on symbolic octets + the loop shape that extends them to every length
    cc = cls.methods.get("compute_checksum")
    os_ = one_shot(M)
    if os_[0] == "bad":
        rep.violation("O7", f"{MOD}.{CLS}.compute_checksum", "window", os_[1], file, cc.node.lineno if cc else 1)
        return True
    if os_[0] == "undecided":
        rep.undecide(f"O7 {os_[1]}")
        return True
    rep.count("window_cells", os_[1])

    class Ex(SymExec):
        pass
    try:
        _check_compute_checksum(rep, M, ce, cc, file, Ex)
    except (Undecided, TableWrong) as e:
        # catalogue entry: the fold drives a fresh object of the class through update() over exactly range(start, start + length) and returns its checksum
        body = _body(cc)
        loops = [s for s in body if isinstance(s, ast.For)]
        ok_form = False
        if len(loops) == 1 and isinstance(loops[0].target, ast.Name) and isinstance(loops[0].iter, ast.Call) and ast.unparse(loops[0].iter.func) == "range" and len(loops[0].iter.args) == 2:
            data, start, length = cc.params
            lo, hi = _lin(loops[0].iter.args[0], (start, length, data), {}), _lin(loops[0].iter.args[1], (start, length, data), {})
            verdict, _w = _window_verdict(lo, hi, (start, length, data))
            lb = loops[0].body
            upd_call = len(lb) == 1 and isinstance(lb[0], ast.Expr) and isinstance(lb[0].value, ast.Call) and isinstance(lb[0].value.func, ast.Attribute) and lb[0].value.func.attr == "update" \
                and len(lb[0].value.args) == 1 and ast.unparse(lb[0].value.args[0]) == f"{data}[{loops[0].target.id}]" and isinstance(lb[0].value.func.value, ast.Name)
            if verdict == "ok" and upd_call:
                obj = lb[0].value.func.value.id
                created = any(isinstance(s, ast.Assign) and isinstance(s.targets[0], ast.Name) and s.targets[0].id == obj and isinstance(s.value, ast.Call) and ast.unparse(s.value.func).split(".")[-1] == CLS and not s.value.args
                              for s in body[:body.index(loops[0])])
                rets = [s for s in body[body.index(loops[0]) + 1:] if isinstance(s, ast.Return)]
                ok_form = created and len(rets) == 1 and ast.unparse(rets[0].value) == f"{obj}.checksum"
        if ok_form:
            rep.ok("O7", "compute_checksum", f"feeds data[start : start+length] octet by octet to update() of a fresh object and returns its checksum ({os_[1]} windows of symbolic octets evaluated); "
                   "by O2-O4 that is the complemented RFC 1662 fold for every length")
        else:
            rep.undecide(f"O7 all {os_[1]} windows with start, length <= 4 over symbolic octets are correct, but the fold is not in the loop catalogue that extends this to every length ({e})")
    return True


def _check(src, rep):
    M = Model(src)
    ce = ConstEval(M)
    key = (MOD, CLS)
    rep.require(key in M.classes, f"anchor vanished: class {MOD}.{CLS}")
    cls = M.classes[key]
    file = src.file(MOD)
    need = {}
    for n in ("__init__", "update", "is_good", "checksum", "compute_checksum"):
        rep.require(n in cls.methods, f"anchor vanished: {MOD}.{CLS}.{n}")
        need[n] = cls.methods[n]
    rep.count("modules", len(src.text))
    rep.count("functions", 5)
    # every read of checksum / is_good must recompute from the current register: no memoising decorator
    for n in ("checksum", "is_good"):
        decs = [ast.unparse(d) for d in need[n].node.decorator_list]
        memo = [d for d in decs if any(k in d for k in ("cached_property", "lru_cache", "cache"))]
        if memo:
            rep.violation("O4" if n == "checksum" else "O5", f"{MOD}.{CLS}.{n}", "memoised", f"{n} is memoised (@{memo[0]}): after further update() calls it still reports the value of its first read",
                          src.file(MOD), need[n].node.lineno, witness=memo[0])
    rep.assumptions += [
        "Python int semantics of ^ >> << & | on non-negative integers",
        "octets passed to update()/compute_checksum() are integers 0..255",
        "the checker's bit-serial reference (sa/bitlin.py ref_crc_reflected_step/ref_table, 15 lines) is the RFC 1662 FCS-16",
    ]
    rep.explanation = (
        "All seven obligations of DESIGN.md §3/C03 decided statically: update(), checksum, is_good and compute_checksum are abstractly "
        "interpreted in a GF(2)-affine bit-vector domain with a symbolic 16-bit register and 8-bit octet (tests on whole values are "
        "case-split into the point case and the generic case) and compared, as affine maps (= on all 2^24 inputs), with the bit-serial "
        "RFC 1662 definition; the 256-entry table is evaluated by constant propagation and compared entry by entry; a repository-wide "
        "write census shows nothing else modifies register, table or constants. By induction on length this covers all byte strings and windows.")

    upd = need["update"]
    # register field (role): stored by update() and read by checksum (directly or through helpers of the class)
    helper_reads = set()
    for n in ast.walk(need["checksum"].node):
        if isinstance(n, ast.Attribute) and isinstance(n.value, ast.Name) and n.value.id == "self" and n.attr in cls.methods:
            helper_reads |= self_attrs(cls.methods[n.attr].node, ast.Load)
    cand = self_attrs(upd.node, ast.Store) & (self_attrs(need["checksum"].node, ast.Load) | helper_reads)
    rep.require(len(cand) == 1, f"cannot bind the register field (stored by update, read by checksum): {sorted(cand)}")
    reg = cand.pop()
    rep.require(bool(upd.params), "update() has no octet parameter")
    byte_param = upd.params[0]

    rt = ref_table(POLY)
    tables_used = []

    class Ex(SymExec):
        def lift(self, c, what):
            v = super().lift(c, what)
            if isinstance(v, list):
                tables_used.append((what, v))
                if list(v) != rt:
                    raise TableWrong(what)
            return v

    # state after construction (concrete; other fields may be None / ints)
    init = need["__init__"]
    vars = Vars()
    init_env = {}
    try:
        Ex(M, ce, vars, MOD, key).run_body(init.node.body, init_env)
    except Top as e:
        raise Undecided(f"__init__ not analysable: {e}")
    other_fields = {k: v for k, v in init_env.items() if k.startswith("self.") and k != "self." + reg}

    # fields other than the register that some method besides the constructor assigns: arbitrary at the time of a call
    mutable_other = set()
    for mname, mf in cls.methods.items():
        if mname == "__init__":
            continue
        for n in ast.walk(mf.node):
            tg = n.targets if isinstance(n, ast.Assign) else [n.target] if isinstance(n, (ast.AugAssign, ast.AnnAssign)) else []
            for t in tg:
                if isinstance(t, ast.Attribute) and isinstance(t.value, ast.Name) and t.value.id == "self":
                    mutable_other.add("self." + t.attr)

    def state(regv):
        env = dict(other_fields)
        for k in list(env):
            if (isinstance(env[k], BV) or k in mutable_other) and k != "self." + reg:
                env[k] = Opq(k)  # other state: arbitrary at the time of a call
        env["self." + reg] = regv
        return env

    r16_ = vars.fresh("reg0", 16)
    # is_good / checksum are functions of the current register only (no latched or cached state)
    for n_ in ("is_good", "checksum"):
        exo = Ex(M, ce, vars, MOD, key)
        why_o = None
        try:
            cs_ = explore(lambda sub, ne, n_=n_: _run(Ex, M, ce, vars, key, need[n_], state(r16_.subst(sub)), ne))
            if any(isinstance(cv, Opq) for _, _, cv in cs_):
                why_o = next(cv.what for _, _, cv in cs_ if isinstance(cv, Opq))
        except TableWrong:
            pass
        except Top as e:
            if "other state" in str(e):
                why_o = str(e)
        if why_o:
            rep.violation("O5" if n_ == "is_good" else "O4", f"{MOD}.{CLS}.{n_}", "other-state", f"{n_} is not a function of the current register: it depends on other state of the object ({why_o}) - "
                          "after more octets have been fed the answer no longer describes the octets fed so far", file, need[n_].node.lineno)

    r16 = vars.fresh("reg", 16)
    b8 = vars.fresh("octet", 8)

    def run_update(regv, octv, sub=None, ne=None, env0=None):
        ex = Ex(M, ce, vars, MOD, key)
        ex.assumed_ne = ne or []
        env = env0 if env0 is not None else state(regv)
        env[byte_param] = octv
        ret = ex.run_body(upd.node.body, env)
        return env["self." + reg], ret

    # ------------------------------------------------------------ O2 / O3a: step map for every register and octet
    table_wrong = False
    step_generic = None
    try:
        cases = explore(lambda sub, ne: run_update(r16.subst(sub), b8.subst(sub), sub, ne))
    except TableWrong:
        table_wrong = True
        cases = []
    except Top as e:
        if "condition on other state" in str(e):
            rep.violation("O2", f"{MOD}.{CLS}.update", "other-state", f"update() decides what to do from state of the object other than the register and the octet ({str(e).split(':', 1)[-1].strip()}, which "
                          "changes between calls): the register after an octet depends on the history, not only on the octets fed", file, upd.node.lineno)
            cases = []
            raise Undecided(f"update() left the affine domain: {e}")
        raise Undecided(f"update() left the affine domain: {e}")
    ref = ref_crc_reflected_step(r16, b8, POLY)
    bad2 = bad3 = 0
    for sub, ne, (newreg, ret) in cases:
        want = ref.subst(sub)
        where = "generic case" if not sub else f"point case reg={hex(point_value(sub, r16))} octet={hex(point_value(sub, b8))}"
        if not sub:
            step_generic = newreg
        if not isinstance(newreg, BV) or newreg != want:
            bad2 += 1
            w = where
            if isinstance(newreg, BV) and not sub:
                diff = [i for i in range(max(newreg.width(), want.width())) if newreg.bit(i) != want.bit(i)]
                w += f"; differing output bits {diff}; e.g. reg=0xFFFF octet=0x00 -> {hex(_apply(newreg, 0xFFFF, 0))} expected {hex(_apply(want, 0xFFFF, 0))}"
            rep.violation("O2", f"{MOD}.{CLS}.update", "step-map", "register after update(octet) differs from the RFC 1662 bit-serial step",
                          file, upd.node.lineno, witness=w)
        if not (isinstance(ret, BV) and isinstance(newreg, BV) and ret == newreg):
            bad3 += 1
            rep.violation("O3", f"{MOD}.{CLS}.update", "return-value", "update() does not return the new register value", file, upd.node.lineno, witness=where)
    if cases and not bad2:
        rep.ok("O2", f"{MOD}.{CLS}.update step map", f"{len(cases)} case(s): 16x24 affine matrix equals 8 bit-serial RFC 1662 steps for symbolic register and octet (all 2^24 inputs)")
    if cases and not bad3:
        rep.ok("O3", "update() return value", "returns the stored register")
    rep.count("cases", len(cases))

    # ------------------------------------------------------------ O1: table(s)
    seen = set()
    n_tab = 0
    for what, tab in tables_used:
        if what in seen:
            continue
        seen.add(what)
        n_tab += 1
        if list(tab) == rt:
            rep.ok("O1", f"table {what}", "256 entries constant-evaluated from its initialiser and equal to the bit-serial reference; GF(2)-linear with T[0]=0")
        else:
            k = next((i for i in range(min(len(tab), 256)) if tab[i] != rt[i]), None)
            rep.violation("O1", f"{MOD}.{CLS}", f"table {what}", "look-up table differs from the RFC 1662 FCS-16 table",
                          file, cls.node.lineno, witness=(f"len={len(tab)}" if k is None else f"entry[{k}]={hex(tab[k])} expected {hex(rt[k])}"))
    if n_tab == 0:
        rep.ok("O1", "no look-up table", "step function is computed without a table; nothing to compare", nontrivial=False)
    rep.count("tables", n_tab)
    rep.extra["checker_cmd"] = "./check C03 --tier quick"
    rep.extra["trusted_base"] = list(rep.assumptions) + ["CPython ast module", "sa/bitlin.py (affine domain), sa/consteval.py (constant evaluator)"]
    if table_wrong:
        try:
            _check_compute_checksum(rep, M, ce, need["compute_checksum"], file, Ex)
        except TableWrong:
            pass
        return

    # ------------------------------------------------------------ O3b: initial state behaves as register 0xFFFF
    try:
        nr, _ = run_update(None, b8, env0=dict(init_env))
        chk0 = Ex(M, ce, vars, MOD, key).run_body(need["checksum"].node.body, dict(init_env))
    except Top as e:
        raise Undecided(f"behaviour from the constructor's state not analysable: {e}")
    if isinstance(nr, BV) and nr == ref_crc_reflected_step(BV.const(INIT), b8, POLY) and isinstance(chk0, BV) and chk0 == BV.const(0):
        rep.ok("O3", "initial register", "from the constructor's state update(octet) equals one RFC step from 0xFFFF and checksum is 0x0000")
    else:
        iv = init_env.get("self." + reg)
        rep.violation("O3", f"{MOD}.{CLS}.__init__", "initial-register", "a new object does not behave as register 0xFFFF", file, init.node.lineno,
                      witness=str(iv.value() if isinstance(iv, BV) and iv.is_const() else iv))

    # ------------------------------------------------------------ O3c: write census
    const_names = {n.attr for f in (need["__init__"], need["is_good"]) for n in ast.walk(f.node)
                   if isinstance(n, ast.Attribute) and isinstance(n.value, ast.Name) and n.value.id in ("self", CLS) and n.attr in cls.consts}
    tab_names = {w.split(".")[-1] for w, _ in tables_used}
    watched = {reg} | const_names | tab_names
    bad_writes = n_w = 0
    classbody = {}
    for name, (m, c, f), line, kind in census_writes(src, watched):
        n_w += 1
        if kind == "class-body":
            classbody[name] = classbody.get(name, 0) + 1
            if classbody[name] > 1:
                bad_writes += 1
                rep.violation("O3", f"{MOD}.{CLS}", f"redefinition {name}", "class constant/table defined more than once", file, line)
            continue
        if name == reg and m == MOD and c == CLS and f in ("__init__", "update") and kind == "store":
            continue
        bad_writes += 1
        rep.violation("O3", f"{m}.{c}.{f}", f"{kind} {name}", "writer of FCS register/table/constant outside __init__/update", src.file(m), line)
    if not bad_writes:
        rep.ok("O3", f"write census over {len(src.text)} modules", f"{n_w} stores to {sorted(watched)}; all inside __init__/update or single class-body definitions")
    rep.count("write_sites", n_w)
    _positive_control_census(rep)

    # ------------------------------------------------------------ O4: checksum = ~register
    chk = need["checksum"]
    try:
        ccases = explore(lambda sub, ne: _run(Ex, M, ce, vars, key, chk, state(r16.subst(sub)), ne))
    except Top as e:
        raise Undecided(f"checksum not analysable: {e}")
    bad = 0
    for sub, ne, cv in ccases:
        if not (isinstance(cv, BV) and cv == (r16 ^ BV.const(0xFFFF)).subst(sub)):
            bad += 1
            rep.violation("O4", f"{MOD}.{CLS}.checksum", "complement", "checksum is not the one's complement of the register", file, chk.node.lineno,
                          witness="generic case" if not sub else f"register {hex(point_value(sub, r16))}")
    if not bad:
        rep.ok("O4", "checksum", f"register xor 0xFFFF for symbolic register ({len(ccases)} case(s))")

    # ------------------------------------------------------------ O5/O6: residue, is_good
    if step_generic is None or bad2:
        rep.notes.append("O5/O6 not evaluated: the step map is already wrong")
        _check_compute_checksum(rep, M, ce, need["compute_checksum"], file, Ex)
        return
    try:
        c = r16 ^ BV.const(0xFFFF)
        s1, _ = run_update(r16, c.and_(BV.const(0xFF)))
        s2, _ = run_update(s1, c.shr(8))
    except Top as e:
        raise Undecided(f"residue composition left the affine domain: {e}")
    if not s2.is_const():
        rep.violation("O5", f"{MOD}.{CLS}.update", "residue", "feeding the complemented register (low octet first) does not give a constant residue", file, upd.node.lineno)
        residue = None
    else:
        residue = s2.value()
    _check_is_good(rep, M, ce, vars, key, need["is_good"], reg, r16, residue, state, Ex, file)
    o1 = vars.fresh("t1", 8)
    o2 = vars.fresh("t2", 8)
    try:
        f1, _ = run_update(r16, o1)
        f2, _ = run_update(f1, o2)
    except Top as e:
        raise Undecided(str(e))
    mask = 0
    for b in list(o1.bits) + list(o2.bits):
        mask |= b
    rk = rank_gf2([b & mask for b in f2.bits])
    if rk == 16:
        rep.ok("O6", "exactly-when", "for a fixed register the map (octet1, octet2) -> final register is affine of rank 16: exactly one trailer reaches the residue")
    else:
        rep.violation("O6", f"{MOD}.{CLS}.update", "trailer-rank", f"trailer map has rank {rk} < 16: several trailers are accepted", file, upd.node.lineno)

    # ------------------------------------------------------------ O7: compute_checksum
    _check_compute_checksum(rep, M, ce, need["compute_checksum"], file, Ex)


def _run(Ex, M, ce, vars, key, fn, env, ne):
    ex = Ex(M, ce, vars, MOD, key)
    ex.assumed_ne = ne or []
    return ex.run_body(fn.node.body, env)


def _apply(bv, reg, octet):
    """evaluate an affine BV for concrete reg/octet (variables 0..15 = reg bits, 16..23 = octet bits)"""
    assign = 1
    for i in range(16):
        if (reg >> i) & 1:
            assign |= 1 << (1 + i)
    for i in range(8):
        if (octet >> i) & 1:
            assign |= 1 << (17 + i)
    out = 0
    for i, a in enumerate(bv.bits):
        if bin(a & assign).count("1") & 1:
            out |= 1 << i
    return out


def _solve_unique(eqs, r16):
    """eqs: affine forms that must all be 0, over the register variables. Returns ('unique', value) | ('none',) | ('many', rank)."""
    rows = []
    for a in eqs:
        rows.append(a)
    # gaussian elimination on ints: bit0 = const, bits 1.. = vars
    pivots = {}
    for a in rows:
        for hb, p in sorted(pivots.items(), reverse=True):
            if (a >> hb) & 1:
                a ^= p
        if a == 0:
            continue
        if a == 1:
            return ("none",)
        hb = a.bit_length() - 1
        pivots[hb] = a
    if len(pivots) < 16:
        return ("many", len(pivots))
    # back-substitute
    val = {}
    for hb in sorted(pivots):
        a = pivots[hb]
        c = a & 1
        rest = a & ~(1 << hb) & ~1
        b = 1
        while rest:
            lo = rest & -rest
            c ^= val[lo.bit_length() - 1]
            rest ^= lo
        val[hb] = c
    n = 0
    for i, a in enumerate(r16.bits):
        if val.get(a.bit_length() - 1, 0):
            n |= 1 << i
    return ("unique", n)


def _check_is_good(rep, M, ce, vars, key, fn, reg, r16, residue, state, Ex, file):
    """is_good is evaluated on a symbolic register (E-BITLIN with point splits): the set of register values for which it is true must be exactly
    {the residue of the implemented step function} = {the RFC's good-FCS value}; whatever way the test is written"""
    at = f"{MOD}.{CLS}.is_good"
    try:
        cs = explore(lambda sub, ne: _run(Ex, M, ce, vars, key, fn, state(r16.subst(sub)), ne))
    except Top as e:
        if "other state" in str(e):
            return  # reported by the other-state rule
        raise Undecided(f"is_good not analysable: {e}")
    true_points, odd = [], []
    for sub, ne, rv in cs:
        if isinstance(rv, BV) and rv.is_const():
            rv = rv.value() != 0
        if isinstance(rv, Opq):
            return  # reported by the other-state rule
        if not isinstance(rv, (bool, int)) or isinstance(rv, BV):
            odd.append((sub, rv))
            continue
        if rv:
            pinned = [subst_bit(r16.bits[i], sub) for i in range(16)]
            if all(b in (0, 1) for b in pinned):
                true_points.append(sum(b << i for i, b in enumerate(pinned)))
            else:
                odd.append((sub, f"true on a set of registers ({sum(1 for b in pinned if b not in (0, 1))} free bits)"))
    if odd:
        n_free = odd[0][1] if isinstance(odd[0][1], str) else "a symbolic value"
        rep.violation("O5", at, "residue", f"is_good is not the test `register == good-FCS value`: it is {n_free} in some case", file, fn.node.lineno)
        return
    pts = sorted(set(true_points))
    if pts == [GOOD] and residue == GOOD:
        rep.ok("O5", "good-FCS residue", f"repo step map composed with (~reg & 0xFF, ~reg >> 8) is the constant {hex(residue)}; is_good holds exactly for register = {hex(GOOD)} ({len(cs)} cases)")
    elif not pts:
        rep.violation("O5", at, "residue", "is_good can never be true", file, fn.node.lineno)
    elif len(pts) == 1:
        rep.violation("O5", at, "residue", "is_good accepts a register value that is not the residue of the implemented step function",
                      file, fn.node.lineno, witness=f"is_good true exactly for register {hex(pts[0])}; derived residue {hex(residue) if residue is not None else None}; RFC good-FCS {hex(GOOD)}")
    else:
        rep.violation("O5", at, "extra-condition", "is_good is true for more than one register value: a message that does not end with its FCS can be reported good", file, fn.node.lineno,
                      witness="true for registers " + ", ".join(hex(p_) for p_ in pts[:4]))


def subst_bit(a, sub):
    from sa.bitlin import subst_aff
    return subst_aff(a, sub)


# ---------------------------------------------------------------- window arithmetic (linear forms over start, length, len(data))
def _lin(e, names, env):
    """expression -> ('lin', {sym: coeff, 1: const}) | ('min', [forms]) | None"""
    start, length, data = names
    if isinstance(e, ast.Constant) and isinstance(e.value, int) and not isinstance(e.value, bool):
        return ("lin", {1: e.value})
    if isinstance(e, ast.Name):
        if e.id in (start, length):
            return ("lin", {e.id: 1})
        if e.id in env:
            return _lin(env[e.id], names, env)
        return None
    if isinstance(e, ast.Call) and isinstance(e.func, ast.Name) and e.func.id == "len" and len(e.args) == 1 and isinstance(e.args[0], ast.Name) and e.args[0].id == data:
        return ("lin", {"len": 1})
    if isinstance(e, ast.BinOp) and isinstance(e.op, (ast.Add, ast.Sub)):
        a, b = _lin(e.left, names, env), _lin(e.right, names, env)
        if a and b and a[0] == "lin" and b[0] == "lin":
            sg = 1 if isinstance(e.op, ast.Add) else -1
            d = dict(a[1])
            for k, v in b[1].items():
                d[k] = d.get(k, 0) + sg * v
            return ("lin", {k: v for k, v in d.items() if v})
        return None
    if isinstance(e, ast.Call) and isinstance(e.func, ast.Name) and e.func.id == "min" and len(e.args) == 2:
        fs = [_lin(a, names, env) for a in e.args]
        if all(f and f[0] == "lin" for f in fs):
            return ("min", [f[1] for f in fs])
    return None


def _window_verdict(lo, hi, names):
    """('ok'|'bad'|'unknown', text)"""
    start, length, _ = names
    want_lo, want_hi = {start: 1}, {start: 1, length: 1}
    if lo is None or hi is None:
        return "unknown", "window bounds are not linear in start/length/len(data)"
    if lo != ("lin", want_lo):
        return ("bad", f"window starts at {lo[1]} instead of start") if lo[0] == "lin" else ("unknown", "lower bound")
    if hi[0] == "lin":
        return ("ok", "") if hi[1] == want_hi else ("bad", f"window ends at {hi[1]} instead of start+length")
    a, b = hi[1]
    if b == want_hi:
        a, b = b, a
    if a != want_hi:
        return "bad", "window end is a minimum that does not involve start+length"
    # min(start+length, len + k): harmless only for k >= 0 (a window inside the data is never shortened)
    if set(b) <= {"len", 1} and b.get("len") == 1 and b.get(1, 0) >= 0:
        return "ok", ""
    return "bad", f"window end is clamped to {b}: a window reaching the end of the data (start+length = len(data)) is shortened"


def _window_grid(M, ce, fn, Ex):
    """the whole function on six symbolic octets for every window with start <= 4 and length <= 4: (cells, first mismatch | None, reason it could not be evaluated | None)"""
    vars = Vars()
    octs = [vars.fresh(f"o{i}", 8) for i in range(8)]
    data, start, length = fn.params
    body = _body(fn)
    cells = 0
    for st in range(0, 5):
        for ln in range(0, 5):
            if st + ln > len(octs):
                continue
            def run(sub, ne, st=st, ln=ln):
                ex = Ex(M, ce, vars, MOD, (MOD, CLS))
                ex.assumed_ne = ne or []
                env = {data: [o.subst(sub) for o in octs], start: BV.const(st), length: BV.const(ln)}
                return ex.run_body(body, env)
            try:
                cs = explore(run)  # tests on octet values fork into point cases
            except Top as e:
                return cells, None, str(e)
            for sub, ne, r in cs:
                ref = BV.const(INIT)
                for o in octs[st:st + ln]:
                    ref = ref_crc_reflected_step(ref, o.subst(sub), POLY)
                cells += 1
                if not isinstance(r, BV) or r != (ref ^ BV.const(0xFFFF)):
                    return cells, (st, ln), None
    return cells, None, None


def _check_compute_checksum(rep, M, ce, fn, file, Ex):
    at = f"{MOD}.{CLS}.compute_checksum"
    params = fn.params
    if len(params) != 3:
        raise Undecided("compute_checksum signature changed")
    # a one-shot function keeps nothing between calls: no store to an attribute / global / subscript of anything it did not create itself
    local_objs = {t.id for n in ast.walk(fn.node) if isinstance(n, ast.Assign) for t in n.targets if isinstance(t, ast.Name)}
    for n in ast.walk(fn.node):
        tg = n.targets if isinstance(n, ast.Assign) else [n.target] if isinstance(n, (ast.AugAssign, ast.AnnAssign)) else []
        for t in tg:
            base = t
            while isinstance(base, (ast.Attribute, ast.Subscript)):
                base = base.value
            if isinstance(t, (ast.Attribute, ast.Subscript)) and not (isinstance(base, ast.Name) and base.id in local_objs and base.id not in params):
                rep.violation("O7", at, "stateful", f"compute_checksum stores to `{ast.unparse(t)}`, state that outlives the call: a later call can return a value that depends on earlier calls "
                              "instead of on its arguments", file, n.lineno)
                return
        if isinstance(n, (ast.Global, ast.Nonlocal)):
            rep.violation("O7", at, "stateful", "compute_checksum declares global state", file, n.lineno)
            return
    # through the public function itself (decorators included), on bytes and on a bytearray
    from sa.fcsworlds import one_shot
    os2 = one_shot(M)
    if os2[0] == "bad":
        rep.violation("O7", at, "window", os2[1], file, fn.node.lineno)
        return
    cells, mismatch, why_not = _window_grid(M, ce, fn, Ex)
    rep.count("window_cells", cells)
    if mismatch is not None:
        rep.violation("O7", at, "window", f"for the window start={mismatch[0]}, length={mismatch[1]} of symbolic octets the result is not the complemented RFC 1662 fold over exactly data[start : start+length]",
                      file, fn.node.lineno, witness=f"start={mismatch[0]} length={mismatch[1]}")
        return
    try:
        _check_compute_checksum_shape(rep, M, ce, fn, file, Ex)
    except Undecided as e:
        if why_not is None and cells:
            raise Undecided(f"{e}; all {cells} windows with start, length <= 4 over symbolic octets are correct, but the fold is not in the loop catalogue that extends this to every length")
        raise


def _check_compute_checksum_shape(rep, M, ce, fn, file, Ex):
    at = f"{MOD}.{CLS}.compute_checksum"
    params = fn.params
    data, start, length = params
    names = (start, length, data)
    body = _body(fn)
    loops = [s for s in body if isinstance(s, (ast.For, ast.While))]
    if len(loops) != 1 or not isinstance(loops[0], ast.For):
        raise Undecided("compute_checksum is not a single for-loop fold")
    loop = loops[0]
    i = body.index(loop)
    vars = Vars()
    # prologue: integer locals that are window arithmetic are kept as expressions; the rest is executed abstractly
    aliases = {}
    pro = []
    for s in body[:i]:
        if isinstance(s, ast.Assign) and len(s.targets) == 1 and isinstance(s.targets[0], ast.Name) and _lin(s.value, names, aliases) is not None \
                and any(isinstance(n, ast.Name) and n.id in (start, length, data) for n in ast.walk(s.value)):
            aliases[s.targets[0].id] = s.value
        else:
            pro.append(s)
    ex = Ex(M, ce, vars, MOD, (MOD, CLS))
    env = {}
    try:
        ex.run_body(pro, env)
    except Top as e:
        raise Undecided(f"compute_checksum prologue: {e}")
    assigned = {n.id for s in loop.body for n in ast.walk(s) if isinstance(n, ast.Name) and isinstance(n.ctx, ast.Store)}
    acc = [k for k in env if k in assigned]
    if len(acc) != 1:
        raise Undecided(f"compute_checksum accumulator not unique: {acc}")
    acc = acc[0]
    if isinstance(env[acc], BV) and env[acc].is_const() and env[acc].value() == INIT:
        rep.ok("O7", "compute_checksum initial value", "fold starts from 0xFFFF")
    else:
        rep.violation("O7", at, "initial-value", "fold does not start from 0xFFFF", file, fn.node.lineno)
    it = loop.iter
    octet = None
    f16 = vars.fresh("fcs", 16)
    env2 = dict(env)  # (other locals of the prologue - an alias of the table, a precomputed bound - stay visible in the loop body)
    env2[acc] = f16
    idxvar = None
    if (isinstance(it, ast.Call) and isinstance(it.func, ast.Name) and it.func.id == "range" and len(it.args) == 2 and isinstance(loop.target, ast.Name)):
        lo, hi = _lin(it.args[0], names, aliases), _lin(it.args[1], names, aliases)
        env2[data] = ("octets", data)
        idxvar = loop.target.id
        shape = f"range({ast.unparse(it.args[0])}, {ast.unparse(it.args[1])})"
    elif isinstance(it, ast.Subscript) and isinstance(it.slice, ast.Slice) and isinstance(it.value, ast.Name) and it.value.id == data \
            and isinstance(loop.target, ast.Name) and it.slice.step is None and it.slice.lower is not None and it.slice.upper is not None:
        lo, hi = _lin(it.slice.lower, names, aliases), _lin(it.slice.upper, names, aliases)
        octet = vars.fresh("octet", 8)
        env2[loop.target.id] = octet
        shape = ast.unparse(it)
    else:
        raise Undecided("compute_checksum loop shape outside the catalogue (range(start, start+length) / data[start:start+length])")
    verdict, why = _window_verdict(lo, hi, names)
    if verdict == "ok":
        rep.ok("O7", "compute_checksum window", f"iterates exactly data[start : start+length] ({shape})")
    elif verdict == "bad":
        rep.violation("O7", at, "window", "the folded window is not data[start : start+length]", file, loop.lineno, witness=f"{shape}: {why}")
    else:
        raise Undecided(f"compute_checksum window: {why} ({shape})")
    ex2 = Ex(M, ce, vars, MOD, (MOD, CLS))
    try:
        r = ex2.run_body(loop.body, env2)
    except Top as e:
        raise Undecided(f"compute_checksum loop body left the affine domain: {e}")
    if r is not None:
        raise Undecided("return inside compute_checksum loop")
    if idxvar is not None:
        reads = ex2.octet_reads
        n_src = sum(1 for n_ in ast.walk(ast.Module(body=loop.body, type_ignores=[])) if isinstance(n_, ast.Subscript) and isinstance(n_.value, ast.Name) and n_.value.id == data)
        if set(reads) != {(data, idxvar)} or n_src != 1:
            rep.violation("O7", at, "octet-read", "loop body does not read exactly data[<loop index>] once", file, loop.lineno, witness=str(reads))
            return
        octet = BV([1 << (1 + vars.n - 8 + k) for k in range(8)])
    ref = ref_crc_reflected_step(f16, octet, POLY)
    if env2[acc] == ref:
        rep.ok("O7", "compute_checksum step", "loop body equals the RFC 1662 bit-serial octet step for symbolic accumulator and octet")
    else:
        rep.violation("O7", at, "step-map", "per-octet step of compute_checksum differs from the RFC 1662 definition", file, loop.lineno)
    g16 = vars.fresh("final", 16)
    ex3 = Ex(M, ce, vars, MOD, (MOD, CLS))
    env3 = dict(env2)
    env3[acc] = g16
    try:
        rv = ex3.run_body(body[i + 1:], env3)
    except Top as e:
        raise Undecided(f"compute_checksum epilogue: {e}")
    if rv is not None and rv == (g16 ^ BV.const(0xFFFF)):
        rep.ok("O7", "compute_checksum result", "returns accumulator xor 0xFFFF")
    else:
        rep.violation("O7", at, "complement", "result is not the complemented accumulator", file, fn.node.lineno)


_CONTROL = '''
class FastFrameCheckSequence16:
    T = [0]
    def __init__(self):
        self._crc_value = 0xFFFF
def rogue(x):
    x._crc_value = 0
    FastFrameCheckSequence16.T[3] = 1
'''


def _positive_control_census(rep):
    """zero-count rule: make sure the census machinery matches a forbidden writer in an embedded example."""
    class S:
        text = {"fastframecheck": _CONTROL}

        def tree(self, m):
            return ast.parse(_CONTROL)

    hits = [(n, o[2], k) for n, o, l, k in census_writes(S(), {"_crc_value", "T"}) if o[2] == "rogue"]
    if len(hits) != 2:
        raise Undecided(f"positive control for the write census failed: {hits}")
    rep.ok("O3", "positive control", "embedded forbidden writer (attribute store + table item store) is matched by the census", nontrivial=False)


def thorough(src, rep):
    from sa.selfval.harness import run_selfval
    run_selfval("C03", src, rep)
