"""C19 - Reader memory stays bounded on endless streams (level: other).

Every persistent growable store of the two readers has a bounding mechanism from a fixed catalogue:
R1 consumed input is released on every exit of read(); R2 per-message stores are capped (HDLC: every extension of the frame is
followed by the length guard whose true side discards; the raw history grows only with the frame or with a pending escape that the
next octet resolves; P1: the collected lines are covered by a length guard evaluated on every call whose trip path clears them);
R3 the unconsumed tail is capped and the trip path really shrinks the buffer; R4 the guard measures unconsumed bytes.
"""
from __future__ import annotations

from sa.hdlcmodel import HdlcModel, loc
from sa.hdlcref import buffer_contracts as hdlc_buffer, conformance as hdlc_conf, leak_typestate, length_guard, skeleton as hdlc_skeleton
from sa import p1model
from sa.props.c02 import emit as emit_h
from sa.props.c05 import emit as emit_p

LEVEL = "other"


def check(src, rep):
    m = HdlcModel(src)
    rep.count("modules", len(src.text))
    rep.count("hdlc_step_paths", len(m.paths))
    rep.explanation = ("Decided: a bound EXISTS for every persistent store. HDLC: read() drops the consumed prefix on every exit (so only unconsumed input of the last chunk survives), every "
                       "path that extends the frame passes the length guard whose true side discards, the raw history grows only together with the frame or on the escape row whose "
                       "successor row extends the frame, hunt-mode octets are not stored. P1: consumed lines are released on every exit, a length guard over unconsumed tail + collected "
                       "lines is evaluated on every call, its trip path clears both stores. NOT decided: the constants ('a few maximum-size messages').")
    rep.assumptions += ["stores enumerated from the field model: HDLC input buffer, raw-octet history, frame octets; P1 input buffer, collected lines"]
    # ---- HDLC
    sk = hdlc_skeleton(m)
    emit_h(rep, m, [r for r in sk if r.tag == "release"], {"release": "R1"})
    emit_h(rep, m, [r for r in length_guard(m) if r.tag == "cap"], {"cap": "R2"})
    emit_h(rep, m, [r for r in hdlc_buffer(m) if r.instance in ("trim-to-position", "trim-to-flag", "pop", "trim-keeps-consumed")], {"buffer": "R1", "release": "R1"})
    # raw history: rows that grow it without growing the frame
    bad = 0
    grow = 0
    for sp in m.paths:
        if not m.feasible(sp):
            continue
        grows_raw = any(isinstance(o, tuple) and o[0] == "append" for o in sp.post.raw_ops) and "clear" not in sp.post.raw_ops  # a row that resets the history first adds a bounded amount
        if not grows_raw:
            continue
        grow += 1
        if sp.post.frame in ("none", "fresh") or sp.post.appends:
            continue  # grows with the frame (length-guarded) or the frame is dropped/restarted on this path
        # allowed: the escape row (pending: clear -> set); its successor (P true) must extend the frame
        if sp.post.pending == "set" and sp.lits.get("P") is False:
            continue
        bad += 1
        rep.violation("R2", "hdlc.HdlcFrameReader.read", "raw-history-growth", "the raw-octet history grows on a row that neither extends the (length-guarded) frame nor is followed by one that must: "
                      "an endless run of such octets is retained", m.file, loc(m, sp), witness=f"[{sp.guard_text()}] => {sp.post.brief()}")
    # the escape row's successor must extend the frame whatever the octet (reference row 'unescape')
    emit_h(rep, m, [r for r in hdlc_conf(m) if r.instance in ("unescape", "hunt", "fill")], {"row": "R2"})
    if not bad:
        rep.ok("R2", "raw-octet history", f"{grow} growing path(s): each extends the length-guarded frame, drops the frame, or sets the pending escape that the next octet must resolve")
    ts, _ = leak_typestate(m)
    emit_h(rep, m, [r for r in ts if r.tag == "raw-clear"], {"raw-clear": "R2"})
    # hunt-mode / fill rows retain nothing (covered by rows hunt/fill + R1)
    # ---- P1
    p = p1model.P1Model(src)
    rep.count("p1_step_paths", len(p.paths))
    eg = p1model.exit_and_guard(p)
    emit_p(rep, p, eg, {"release": "R1", "cap": "R2", "trip": "R3", "unconsumed": "R4"})
    # a call that returns while complete lines are still buffered consumes at most one readout but buffers a whole chunk: with chunks holding several readouts the backlog grows with the stream
    emit_p(rep, p, [r for r in eg if r.tag == "exit" and r.instance == "early-return"], {"exit": "R2"})
    emit_p(rep, p, [r for r in p1model.buffer_contracts(p) if r.instance in ("pop", "clear", "trim-to-position", "trim-to-start", "trim-keeps-consumed")], {"buffer": "R1", "release": "R1"})
    # every call that buffers a non-empty chunk reaches the length guard (no return before it)
    emit_p(rep, p, [r for r in p1model.skeleton(p) if r.tag == "growth"], {"growth": "R2"})
    # keep rows are the only growth of the collected lines and the step never stores anything else
    for pp in p.paths:
        for op in pp.post.raw_ops:
            if isinstance(op, tuple) and op[0] == "other":
                rep.violation("R2", "dlde.ModeDReader.read", "lines-other-growth", f"collected lines modified by {op[1]}", p.file, p1model.ploc(p, pp))
    # any other store the per-line / per-octet step makes into the reader object has no bound established by the rules above
    GROW = (".add", ".append", ".extend", ".update", ".insert", ".setdefault", ".appendleft", ".push")
    for who, model, fnq in (("P1", p, "dlde.ModeDReader.read"), ("HDLC", m, "hdlc.HdlcFrameReader.read")):
        seen_o = set()
        for pp in model.paths:
            for o in getattr(pp.post, "other", []):
                so = str(o)
                if so.startswith("self.") and so.endswith(GROW) and so not in seen_o:
                    seen_o.add(so)
                    rep.violation("R2", fnq, f"unbounded-store:{so}", f"the {who} reader's step stores into `{so.rsplit('.', 1)[0]}` ({so.rsplit('.', 1)[1]}), a container of the reader that nothing empties or bounds: "
                                  "it grows with the stream (e.g. one entry per distinct line / frame)", model.file, (p1model.ploc(p, pp) if who == "P1" else loc(m, pp)))
    # unbounded memoisation in the modules the readers run in: the table outlives every message and grows with the distinct arguments seen
    import ast as _ast
    n_memo = 0
    for mod_ in ("hdlc", "fastframecheck", "dlde"):
        t_ = m.M.mods.get(mod_)
        for f_ in ([n_ for n_ in _ast.walk(t_) if isinstance(n_, (_ast.FunctionDef, _ast.AsyncFunctionDef))] if t_ is not None else []):
            for d_ in f_.decorator_list:
                e_ = d_.func if isinstance(d_, _ast.Call) else d_
                dn_ = e_.id if isinstance(e_, _ast.Name) else getattr(e_, "attr", None)
                unbounded = dn_ == "cache" or (dn_ == "lru_cache" and isinstance(d_, _ast.Call) and (
                    any(k_.arg == "maxsize" and isinstance(k_.value, _ast.Constant) and k_.value.value is None for k_ in d_.keywords) or
                    (d_.args and isinstance(d_.args[0], _ast.Constant) and d_.args[0].value is None)))
                n_params = len([a_ for a_ in f_.args.args if a_.arg not in ("self", "cls")])
                if dn_ in ("cache", "lru_cache"):
                    n_memo += 1
                if unbounded and n_params:
                    rep.violation("R2", f"{mod_}.{f_.name}", f"unbounded-memo:{f_.name}", f"{f_.name}() is memoised without a size limit: one entry is kept for every distinct argument tuple ever seen, for the life of "
                                  "the process - memory retained on behalf of the readers grows with the variety of the stream, not with the size of a message", src.file(mod_), f_.lineno)
    rep.floor("stores covered", 5, 5)
    from sa.cross import include
    include(rep, src, "C01", {"R2"}, "R1", "a frame grows by exactly one octet per append (premise of the frame-length bound: the guard that discards over-long frames can fire)")


def thorough(src, rep):
    from sa.selfval.harness import run_selfval
    run_selfval("C19", src, rep)
