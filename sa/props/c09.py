"""C09 - Kamstrup lists decode to the transmitted values with the documented scaling (level: other).

R1 every OBIS literal compared with / used as key against a decoded OBIS string is in the decoder's range (six groups 0..255);
R2 CT detection is well-typed (startswith on the text value of the meter-type element, selected by its OBIS code);
R3 scaling tables = documented ones, CT table selected exactly when the CT test holds; R4 exact-scaling idiom per exponent sign;
R5 naming, list_ver_id for the element without OBIS, greedy null-data skipping, APDU clock overwrites for frames, manufacturer, shared grammar.
"""
from __future__ import annotations

import ast
import re

from sa.consir import EnumVal, Expr, N, World, all_nodes, consumption, routes
from sa.consteval import ConstEval, NotConstant
from sa.decoders import cdr_groups_finding, naming_verdict, parse_targets, scaling_idiom, setitems, wire_type_findings
from sa.model import Model
from sa.paths import Engine, loop_body_paths, show_sv, strip_epoch
from sa.props.c08 import _ev, _subst
from sa.report import Undecided
from sa.sveval import CannotEval

LEVEL = "other"
MOD = "kamstrup"
CUR = ["1.1.31.7.0.255", "1.1.51.7.0.255", "1.1.71.7.0.255"]
ENE = ["1.1.1.8.0.255", "1.1.2.8.0.255", "1.1.3.8.0.255", "1.1.4.8.0.255"]
STD = {**{k: -2 for k in CUR}, **{k: 1 for k in ENE}}
CT = {**{k: -3 for k in CUR}, **{k: 1 for k in ENE}}
METER_TYPE = "1.1.96.1.1.255"
OBIS6 = re.compile(r"^\d+(\.\d+){5}$")


def check(src, rep):
    M = Model(src)
    ce = ConstEval(M)
    w = World(src)
    file = src.file(MOD)
    rep.count("modules", len(src.text))
    from sa.decoders import normaliser_workers
    ws = normaliser_workers(M, MOD)
    rep.require(len(ws) == 1, f"cannot find the one list-items normaliser reached from the public normalize_* functions (found {[w.name for w in ws]})")
    fn = ws[0]
    rep.assumptions += ["Kamstrup HAN scaling as summarised in the property (DESIGN.md A.4)", "true division of a Python int by an exact power of ten is correctly rounded"]
    rep.explanation = ("Decided: every six-part OBIS literal in the module has groups 0..255 (so comparisons with decoded codes are not constant-false); CT detection calls startswith('685') on the text "
                       "value of the element whose OBIS code is the meter-type code; the two scaling tables equal the documented ones and the CT table is chosen exactly under the CT test; negative "
                       "exponents divide (or round) instead of multiplying by a binary approximation, positive ones multiply integers; names through obis_name_map with membership test, list_ver_id for "
                       "the OBIS-less element, null-data padding skipped greedily, APDU clock assigned after the item loop for frames, manufacturer 'Kamstrup', frame wraps the same body grammar. "
                       "NOT decided: grammar acceptance of every documented list.")
    tree = src.tree(MOD)
    # ---------------------------------------------------------------- R1 literals
    lits = [(n.value, n.lineno) for n in ast.walk(tree) if isinstance(n, ast.Constant) and isinstance(n.value, str) and OBIS6.match(n.value)]
    bad = 0
    for v, line in lits:
        groups = [int(x) for x in v.split(".")]
        if any(g > 255 for g in groups):
            bad += 1
            rep.violation("R1", "kamstrup", f"obis-literal:{v}", f"OBIS literal {v!r} has a group above 255: no decoded code (six octets) can equal it, so the comparison/key is dead", file, line)
    if not bad:
        rep.ok("R1", f"{len(lits)} OBIS literals", "six decimal groups, each 0..255 (the range of the decoder's join of six octets)")
    rep.count("obis_literals", len(lits))
    rep.floor("OBIS literals", len(lits), 8)
    # ---------------------------------------------------------------- R3 tables
    # the two tables are the alternatives of the conditional expression that selects the scaling table
    tabs = None
    for n in ast.walk(fn.node):
        if isinstance(n, ast.IfExp) and isinstance(n.body, ast.Name) and isinstance(n.orelse, ast.Name):
            tabs = (n, n.body.id, n.orelse.id)
    rep.require(tabs is not None, "cannot find the selection between the two scaling tables")
    try:
        t_body, t_else = ce.module_value(MOD, tabs[1]), ce.module_value(MOD, tabs[2])
    except NotConstant as e:
        raise Undecided(f"scaling tables are not constant: {e}")
    # which is the CT table: decided below from the selecting test; here: one must equal each documented table
    cand = {tabs[1]: t_body, tabs[2]: t_else}
    ct_name = next((k for k, v in cand.items() if v == CT), None) or next((k for k, v in cand.items() if v.get(CUR[0]) == -3), tabs[1])
    std_name = next(k for k in cand if k != ct_name)
    std, ct = cand[std_name], cand[ct_name]
    for name, got, want in ((std_name, std, STD), (ct_name, ct, CT)):
        if got == want:
            rep.ok("R3", name, "currents 10^%d, energies 10^1, nothing else" % (want[CUR[0]]))
        else:
            diff = [k for k in set(got) | set(want) if got.get(k) != want.get(k)]
            rep.violation("R3", f"kamstrup.{name}", f"table:{name}", "scaling table differs from the documented scaling", file, 1, witness="; ".join(f"{k}: {got.get(k)} (expected {want.get(k)})" for k in sorted(diff)))
    # ---------------------------------------------------------------- R2 CT detection + table selection (prologue of the normaliser)
    body = fn.node.body
    loop = next((s for s in body if isinstance(s, ast.For)), None)
    rep.require(loop is not None, "kamstrup normaliser has no item loop")
    pro = body[:body.index(loop)]
    assigns = {s.targets[0].id: s.value for s in pro if isinstance(s, ast.Assign) and isinstance(s.targets[0], ast.Name)}
    assigns.update({s.target.id: s.value for s in pro if isinstance(s, ast.AnnAssign) and isinstance(s.target, ast.Name) and s.value is not None})
    sel_var = sel_lit = None
    for name, v in assigns.items():
        if isinstance(v, ast.Call) and isinstance(v.func, ast.Name) and v.func.id == "next" and v.args and isinstance(v.args[0], ast.GeneratorExp):
            g = v.args[0]
            if g.generators and g.generators[0].ifs and isinstance(g.generators[0].ifs[0], ast.Compare):
                c = g.generators[0].ifs[0]
                sides = [c.left, c.comparators[0]]
                lit = next((x.value for x in sides if isinstance(x, ast.Constant)), None)
                attr = next((x for x in sides if isinstance(x, ast.Attribute) and x.attr == "obis"), None)
                if lit is not None and attr is not None and isinstance(c.ops[0], ast.Eq):
                    sel_var, sel_lit = name, lit
    if sel_var is None:
        rep.violation("R2", f"kamstrup.{fn.name}", "meter-type-lookup", "the meter-type element is not looked up by its OBIS code", file, fn.node.lineno)
    elif sel_lit != METER_TYPE:
        rep.violation("R2", f"kamstrup.{fn.name}", "meter-type-code", f"the meter-type element is looked up with OBIS code {sel_lit!r} instead of {METER_TYPE!r}", file, fn.node.lineno)
    ct_var = None
    ct_expr = None
    for name, v in assigns.items():
        if any(isinstance(n, ast.Call) and isinstance(n.func, ast.Attribute) and n.func.attr == "startswith" for n in ast.walk(v)):
            ct_var, ct_expr = name, v
    if ct_expr is None:
        rep.violation("R2", f"kamstrup.{fn.name}", "ct-test-missing", "no CT-meter detection (startswith on the meter type number)", file, fn.node.lineno)
    else:
        sw = next(n for n in ast.walk(ct_expr) if isinstance(n, ast.Call) and isinstance(n.func, ast.Attribute) and n.func.attr == "startswith")
        recv = ast.unparse(sw.func.value)
        arg = sw.args[0].value if sw.args and isinstance(sw.args[0], ast.Constant) else None
        typed = recv == f"{sel_var}.value"
        guarded = f"{sel_var} is not None" in ast.unparse(ct_expr)
        if arg != "685":
            rep.violation("R2", f"kamstrup.{fn.name}", "ct-prefix", f"CT meters are detected by the prefix {arg!r} instead of '685'", file, sw.lineno)
        elif not typed:
            rep.violation("R2", f"kamstrup.{fn.name}", "ct-test-type", "startswith is not called on the text value of the meter-type element (the element container has no such method)", file, sw.lineno, witness=recv)
        elif not guarded:
            rep.violation("R2", f"kamstrup.{fn.name}", "ct-test-none", "the CT test dereferences the meter-type element without checking that it was found", file, sw.lineno)
        else:
            rep.ok("R2", "CT detection", f"{sel_var}.value.startswith('685') on the element whose OBIS code is {METER_TYPE}, guarded by presence (and text type)")
    tab_var = None
    for name, v in assigns.items():
        if isinstance(v, ast.IfExp) and {ast.unparse(v.body), ast.unparse(v.orelse)} == {ct_name, std_name}:
            tab_var = name
            ok_sel = ast.unparse(v.test) == ct_var and ast.unparse(v.body) == ct_name
            neg_sel = ast.unparse(v.test) == f"not {ct_var}" and ast.unparse(v.orelse) == ct_name
            if ok_sel or neg_sel:
                rep.ok("R3", "table selection", "the CT table exactly when the CT test holds, else the standard table")
            else:
                rep.violation("R3", f"kamstrup.{fn.name}", "table-selection", "the CT scaling table is not selected exactly when the CT test holds", file, v.lineno, witness=ast.unparse(v)[:100])
    if tab_var is None:
        rep.violation("R3", f"kamstrup.{fn.name}", "table-selection-missing", "the scaling table is not chosen between the standard and the CT table", file, fn.node.lineno)
    # ---------------------------------------------------------------- R4/R5: item loop
    E = Engine(M)
    node, ps = loop_body_paths(E, fn)
    item = ("iter", ("p", fn.params[0]), node.lineno)
    vsv = ("f0", item, "value")
    osv = ("f0", item, "obis")
    n_paths = 0
    bad4 = bad5 = 0
    for p in ps:
        if p.status == "raise":
            continue
        st = setitems(p)
        if len(st) != 1:
            bad5 += 1
            rep.violation("R5", f"kamstrup.{fn.name}", "stores-per-element", f"an element produces {len(st)} dictionary entries", file, node.lineno)
            continue
        key, value, line = st[0]
        n_paths += 1
        has_obis = None
        is_int = None
        scale_truthy = None
        scale_sv = None
        is_dt = None
        for g, pol, _ in p.guards:
            gs = strip_epoch(g)
            if gs == osv:
                has_obis = pol
            elif gs[0] == "call" and gs[1] == "isinstance" and gs[2][0] == vsv:
                is_int = pol
            elif gs[0] == "call" and str(gs[1]).endswith(".get") and len(gs[2]) >= 2 and gs[2][1] == osv:
                scale_truthy, scale_sv = pol, gs
            elif gs[0] == "cmp" and gs[1] == "Eq" and gs[3] == ("c", "meter_datetime"):
                is_dt = pol
        if has_obis is False:
            if key != ("c", "list_ver_id"):
                bad5 += 1
                rep.violation("R5", f"kamstrup.{fn.name}", "list-version-name", "the element without OBIS code is not stored as list_ver_id", file, line, witness=show_sv(key)[:60])
        else:
            nv = naming_verdict(key, p.guards, item)
            if nv:
                bad5 += 1
                rep.violation("R5", f"kamstrup.{fn.name}", "naming", nv, file, line)
        if is_dt:
            if value != ("f0", vsv, "datetime"):
                bad5 += 1
                rep.violation("R5", f"kamstrup.{fn.name}", "clock-element", "the clock element is not stored as the decoded datetime", file, line)
            continue
        if is_int and scale_truthy:
            # value expression by sign of the exponent
            for s_val in (-3, -2, 1):
                env = {scale_sv: s_val}
                expr = value
                # resolve conditional expressions on the exponent
                while expr[0] == "ite":
                    try:
                        c = _ev(_subst(expr[1], scale_sv, ("c", s_val)), {})
                    except CannotEval:
                        break
                    expr = expr[2] if c else expr[3]
                kind, okneg, okpos = scaling_idiom(expr, vsv, scale_sv)
                if kind == "other":
                    rep.undecide(f"R4 stored value outside the idiom catalogue: {show_sv(expr)[:100]}")
                    break
                if (s_val < 0 and not okneg) or (s_val > 0 and not okpos):
                    bad4 += 1
                    rep.violation("R4", f"kamstrup.{fn.name}", f"inexact-scaling:exponent{s_val}", f"for exponent {s_val} the register is scaled by `{kind}`: "
                                  + ("multiplying by 10**-n uses a binary approximation (35 -> 0.35000000000000003)" if s_val < 0 else "dividing where an exact integer product is required"),
                                  file, line, witness=show_sv(expr)[:100])
                    break
        elif is_int and scale_truthy is False:
            if value != vsv:
                bad4 += 1
                rep.violation("R4", f"kamstrup.{fn.name}", "unscaled-changed", "a register without scaling entry is not stored unchanged", file, line)
        elif is_int is False:
            if value != vsv:
                bad5 += 1
                rep.violation("R5", f"kamstrup.{fn.name}", "text-not-verbatim", "a text value is transformed before it is stored", file, line)
    # the scale lookup uses the selected table with the element's six-part code
    gets = [n for n in ast.walk(loop) if isinstance(n, ast.Call) and isinstance(n.func, ast.Attribute) and n.func.attr == "get" and ast.unparse(n.func.value) == (tab_var or "")]
    if tab_var and not (gets and all(ast.unparse(g.args[0]).endswith(".obis") for g in gets)):
        bad4 += 1
        rep.violation("R4", f"kamstrup.{fn.name}", "scale-lookup", "the exponent is not looked up in the selected table by the element's OBIS code", file, loop.lineno)
    if not bad4 and n_paths:
        rep.ok("R4", "scaling idiom", "negative exponents divide by the exact power of ten, positive ones multiply integers; unscaled registers stored as parsed")
    if not bad5 and n_paths:
        rep.ok("R5", f"{n_paths} element paths", "names through obis_name_map with membership test; list_ver_id for the OBIS-less element; clock and text stored unchanged")
    cg = cdr_groups_finding(M)
    if cg:
        rep.violation("R5", "obis.Obis.to_group_cdr_str", "cde-groups", cg, src.file("obis"), 1)
    # grammar: greedy null padding after each element
    m = w.module(MOD)
    el, bodyg, frame = m.env.get("Element"), m.env.get("NotificationBody"), m.env.get("LlcPdu")
    rep.require(all(isinstance(x, N) for x in (el, bodyg, frame)), "kamstrup grammars could not be extracted")
    pad = [s for s in el.a["subs"] if isinstance(s, N)][-1]
    greedy = [n for n in all_nodes(pad) if n.kind == "GreedyRange"]
    okpad = bool(greedy) and all(isinstance(g.a["sub"], N) and g.a["sub"].kind == "Const" and isinstance(g.a["sub"].a["value"], EnumVal) and g.a["sub"].a["value"].value == 0 for g in greedy)
    if okpad:
        rep.ok("R5", "null padding", "any number of null-data octets after an element is skipped (GreedyRange of the null tag)")
    else:
        rep.violation("R5", "kamstrup.Element", "null-padding", "null-data padding after an element is not skipped greedily: only particular amounts of padding are accepted", file, pad.line or 1,
                      witness=f"{pad.kind}:{[n.kind for n in all_nodes(pad)][:6]}")
    # frames: APDU clock overwrites after the loop
    fr_fn = M.funcs.get("kamstrup.normalize_parsed_frame")
    rep.require(fr_fn is not None, "anchor vanished: kamstrup.normalize_parsed_frame")
    stmts = fr_fn.node.body
    call_i = next((i for i, s in enumerate(stmts) if any(isinstance(n, ast.Call) and ast.unparse(n.func) == fn.name for n in ast.walk(s))), None)
    writes = [(i, n) for i, s in enumerate(stmts) for n in ast.walk(s) if isinstance(n, ast.Assign) and isinstance(n.targets[0], ast.Subscript) and "METER_DATETIME" in ast.unparse(n.targets[0])]
    soft = [n for s in stmts for n in ast.walk(s) if isinstance(n, ast.Call) and isinstance(n.func, ast.Attribute) and n.func.attr in ("setdefault", "get") and "METER_DATETIME" in ast.unparse(n)]
    if call_i is not None and writes and all(i > call_i for i, _ in writes) and all(ast.unparse(n.value).endswith("information.DateTime.datetime") for _, n in writes) and not soft:
        rep.ok("R5", "frame clock", "for frames the APDU date-time is assigned to meter_datetime after the list items were normalised (it overrides a clock element of the list)")
    else:
        rep.violation("R5", "kamstrup.normalize_parsed_frame", "apdu-clock", "for frames the meter clock is not unconditionally the APDU date-time (it must override the list's clock element)", file, fr_fn.node.lineno,
                      witness="setdefault/get used" if soft else "no assignment after the item loop")
    okm = any(isinstance(d, ast.Dict) and any(isinstance(v, ast.Constant) and v.value == "Kamstrup" for v in d.values) for d in ast.walk(fn.node))
    if okm:
        rep.ok("R5", "manufacturer", "meter_manufacturer = 'Kamstrup'")
    else:
        rep.violation("R5", f"kamstrup.{fn.name}", "manufacturer", "the manufacturer field is not the constant 'Kamstrup'", file, fn.node.lineno)
    tg = parse_targets(M, MOD)
    if list(routes(frame, bodyg)) and tg == {"decode_frame_content": "LlcPdu", "decode_notification_body": "NotificationBody"}:
        rep.ok("R5", "frame = body", "LlcPdu wraps the same NotificationBody grammar; both entry points share the item normaliser")
    else:
        rep.violation("R5", "kamstrup", "frame-body", "frame and bare-body decoding do not share grammar", file, 1)
    wt, n_wt = wire_type_findings(w, ["cosem", MOD])
    for kind, mod, where, text, line in wt:
        rep.violation("R5", f"{mod}.{where.split(':')[0]}", f"wire-type:{where}", text, src.file(mod), line)
    from sa.cross import include
    include(rep, src, "C10", {"R1", "R2", "R3", "R4", "R5"}, "R5", "the meter clock is the transmitted date-time")
    rep.floor("element paths", n_paths, 6)


def thorough(src, rep):
    from sa.selfval.harness import run_selfval
    run_selfval("C09", src, rep)
