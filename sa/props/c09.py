"""C09 - Kamstrup lists decode to the transmitted values with the documented scaling (level: other).

R1 every OBIS literal compared with / used as key against a decoded OBIS string is in the decoder's range (six groups 0..255);
R2 CT detection is well-typed (startswith on the text value of the meter-type element, selected by its OBIS code);
R3 scaling tables = documented ones, CT table selected exactly when the CT test holds; R4 exact-scaling idiom per exponent sign;
R5 naming, list_ver_id for the element without OBIS, greedy null-data skipping, APDU clock overwrites for frames, manufacturer, shared grammar.
"""
from __future__ import annotations

import ast
import re

from sa.consir import EnumVal, Expr, N, World, all_nodes, consumption, routes
from sa.consteval import ConstEval, NotConstant
from sa.decoders import cdr_groups_finding, naming_verdict, parse_targets, scaling_idiom, setitems, wire_type_findings
from sa.model import Model
from sa.paths import Engine, loop_body_paths, show_sv, strip_epoch
from sa.props.c08 import _ev, _subst
from sa.report import Undecided
from sa.sveval import CannotEval

LEVEL = "other"
MOD = "kamstrup"
CUR = ["1.1.31.7.0.255", "1.1.51.7.0.255", "1.1.71.7.0.255"]
ENE = ["1.1.1.8.0.255", "1.1.2.8.0.255", "1.1.3.8.0.255", "1.1.4.8.0.255"]
STD = {**{k: -2 for k in CUR}, **{k: 1 for k in ENE}}
CT = {**{k: -3 for k in CUR}, **{k: 1 for k in ENE}}
METER_TYPE = "1.1.96.1.1.255"
OBIS6 = re.compile(r"^\d+(\.\d+){5}$")


def _pts(M):
    from sa.decoders import parse_target_sets
    return parse_target_sets(M, MOD)


def _reg_vs_const(term):
    """an ordering test of a transmitted register against an integer constant that registers of every width can fall on either side of"""
    from sa.abseval import Sym
    a = list(term.args) if len(term.args) == 2 else []
    return len(a) == 2 and sum(isinstance(x, Sym) and x.pytype == "int" for x in a) == 1 and sum(isinstance(x, int) and not isinstance(x, bool) and 0 < x < 255 * 256 for x in a) == 1


def check(src, rep):
    M = Model(src)
    from sa.oneshot import rule as _one_shot
    _one_shot(rep, M, src, ("kamstrup", "obis_map", "cosem", "obis", "common"), "R1")
    ce = ConstEval(M)
    w = World(src)
    file = src.file(MOD)
    rep.count("modules", len(src.text))
    fn = M.funcs.get("kamstrup.normalize_parsed_notification")  # only used to locate reports
    rep.require(fn is not None, "anchor vanished: kamstrup.normalize_parsed_notification")
    rep.assumptions += ["Kamstrup HAN scaling as summarised in the property (DESIGN.md A.4)", "true division of a Python int by an exact power of ten is correctly rounded"]
    rep.explanation = ("Decided: every six-part OBIS literal in the module has groups 0..255 (so comparisons with decoded codes are not constant-false); CT detection calls startswith('685') on the text "
                       "value of the element whose OBIS code is the meter-type code; the two scaling tables equal the documented ones and the CT table is chosen exactly under the CT test; negative "
                       "exponents divide (or round) instead of multiplying by a binary approximation, positive ones multiply integers; names through obis_name_map with membership test, list_ver_id for "
                       "the OBIS-less element, null-data padding skipped greedily, APDU clock assigned after the item loop for frames, manufacturer 'Kamstrup', frame wraps the same body grammar. "
                       "NOT decided: grammar acceptance of every documented list.")
    tree = src.tree(MOD)
    # ---------------------------------------------------------------- R1 literals
    lits = [(n.value, n.lineno) for n in ast.walk(tree) if isinstance(n, ast.Constant) and isinstance(n.value, str) and OBIS6.match(n.value)]
    bad = 0
    for v, line in lits:
        groups = [int(x) for x in v.split(".")]
        if any(g > 255 for g in groups):
            bad += 1
            rep.violation("R1", "kamstrup", f"obis-literal:{v}", f"OBIS literal {v!r} has a group above 255: no decoded code (six octets) can equal it, so the comparison/key is dead", file, line)
    if not bad:
        rep.ok("R1", f"{len(lits)} OBIS literals", "six decimal groups, each 0..255 (the range of the decoder's join of six octets)")
    rep.count("obis_literals", len(lits))
    rep.floor("OBIS literals", len(lits), 8)
    # ---------------------------------------------------------------- R2-R5: the public normalisers on abstract parsed lists (E-ABS)
    from sa.abseval import AbsEval, AObj, Sym
    from sa.decoders import obis_hook
    from sa.sveval import Res
    try:
        name_map = ce.module_value("obis_map", "obis_name_map")
        MAN = ce.module_value("obis_map", "FIELD_METER_MANUFACTURER")
        LISTVER = ce.module_value("obis_map", "FIELD_OBIS_LIST_VER_ID")
        MDT = ce.module_value("obis_map", "FIELD_METER_DATETIME")
    except NotConstant as e:
        raise Undecided(f"obis_map tables not constant: {e}")
    if not (isinstance(name_map, dict) and len(name_map) > 10):
        raise Undecided("obis_map.obis_name_map could not be evaluated to its table (the module-level code that fills it is outside the evaluator)")
    fr_fn, bo_fn = M.funcs.get("kamstrup.normalize_parsed_frame"), M.funcs.get("kamstrup.normalize_parsed_notification")
    rep.require(fr_fn is not None and bo_fn is not None, "anchor vanished: kamstrup normalisers")

    def cdr(c):
        return ".".join(c.split(".")[2:5])

    def key_of(c):
        return name_map.get(cdr(c), cdr(c))

    def exact(term, reg, exp):
        """term is an exact-scaling idiom (DESIGN.md A.6) of reg x 10^exp"""
        if exp > 0:
            return term == Res("Mult", reg, 10 ** exp)
        k = 10 ** -exp
        return term in (Res("Div", reg, k), Res("round", Res("Mult", reg, 10.0 ** exp), -exp), Res("round", Res("Div", reg, k), -exp),
                        Res("float", Res("Div", Res("Decimal", reg), k)), Res("float", Res("Mult", Res("Decimal", reg), Res("Pow", Res("Decimal", 10), exp))))

    VER, MID, PWR, VOLT, DT, ADT, UNK = Sym("list_version", "str"), Sym("meter_id", "str"), Sym("power", "int"), Sym("voltage", "int"), Sym("clock", "datetime"), Sym("apdu_clock", "datetime"), Sym("other", "int")
    cur = {c: Sym(f"I{k}", "int") for k, c in enumerate(CUR)}
    ene = {c: Sym(f"E{k}", "int") for k, c in enumerate(ENE)}
    n_cases = 0
    AE = AbsEval(M, hooks={"Obis.from_string": obis_hook})
    bad4 = bad5 = bad2 = 0
    und = None
    shown = set()
    from sa.decoders import ResultLog
    rlog = ResultLog()

    def V(rule, tag, text, witness=None, fnname=None):
        if (rule, tag) in shown:
            return
        shown.add((rule, tag))
        rep.violation(rule, f"kamstrup.{fnname or fn.name}", tag, text, file, (M.funcs.get(f'kamstrup.{fnname}').node.lineno if fnname else fn.node.lineno), witness=witness)

    for mt_desc, mt_val, is_ct in (("type number 6851...", "6851131BN243101040", True), ("type number 6841...", "6841131BN243101040", False), ("no meter-type element", None, False),
                                   ("meter-type element that is not text", Sym("type_as_int", "int"), False), ("type number 1685...", "16851131BN24310104", False)):
        for empty_obis in (None, ""):
            items = [AObj("Container", {"obis": empty_obis, "value": VER}), AObj("Container", {"obis": "1.1.0.0.5.255", "value": MID})]
            if mt_val is not None:
                items.append(AObj("Container", {"obis": METER_TYPE, "value": mt_val}))
            items.append(AObj("Container", {"obis": "1.1.1.7.0.255", "value": PWR}))
            for c in CUR:
                items.append(AObj("Container", {"obis": c, "value": cur[c]}))
            items.append(AObj("Container", {"obis": "1.1.32.7.0.255", "value": VOLT}))
            items.append(AObj("Container", {"obis": "0.1.1.0.0.255", "value": AObj("Container", {"datetime": DT})}))
            for c in ENE:
                items.append(AObj("Container", {"obis": c, "value": ene[c]}))
            items.append(AObj("Container", {"obis": "1.1.250.251.252.255", "value": UNK}))
            table = CT if is_ct else STD
            for which, f_, arg in (("body", bo_fn, AObj("Container", {"list_items": items})),
                                   ("frame", fr_fn, AObj("Container", {"information": AObj("Container", {"notification_body": AObj("Container", {"list_items": items}), "DateTime": AObj("Container", {"datetime": ADT})})}))):
                res = AE.apply(f_, [arg])  # one interpreter state for all lists: module-level tables mutated by an earlier decode are seen by the later ones
                results_ = [res]
                if res[0] == "branch" and not (isinstance(res[1], Res) and res[1].op in ("Gt", "GtE", "Lt", "LtE") and not _reg_vs_const(res[1])):
                    # a condition on abstract values (e.g. whether a date-time has a time zone): every outcome is judged
                    from sa.parsedworlds import run_valuations
                    outs_, _tr = run_valuations(AE, f_, [arg], limit=16)
                    results_ = [r_ for _, r_ in outs_]
                for res in results_:
                    n_cases += 1
                    desc = f"{which} list with {mt_desc}"
                    if res[0] == "branch" and isinstance(res[1], Res) and res[1].op in ("Gt", "GtE", "Lt", "LtE") and len(res[1].args) == 2 \
                            and all(isinstance(a_, Sym) and a_.pytype == "datetime" for a_ in res[1].args):
                        bad5 += 1
                        V("R5", "clock-ordering", "the meter clock is chosen by ordering two transmitted date-times: one of them can have a deviation (aware datetime) and the other none (naive), and "
                          "ordering those raises TypeError; when they are comparable the result is not unconditionally the documented one", f"{desc}: condition {res[1]!r}", fnname=f_.node.name)
                        continue
                    if res[0] in ("undecided", "branch"):
                        und = f"{desc}: {res[1]!r}"
                        break
                    if res[0] == "raise":
                        if res[1] == "KeyError":
                            bad5 += 1
                            V("R5", "naming", "the common-name table is indexed without a membership test (unknown OBIS codes raise KeyError)", desc)
                        elif res[1] in ("AttributeError", "TypeError"):
                            bad2 += 1
                            V("R2", "ct-test-type", f"the normaliser raises {res[1]} for a {desc}: the CT test / value handling is not well-typed for this list", desc)
                        else:
                            bad5 += 1
                            V("R5", "normaliser-raises", f"the normaliser raises {res[1]} for a well-formed {desc}", desc)
                        continue
                    got = res[1]
                    if not isinstance(got, dict):
                        und = f"{desc}: normaliser does not return a dictionary"
                        break
                    rlog.add(desc, got)
                    # scaled registers
                    for c, reg in list(cur.items()) + list(ene.items()):
                        g = got.get(key_of(c), None)
                        if g is None or not exact(g, reg, table[c]):
                            other = CT if table is STD else STD
                            if g is not None and table[c] != other[c] and exact(g, reg, other[c]):
                                bad2 += 1
                                V("R2", "ct-selection", "the CT scaling is not applied exactly when the meter type number (text, element 1.1.96.1.1.255) starts with '685' - also after lists of the other kind have been decoded", f"{desc}: {cdr(c)} stored as {g!r}")
                            elif g is not None and any(exact(g, reg, e) for e in (-3, -2, -1, 1, 2, 3)):
                                bad4 += 1
                                V("R3", f"table:{'ct' if is_ct else 'standard'}", "scaling table differs from the documented scaling (currents 10^-2, CT meters 10^-3; energies 10^1)", f"{desc}: {cdr(c)} stored as {g!r}, expected exponent {table[c]}")
                            elif g == reg:
                                bad4 += 1
                                V("R3", "scale-missing", "a register with a documented scaling is stored unscaled: its OBIS code is missing from the scaling table (or the exponent is not looked up by the element's code)", f"{desc}: {cdr(c)} stored as {g!r}")
                            else:
                                bad4 += 1
                                V("R4", f"inexact-scaling:exponent{table[c]}", f"for exponent {table[c]} the register is not scaled by an exact idiom "
                                  + ("(multiplying by 10**-n uses a binary approximation: 35 -> 0.35000000000000003)" if table[c] < 0 else "(an exact integer product is required)"), f"{desc}: {cdr(c)} stored as {g!r}")
                    # unscaled / verbatim / names
                    want = {MAN: "Kamstrup", LISTVER: VER, key_of("1.1.0.0.5.255"): MID, key_of("1.1.1.7.0.255"): PWR, key_of("1.1.32.7.0.255"): VOLT, "250.251.252": UNK,
                            MDT: ADT if which == "frame" else DT}
                    if mt_val is not None:
                        want[key_of(METER_TYPE)] = mt_val
                    for k, v in want.items():
                        if k not in got:
                            bad5 += 1
                            if k == LISTVER:
                                V("R5", "list-version-name", "the element without OBIS code is not stored as list_ver_id", f"{desc} (obis = {empty_obis!r})")
                            else:
                                V("R5", "naming", f"an element is not stored under {k!r} (obis_name_map[C.D.E] when known, else C.D.E)", f"{desc}; keys {sorted(map(str, got))[:6]}")
                        elif got[k] != v:
                            bad5 += 1
                            if k == MDT and which == "frame":
                                V("R5", "apdu-clock", "for frames the meter clock is not unconditionally the APDU date-time (it must override the list's clock element)", f"{desc}: {got[k]!r}", fnname="normalize_parsed_frame")
                            elif k == MDT:
                                V("R5", "clock-element", "the clock element is not stored as the decoded datetime", f"{desc}: {got[k]!r}")
                            elif k == MAN:
                                V("R5", "manufacturer", "the manufacturer field is not the constant 'Kamstrup'", repr(got[k]))
                            elif v in (PWR, VOLT, UNK):
                                V("R4", "unscaled-changed", "a register without scaling entry is not stored unchanged", f"{desc}: {k} stored as {got[k]!r}")
                            else:
                                V("R5", "text-not-verbatim", "a text value is transformed before it is stored", f"{desc}: {k} stored as {got[k]!r}")
                    extra = [k for k in got if k not in want and k not in {key_of(c) for c in CUR + ENE}]
                    if extra:
                        bad5 += 1
                        V("R5", "stores-per-element", f"the dictionary has entries no element accounts for: {extra[:3]}", desc)
                    if und:
                        break
            if und:
                break
        if und:
            break
    # a frame whose APDU header carries no date-time (null header): the clock element of the list is the meter clock
    if not und and not bad5:
        items_ = [AObj("Container", {"obis": "0.1.1.0.0.255", "value": AObj("Container", {"datetime": DT})}), AObj("Container", {"obis": "1.1.1.7.0.255", "value": PWR})]
        arg_ = AObj("Container", {"information": AObj("Container", {"notification_body": AObj("Container", {"list_items": items_}), "DateTime": AObj("Container", {})})})
        r_ = AbsEval(M, hooks={"Obis.from_string": obis_hook}).apply(fr_fn, [arg_])
        n_cases += 1
        if r_[0] in ("undecided", "branch"):
            und = f"frame list with a null APDU date-time: {r_[1]!r}"
        elif r_[0] == "raise":
            bad5 += 1
            V("R5", "null-header", f"the frame normaliser raises {r_[1]} for a frame whose APDU header carries no date-time", None, fnname="normalize_parsed_frame")
        elif isinstance(r_[1], dict) and r_[1].get(MDT) != DT:
            bad5 += 1
            V("R5", "null-header", "for a frame whose APDU header carries no date-time the meter clock is not the list's clock element", f"meter_datetime = {r_[1].get(MDT)!r}", fnname="normalize_parsed_frame")
    n_paths = n_cases
    rf = rlog.finding()
    if rf:
        bad5 += 1
        V("R5", "result-aliased", rf[0], rf[1])
    if und:
        rep.undecide(f"R4 the kamstrup normaliser is outside the interpreted subset / branches on an undetermined condition for a {und}")
    else:
        if not bad2:
            rep.ok("R2", "CT detection", f"CT scaling exactly for a text meter type number starting with '685' (element {METER_TYPE}); no type error without that element or with a non-text value ({n_cases} abstract lists)")
            rep.ok("R3", "scaling tables", "currents 10^-2 (CT meters 10^-3), energies 10^1, nothing else is scaled; the CT table exactly when the CT test holds")
        if not bad4:
            rep.ok("R4", "scaling idiom", "negative exponents divide by the exact power of ten, positive ones multiply integers; unscaled registers stored as parsed (symbolic registers)")
        if not bad5:
            rep.ok("R5", f"{n_cases} abstract lists", "names through obis_name_map, C.D.E for unknown codes; list_ver_id for the OBIS-less element; clock and text stored unchanged; manufacturer 'Kamstrup'")
            rep.ok("R5", "frame clock", "for frames the APDU date-time is assigned to meter_datetime and overrides a clock element of the list")
    cg = cdr_groups_finding(M)
    if cg:
        rep.violation("R5", "obis.Obis.to_group_cdr_str", "cde-groups", cg, src.file("obis"), 1)
    # grammar: greedy null padding after each element
    m = w.module(MOD)
    el, bodyg, frame = m.env.get("Element"), m.env.get("NotificationBody"), m.env.get("LlcPdu")
    rep.require(all(isinstance(x, N) for x in (el, bodyg, frame)), "kamstrup grammars could not be extracted")
    from sa.consir import consumption, first_octets
    alts = [a_ for a_ in el.a["subs"] if isinstance(a_, N)] if el.kind == "Select" else [el]
    okpad, pad = True, el
    for alt in alts:
        # every kind of element ends with a member that consumes nothing but null-data octets, any number of them
        members = [s for s in alt.a.get("subs", []) if isinstance(s, N)] if alt.kind in ("Struct",) else []
        pad = members[-1] if members else alt
        greedy = [n for n in all_nodes(pad) if n.kind == "GreedyRange"]
        def only_null(n_):
            """the node consumes nothing but null-data tag octets"""
            if n_.kind == "Peek":
                return True
            if n_.kind in ("Struct", "FocusedSeq"):
                return all(only_null(s_) for s_ in n_.a.get("subs", []) if isinstance(s_, N))
            if n_.kind in ("If", "GreedyRange"):
                return isinstance(n_.a.get("sub"), N) and only_null(n_.a["sub"])
            if n_.kind == "Const":
                return isinstance(n_.a.get("value"), EnumVal) and n_.a["value"].value == 0
            return n_.kind in ("Pass", "Computed", "Check")
        try:
            lo = consumption(pad)[0]
        except Exception:  # noqa
            lo = None
        ok_alt = bool(members) and bool(greedy) and only_null(pad) and lo == 0 and \
            all(isinstance(g.a["sub"], N) and g.a["sub"].kind == "Const" and isinstance(g.a["sub"].a["value"], EnumVal) and g.a["sub"].a["value"].value == 0 for g in greedy)
        if not ok_alt:
            okpad = False
            break
    if okpad:
        rep.ok("R5", "null padding", "any number of null-data octets after an element is skipped (GreedyRange of the null tag)")
    else:
        rep.violation("R5", "kamstrup.Element", "null-padding", "null-data padding after an element is not skipped greedily: only particular amounts of padding are accepted", file, pad.line or 1,
                      witness=f"{pad.kind}:{[n.kind for n in all_nodes(pad)][:6]}")
    tg = parse_targets(M, MOD)
    if list(routes(frame, bodyg)) and tg == {"decode_frame_content": "LlcPdu", "decode_notification_body": "NotificationBody"}:
        rep.ok("R5", "frame = body", "LlcPdu wraps the same NotificationBody grammar; both entry points share the item normaliser")
    elif None in tg.values() and list(routes(frame, bodyg)) and all(_pts(M).get(k_) for k_ in tg) and _pts(M) != {"decode_frame_content": {"LlcPdu"}, "decode_notification_body": {"NotificationBody"}}:
        rep.violation("R5", "kamstrup", "frame-body", "an entry point does not parse its input with its own grammar (frames with LlcPdu, bare bodies with NotificationBody)", file, 1,
                      witness=f"grammars reached: { {k_: sorted(v_) for k_, v_ in _pts(M).items()} }")
    elif None in tg.values() and list(routes(frame, bodyg)):
        rep.undecide(f"R5 cannot see which grammar the entry points parse their input with ({tg})")
    else:
        rep.violation("R5", "kamstrup", "frame-body", "frame and bare-body decoding do not share grammar", file, 1)
    from sa.decoders import octet_string_text_finding
    otf = octet_string_text_finding(w)
    if otf:
        rep.violation("R5", "cosem.Field", "text-alternatives", otf, src.file("cosem"), 1)
    else:
        rep.ok("R5", "text fields in the grammar", "an octet string is a date-time struct or text, a visible string is text; no other alternative can claim the octets")
    wt, n_wt = wire_type_findings(w, ["cosem", MOD])
    for kind, mod, where, text, line in wt:
        rep.violation("R5", f"{mod}.{where.split(':')[0]}", f"wire-type:{where}", text, src.file(mod), line)
    from sa.cross import include
    include(rep, src, "C10", {"R1", "R2", "R3", "R4", "R5"}, "R5", "the meter clock is the transmitted date-time")
    rep.floor("abstract lists evaluated", n_paths, 20)


def thorough(src, rep):
    from sa.selfval.harness import run_selfval
    run_selfval("C09", src, rep)
