"""C18 - Reconnect pacing follows capped exponential back-off and the loss breaker (level: other).

R1 the strategy object reports min(2^(n-1), max_delay) after n failures since a reset: the transfer functions of failure()/reset()/
current_delay_sec are extracted (E-PATH) and tabulated over the property's whole parameter domain (E-VAL); R2 failure()/reset() placement
in the connect coroutine; R3 sleep-before-connect with max(strategy delay, breaker sleep if armed); R4 breaker update.
"""
from __future__ import annotations

import ast

from sa.model import Model
from sa.paths import Engine, show_sv, strip_epoch
from sa.report import Undecided
from sa.sveval import CannotEval, ev, path_holds

LEVEL = "other"
MOD = "meter_connection"
SELF = ("self0",)


def _fields_written(ps):
    return {e[2] for p in ps for e in p.effects if e[0] == "write" and e[1] == SELF}


def _strategy_sequences(rep, M, B, file):
    """ExponentialBackOff interpreted on concrete parameters: after n consecutive failures since the last reset (or construction) the reported delay is
    min(2^(n-1), max_delay), whatever happened before the reset, and 0 right after a reset"""
    from sa.abseval import AbsEval, AObj
    AE = AbsEval(M)
    key = (MOD, "ExponentialBackOff")
    init = B.methods["__init__"]
    thorough = rep.tier == "thorough"
    maxes = sorted(set(list(range(1, 131)) + [255, 256, 257, 1000, 1023, 1024, 1025, 3599, 3600])) if thorough else [1, 2, 3, 5, 7, 8, 9, 10, 60, 64, 100, 1000, 3600]
    nmax = 24 if thorough else 14
    bad = None
    n_calls = 0

    def call(obj, name):
        nonlocal n_calls
        n_calls += 1
        r = AE.apply(B.methods[name], [obj])
        if r[0] in ("undecided", "branch"):
            raise Undecided(f"ExponentialBackOff.{name} outside the interpreted subset: {r[1]}")
        return r

    for m in maxes:
        for prefix in (0, 1, 2, 5, nmax):
            obj = AObj("ExponentialBackOff", {}, cls_key=key)
            r = AE.apply(init, [obj])
            if r[0] != "value":
                raise Undecided(f"ExponentialBackOff.__init__ outside the interpreted subset: {r}")
            if "max_delay" not in obj.attrs:
                raise Undecided("ExponentialBackOff has no public max_delay attribute after construction")
            obj.attrs["max_delay"] = m
            for _ in range(prefix):
                call(obj, "failure")
            if prefix:
                call(obj, "reset")
            if obj.attrs.get("max_delay") != m:
                bad = (m, prefix, 0, f"reset() changes max_delay to {obj.attrs.get('max_delay')}")
                break
            r = call(obj, "current_delay_sec")
            if r[0] != "value" or r[1] != 0:
                bad = (m, prefix, 0, f"reports {r[1] if r[0] == 'value' else r} right after {'a reset' if prefix else 'construction'} instead of 0")
                break
            for n in range(1, nmax + 1):
                rf = call(obj, "failure")
                if rf[0] == "raise":
                    bad = (m, prefix, n, f"failure() raises {rf[1]}")
                    break
                r = call(obj, "current_delay_sec")
                want = min(2 ** (n - 1), m)
                if r[0] != "value" or r[1] != want:
                    bad = (m, prefix, n, f"reports {r[1] if r[0] == 'value' else r} instead of {want}")
                    break
            if bad:
                break
        if bad:
            break
    # a long outage: thousands of consecutive failures (2^(n-1) leaves every float / fixed-width range on the way) -- the strategy keeps answering the cap
    if not bad:
        for m in (60, 3600):
            obj = AObj("ExponentialBackOff", {}, cls_key=key)
            AE.apply(init, [obj])
            obj.attrs["max_delay"] = m
            for n in range(1, 2201):
                rf = call(obj, "failure")
                r = call(obj, "current_delay_sec") if rf[0] != "raise" else rf
                want = min(2 ** (n - 1), m)
                if r[0] != "value" or r[1] != want:
                    bad = (m, 0, n, (f"failure() raises {rf[1]}" if rf[0] == "raise" else f"current_delay_sec raises {r[1]}" if r[0] == "raise" else f"reports {r[1]} instead of {want}"))
                    break
            if bad:
                break
    rep.count("strategy_calls", n_calls)
    if bad:
        m, prefix, n, txt = bad
        rep.violation("R1", f"{MOD}.ExponentialBackOff.failure", "recurrence" if not prefix else "reset-state",
                      "after n consecutive failures since the last reset the strategy does not report min(2^(n-1), max_delay)" if not prefix else
                      "a reset does not return the strategy to its initial state: the delays after a reset depend on the failures before it", file, B.methods["failure"].node.lineno,
                      witness=f"max_delay={m}, {prefix} failure(s) then reset, then n={n}: {txt}" if prefix else f"max_delay={m}, n={n}: {txt}")
    else:
        rep.ok("R1", "failure/reset sequences", f"interpreted on {len(maxes)} max_delay values x 5 histories before a reset x n = 1..{nmax}, and on outages of 2200 consecutive failures: delay = min(2^(n-1), max_delay) counted from the last reset; 0 after reset; max_delay untouched; nothing raises ({n_calls} calls)")


def check(src, rep):
    rep.src_for_include = src
    M = Model(src)
    file = src.file(MOD)
    rep.count("modules", len(src.text))
    B = M.classes.get((MOD, "ExponentialBackOff"))
    CM = M.classes.get((MOD, "ConnectionManager"))
    rep.require(B is not None and CM is not None, "anchor vanished: ExponentialBackOff / ConnectionManager")
    for n in ("failure", "reset", "current_delay_sec", "__init__"):
        rep.require(n in B.methods, f"anchor vanished: ExponentialBackOff.{n}")
    rep.assumptions += ["asyncio.sleep(t) suspends for at least t seconds; scheduler slack and the upper time bounds are not decided",
                        "Python int arithmetic"]
    rep.explanation = ("Decided: the transfer functions of ExponentialBackOff (failure, reset, constructor, reported delay) are extracted as guarded expressions and tabulated over "
                       "max_delay 1..3600 and every number of consecutive failures the property quantifies over - the reported delay is min(2^(n-1), max_delay) for all of them, and all "
                       "failure()/reset() sequences reduce to these because reset and construction give the same single-field state; in the connect coroutine failure() sits only on the "
                       "exception path of the factory call and reset() only (and always) on its success path; every path to the factory call sleeps the computed back-off first, which is "
                       "max(strategy delay, breaker sleep if armed); the breaker flag is recomputed on every loss that is not a close. NOT decided: upper time bounds.")
    # ---------------------------------------------------------------- R1 (a): the strategy object interpreted (E-ABS) on failure/reset sequences
    _strategy_sequences(rep, M, B, file)
    # ---------------------------------------------------------------- R1 (b): extracted transfer functions over the whole parameter domain
    E = lambda: Engine(M, keep_props=set())
    pf, pr, pi = E().run(B.methods["failure"]), E().run(B.methods["reset"]), E().run(B.methods["__init__"])
    pc = E().run(B.methods["current_delay_sec"])
    state = _fields_written(pf)
    if len(state) != 1:
        rep.notes.append(f"R1: the back-off state has several fields {sorted(state)}: the large-domain tabulation of the extracted single-field recurrence is skipped; "
                         "the interpreted failure/reset sequences above cover max_delay 1..130 and boundaries with up to 24 failures")
        return _rest(rep, M, CM, file)
    extra_reset = _fields_written(pr) - state
    if extra_reset:
        rep.violation("R1", f"{MOD}.ExponentialBackOff.reset", "reset-writes-configuration", f"reset() also overwrites {sorted(extra_reset)}: a configured maximum delay is silently discarded by the first successful "
                      "connection, so later delays are capped by the default instead", file, B.methods["reset"].node.lineno)
    D = state.pop()
    DF = ("f0", SELF, D)
    # max delay field: the other field read by current_delay_sec
    reads = set()

    def leaves(sv):
        if isinstance(sv, tuple):
            if sv[0] == "f0" and sv[1] == SELF:
                reads.add(sv[2])
            for x in sv:
                leaves(x)
    for p in pc:
        leaves(p.ret)
        for g, _, _ in p.guards:
            leaves(g)
    others = reads - {D}
    rep.require(len(others) == 1, f"cannot bind the maximum-delay field (fields read by current_delay_sec: {sorted(reads)})")
    MX = others.pop()
    MF = ("f0", SELF, MX)

    def apply(paths, d, m, what):
        env = {DF: d, MF: m}
        hits = []
        for p in paths:
            try:
                if path_holds(p, env):
                    hits.append(p)
            except CannotEval as e:
                raise Undecided(f"{what}: guard outside the evaluable subset ({e})")
        if len(hits) != 1:
            raise Undecided(f"{what}: {len(hits)} paths apply to state d={d}, max={m}")
        p = hits[0]
        if p.status == "raise":
            return ("raise",)
        nd = d
        for e in p.effects:
            if e[0] == "write" and e[1] == SELF and e[2] == D:
                nd = ev(e[3], env)
            elif e[0] in ("write", "mutate", "callm") and not (e[0] == "write" and e[2] == D):
                if e[0] == "write" and e[2] == MX:
                    return ("writes-max",)
        return ("ok", nd, (ev(p.ret, env) if p.ret is not None else None))

    # reset / constructor state
    r0 = apply(pr, 12345, 60, "reset")
    init_d = None
    for p in pi:
        for e in p.effects:
            if e[0] == "write" and e[2] == D and e[3][0] == "c":
                init_d = e[3][1]
    if r0[0] == "ok" and r0[1] == 0 and init_d == 0:
        rep.ok("R1", "reset / constructor", "both give the state delay = 0 (so every failure/reset sequence is determined by the number of failures since the last reset)")
    else:
        rep.violation("R1", f"{MOD}.ExponentialBackOff.reset", "reset-state", "reset() or the constructor does not return the strategy to the initial state", file, B.methods["reset"].node.lineno,
                      witness=f"reset -> {r0}, constructor -> {init_d}")
    thorough = rep.tier == "thorough"
    NMAX = 200 if thorough else 24
    maxes = range(1, 3601) if thorough else sorted(set(list(range(1, 131)) + [255, 256, 257, 511, 512, 513, 1000, 1023, 1024, 1025, 2047, 2048, 2049, 3599, 3600]))
    n_eval = 0
    bad = None
    try:
        for m in maxes:
            d = 0
            for n in range(1, NMAX + 1):
                r = apply(pf, d, m, "failure")
                if r[0] != "ok":
                    bad = (m, n, f"failure() {r[0]}")
                    break
                d = r[1]
                rr = apply(pc, d, m, "current_delay_sec")
                n_eval += 1
                want = min(2 ** (n - 1), m)
                if rr[0] != "ok" or rr[2] != want:
                    bad = (m, n, f"reports {rr[2] if rr[0] == 'ok' else rr[0]} instead of {want} (internal delay {d})")
                    break
                if d > (1 << 300):
                    raise Undecided("delay grows beyond 2^300: tabulation aborted")
            if bad:
                break
    except CannotEval as e:
        rep.notes.append(f"R1: the extracted transfer functions are outside the evaluable subset ({e}): the large-domain tabulation is skipped; the interpreted failure/reset "
                         "sequences above (incl. the long outage) decide the recurrence")
        return _rest(rep, M, CM, file)
    rep.count("recurrence_evaluations", n_eval)
    if bad:
        rep.violation("R1", f"{MOD}.ExponentialBackOff.failure", "recurrence", "after n consecutive failures the strategy does not report min(2^(n-1), max_delay)", file, B.methods["failure"].node.lineno,
                      witness=f"max_delay={bad[0]}, n={bad[1]}: {bad[2]}")
    else:
        rep.ok("R1", "recurrence", f"reported delay = min(2^(n-1), max_delay) for every max_delay in {'1..3600' if thorough else str(len(maxes)) + ' values incl. 1..130 and boundaries'} and n = 1..{NMAX} ({n_eval} evaluations of the extracted transfer functions)")
    rep.extra["exhaustive"] = bool(thorough)

    return _rest(rep, M, CM, file)


def _rest(rep, M, CM, file):
    _rest_body(rep, M, CM, file)
    from sa.cross import include
    include(rep, rep.src_for_include, "C17", {"R5"}, "R3", "every started attempt runs through its back-off to the factory call (exactly one attempt per iteration, not cancelled by a timeout)")


def _rest_body(rep, M, CM, file):
    # ---------------------------------------------------------------- R2 / R3: connect coroutine
    from sa.asyncts import connect_coroutine
    tc = connect_coroutine(CM)
    rep.require(tc is not None, "cannot find the coroutine that awaits the connection factory")
    strat_field = None
    for a, t in CM.field_types.items():
        if t in ((MOD, "BackOffStrategy"), (MOD, "ExponentialBackOff")):
            strat_field = a
    if strat_field is None:
        for a, v in CM.field_inits.items():
            if isinstance(v, ast.Call) and ast.unparse(v.func).endswith("ExponentialBackOff"):
                strat_field = a
    rep.require(strat_field is not None, "cannot bind the back-off strategy field of ConnectionManager")
    SF = ("f0", SELF, strat_field)
    # the failure count is per manager: the strategy object is created for this manager (or handed in by the caller), never a default-argument instance that all
    # managers built without the argument share
    init_cm = CM.methods.get("__init__")
    if init_cm is not None:
        a_ = init_cm.node.args
        pos_ = a_.posonlyargs + a_.args
        dflt = dict(zip([x.arg for x in pos_][len(pos_) - len(a_.defaults):], a_.defaults))
        dflt.update({k_.arg: d_ for k_, d_ in zip(a_.kwonlyargs, a_.kw_defaults) if d_ is not None})
        try:
            for p_ in Engine(M).run(init_cm):
                v_ = strip_epoch(p_.store.get(("f", SELF, strat_field), ("c", None)))
                if v_[0] == "p" and isinstance(dflt.get(v_[1]), ast.Call):
                    rep.violation("R1", f"{MOD}.ConnectionManager.__init__", "shared-strategy", f"the back-off strategy defaults to one object created when the class is defined (`{v_[1]}={ast.unparse(dflt[v_[1]])[:40]}`): "
                                  "managers share their failure count, so a new manager starts with the delay another one has built up", file, init_cm.node.lineno)
                    break
        except Exception:  # Unsupported: not decided here
            pass
    ps = Engine(M, keep_props={"current_delay_sec"}, inline_async=True).run(tc)
    n_conn = 0
    bad2 = bad3 = 0

    def is_factory(sv):
        return isinstance(sv, tuple) and (("factory" in str(sv[1])) if sv and sv[0] == "call" else any(is_factory(x) for x in sv if isinstance(x, tuple)))

    for p in ps:
        evs = []
        for e in p.effects:
            if e[0] == "write" and is_factory(e[3]):
                evs.append("connect")
            elif e[0] == "await" and is_factory(e[1]):
                evs.append("connect")
            elif e[0] == "callm" and strip_epoch(e[1]) == SF:
                evs.append(e[2].split(".")[-1])
            elif e[0] == "await" and e[1][0] == "call" and e[1][1] == "sleep":
                evs.append(("sleep", e[1][2][0] if e[1][2] else None))
            elif e[0] == "try":
                evs.append("try")
        exc = [g[1] for g, pol, _ in p.guards if g[0] == "exc"]
        # a handler that narrows the caught exception itself (isinstance / match on the exception variable): the narrowed class counts
        for g, pol, _ in p.guards:
            if g[0] == "call" and g[1] == "isinstance" and len(g[2]) == 2 and g[2][0][0] == "excval":
                cname = (g[2][1][1] if g[2][1][0] in ("g", "class") and isinstance(g[2][1][1], str) else show_sv(g[2][1])).split(".")[-1].strip("()'")
                if pol:
                    exc = [cname]
                elif cname in ("Exception",) and exc and not any("Cancelled" in x for x in exc):
                    exc = ["<non-Exception BaseException>"]
        in_try = "try" in evs
        if not in_try:
            if "failure" in evs or "reset" in evs:
                bad2 += 1
                rep.violation("R2", f"{MOD}.ConnectionManager.{tc.name}", "placement", "failure()/reset() called on a path that does not attempt a connection", file, tc.node.lineno, witness=str(evs))
            continue
        n_conn += 1
        if not exc:  # success path of the factory call
            if evs.count("reset") != 1 or "failure" in evs or ("connect" in evs and evs.index("reset") < evs.index("connect")):
                bad2 += 1
                conds = "; ".join(("" if pol else "not ") + show_sv(g)[:70] for g, pol, _ in p.guards if g[0] != "exc")
                rep.violation("R2", f"{MOD}.ConnectionManager.{tc.name}", "reset-on-success", "a successful connection does not reset the back-off sequence exactly once (after the factory returned)",
                              file, tc.node.lineno, witness=f"events {[x if isinstance(x, str) else 'sleep' for x in evs]} under [{conds}]")
        elif any("Cancelled" in x or x == "<non-Exception BaseException>" for x in exc):
            if "failure" in evs or "reset" in evs:
                bad2 += 1
                rep.violation("R2", f"{MOD}.ConnectionManager.{tc.name}", "cancel-path", "cancellation is counted as a failure/success", file, tc.node.lineno)
        else:
            if evs.count("failure") != 1 or "reset" in evs:
                bad2 += 1
                rep.violation("R2", f"{MOD}.ConnectionManager.{tc.name}", "failure-on-error", "a failed connection attempt does not call failure() exactly once", file, tc.node.lineno, witness=str([x if isinstance(x, str) else 'sleep' for x in evs]))
        # R3: sleep before connect on this path when the computed back-off is > 0
        sleeps = [x for x in evs if isinstance(x, tuple)]
        first_try = evs.index("try")
        slept_before = [x for x in evs[:first_try] if isinstance(x, tuple)]
        gt0 = None
        for g, pol, _ in p.guards:
            if g[0] == "cmp" and g[1] in ("LtE", "Lt") and g[3] == ("c", 0) and g[2][0] == "call" and g[2][1] == "max":
                gt0 = (not pol, g[2])
        # what is slept / tested must be the value the back-off function computed, nothing derived from it
        RET = _backoff_returns(M, CM, tc)
        odd = [x for x in slept_before if RET is not None and _nl(strip_epoch(x[1])) not in RET]
        odd_tests = [g for g, pol, _ in p.guards if RET is not None and g[0] == "cmp" and g[3] == ("c", 0) and g[1] in ("LtE", "Lt") and g[2][0] == "op"
                     and any(_nl(strip_epoch(t)) in RET for t in (g[2][2], g[2][3]))]
        if odd or odd_tests:
            bad3 += 1
            rep.violation("R3", f"{MOD}.ConnectionManager.{tc.name}", "sleep-before-connect", "the attempt does not sleep exactly the computed back-off before connecting (the slept / tested value is derived from it, "
                          "e.g. reduced by the time already spent)", file, tc.node.lineno, witness=show_sv(odd[0][1] if odd else odd_tests[0])[:120])
            continue
        if gt0 is None:
            # back-off value statically 0 on this path (first branch of _get_back_off_time) or test missing
            zero = any(True for g, pol, _ in p.guards if False)
            if not slept_before and not _path_backoff_zero(p):
                bad3 += 1
                rep.violation("R3", f"{MOD}.ConnectionManager.{tc.name}", "no-sleep", "a connection attempt is made without sleeping the computed back-off first", file, tc.node.lineno)
        else:
            positive, val = gt0
            if positive and not (len(slept_before) == 1 and slept_before[0][1] == val):
                bad3 += 1
                rep.violation("R3", f"{MOD}.ConnectionManager.{tc.name}", "sleep-before-connect", "the back-off is positive but the attempt does not sleep exactly that time before connecting",
                              file, tc.node.lineno, witness=f"slept {[show_sv(x[1])[:60] for x in slept_before]}")
    exc_types = {g[1].split(".")[-1] for p in ps for g, _, _ in p.guards if g[0] == "exc"}
    if n_conn and not ({"Exception", "BaseException"} & exc_types):
        bad2 += 1
        rep.violation("R2", f"{MOD}.ConnectionManager.{tc.name}", "failure-on-error", f"only {sorted(exc_types - {'CancelledError'})} raised by the factory count as a failed attempt: any other error leaves "
                      "the connect task without failure(), and the next attempt follows immediately (no back-off)", file, tc.node.lineno)
    # who may call: the strategy counts connection attempts, so nothing but the attempt itself (the connect coroutine and what it calls) reports to it
    allowed = {tc.name}
    grow = True
    while grow:
        grow = False
        for nm in list(allowed):
            f_ = CM.methods.get(nm)
            for c_ in ast.walk(f_.node) if f_ else []:
                if isinstance(c_, ast.Call) and isinstance(c_.func, ast.Attribute) and isinstance(c_.func.value, ast.Name) and c_.func.value.id == "self" and c_.func.attr in CM.methods \
                        and c_.func.attr not in allowed:
                    allowed.add(c_.func.attr)
                    grow = True
    reporters = set()
    for ck_ in ((MOD, "BackOffStrategy"), (MOD, "ExponentialBackOff")):
        if ck_ in M.classes:
            reporters |= {n_ for n_, f_ in M.classes[ck_].methods.items() if f_.kind == "method" and not n_.startswith("_")}
    n_scanned = 0
    for nm, f_ in CM.methods.items():
        if nm in allowed or nm == "__init__":
            continue
        n_scanned += 1
        alias = set()
        for a_ in ast.walk(f_.node):
            if isinstance(a_, ast.Assign) and len(a_.targets) == 1 and isinstance(a_.targets[0], ast.Name) and isinstance(a_.value, ast.Attribute) and isinstance(a_.value.value, ast.Name) \
                    and a_.value.value.id == "self" and a_.value.attr == strat_field:
                alias.add(a_.targets[0].id)
        for c_ in ast.walk(f_.node):
            if isinstance(c_, ast.Call) and isinstance(c_.func, ast.Attribute) and c_.func.attr in reporters:
                r_ = c_.func.value
                hit = (isinstance(r_, ast.Attribute) and isinstance(r_.value, ast.Name) and r_.value.id == "self" and r_.attr == strat_field) or (isinstance(r_, ast.Name) and r_.id in alias)
                if hit:
                    bad2 += 1
                    rep.violation("R2", f"{MOD}.ConnectionManager.{nm}", f"reports-outside-attempt:{c_.func.attr}", f"{c_.func.attr}() of the connect back-off strategy is called outside the connection attempt: the delay is "
                                  "then no longer a function of the number of consecutive failed attempts since the last successful one", file, c_.lineno)
    if n_conn and not bad2:
        rep.ok("R2", f"{tc.name}: {n_conn} connecting paths", "reset() exactly once after a successful factory call and nowhere else; failure() exactly once on its Exception path; nothing on cancellation")
        rep.ok("R2", f"who may call ({n_scanned} other methods of the manager)", f"none of them calls {sorted(reporters)} of the strategy")
    if n_conn and not bad3:
        rep.ok("R3", "sleep before connect", f"on all {n_conn} connecting paths a positive back-off is slept (await sleep(value)) before the factory is called")
    rep.count("connect_paths", n_conn)
    rep.floor("connecting paths", n_conn, 3)
    # the back-off value = max(strategy delay, breaker sleep if armed else 0)
    gb = None
    for name, f in CM.methods.items():
        if f is not tc and not isinstance(f.node, ast.AsyncFunctionDef) and any(isinstance(n, ast.Attribute) and n.attr == "current_delay_sec" for n in ast.walk(f.node)):
            gb = f
    rep.require(gb is not None, "cannot find the function computing the back-off time")
    pg = Engine(M, keep_props={"current_delay_sec"}).run(gb)
    CUR = ("prop", SF, "current_delay_sec", 0)
    flag_f = sleep_f = None
    # role binding: flag = the field (of the manager or of a record it owns) read here that starts as False; sleep = the other field read here
    # (not the strategy).  Fields are identified by their access chain from the manager, so a private state record works like direct fields.
    chains = set()

    def rooted(sv):
        return sv == SELF or (isinstance(sv, tuple) and sv and sv[0] == "f0" and rooted(sv[1]))

    def leaves2(sv):
        if isinstance(sv, tuple):
            s0 = strip_epoch(sv) if sv and sv[0] == "f0" else sv
            if s0 and s0[0] == "f0" and rooted(s0):
                chains.add(s0[:3])
                return
            for x in sv:
                leaves2(x)
    for p in pg:
        leaves2(p.ret)
        for g, _, _ in p.guards:
            leaves2(g)

    def chain_class(sv):
        if sv == SELF:
            return (MOD, "ConnectionManager")
        ck_ = chain_class(sv[1])
        return M.field_type(ck_, sv[2]) if ck_ else None

    def chain_init(sv):
        ck_ = chain_class(sv[1])
        if ck_ is None or ck_ not in M.classes:
            return None
        c_ = M.classes[ck_]
        if sv[2] in c_.field_inits:
            return c_.field_inits[sv[2]]
        for s_ in c_.node.body:  # record default
            if isinstance(s_, ast.AnnAssign) and isinstance(s_.target, ast.Name) and s_.target.id == sv[2]:
                return s_.value
        return None
    chains = {c_ for c_ in chains if not (c_[1] == SELF and c_[2] == strat_field) and not any(o_ != c_ and o_[1] == c_ for o_ in chains)}
    flag_ch = [c_ for c_ in chains if isinstance(chain_init(c_), ast.Constant) and chain_init(c_).value is False]
    int_ch = [c_ for c_ in chains if c_ not in flag_ch]
    rep.require(len(flag_ch) == 1 and len(int_ch) == 1, f"cannot bind breaker flag / sleep fields in {gb.name}: {sorted(show_sv(c_) for c_ in chains)}")
    FL, SL = flag_ch[0], int_ch[0]
    flags, ints = [FL[2]], [SL[2]]
    badv = None
    n_cells = 0
    for delay in (0, 1, 2, 5, 8, 60):
        for flag in (False, True):
            for sl in (0, 1, 5, 10, 100):
                env = {CUR: delay, FL: flag, SL: sl}
                try:
                    hits = [p for p in pg if path_holds(p, env)]
                    if len(hits) != 1:
                        raise Undecided(f"{gb.name}: {len(hits)} paths for {env}")
                    got = ev(hits[0].ret, env)
                except CannotEval as e:
                    raise Undecided(f"{gb.name} outside the evaluable subset: {e}")
                n_cells += 1
                want = max(delay, sl if flag else 0)
                if got != want and badv is None:
                    badv = (delay, flag, sl, got, want)
    if badv:
        rep.violation("R3", f"{MOD}.ConnectionManager.{gb.name}", "backoff-value", "the back-off time is not max(strategy delay, breaker sleep if the breaker is armed else 0)", file, gb.node.lineno,
                      witness=f"delay={badv[0]} armed={badv[1]} sleep={badv[2]}: got {badv[3]} expected {badv[4]}")
    else:
        rep.ok("R3", gb.name, f"= max(strategy delay, breaker sleep if armed else 0) on all {n_cells} cells of the value grid")
    rep.count("backoff_cells", n_cells)
    # ---------------------------------------------------------------- R4: breaker
    ub = None
    for name, f in CM.methods.items():
        if any(isinstance(n, ast.Attribute) and isinstance(n.ctx, ast.Store) and n.attr == flags[0] for n in ast.walk(f.node)) and name != "__init__":
            ub = f
    rep.require(ub is not None, "cannot find the function updating the breaker flag")
    pu = Engine(M).run(ub)
    last_fields = {(strip_epoch(e[1]) if isinstance(e[1], tuple) and e[1] and e[1][0] == "f0" else e[1], e[2]) for p in pu for e in p.effects if e[0] == "write" and e[2] != flags[0]}
    rep.require(len(last_fields) == 1, f"breaker update writes unexpected fields {sorted(x[1] for x in last_fields)}")
    LAST_RECV, LAST = last_fields.pop()
    LASTSV = ("f0", LAST_RECV, LAST)
    okb = True
    for p in pu:
        ws = {e[2]: e[3] for e in p.effects if e[0] == "write"}
        has_last = any((strip_epoch(g) == LASTSV) and pol for g, pol, _ in p.guards) or any(g[0] == "cmp" and g[1] == "Is" and strip_epoch(g[2]) == LASTSV and not pol for g, pol, _ in p.guards)
        if LAST not in ws or not (ws[LAST][0] == "call" and "now" in str(ws[LAST][1])):
            okb = False
            rep.violation("R4", f"{MOD}.ConnectionManager.{ub.name}", "last-loss-time", "the time of the last loss is not updated on every loss", file, ub.node.lineno)
        elif str(ws[LAST][1]).endswith(".now") and not [a_ for a_ in ws[LAST][2][1:] if a_ != ("c", None)] and "datetime" in str(ws[LAST][1]) + str(ws[LAST][2][:1]):
            # datetime.now() without a time zone is local wall-clock time: it jumps at daylight-saving changes, so two losses seconds apart can look an hour apart (or the reverse)
            okb = False
            rep.violation("R4", f"{MOD}.ConnectionManager.{ub.name}", "local-wall-clock", "the time of a loss is taken from datetime.now() (local time, no time zone): across a daylight-saving change the "
                          "difference of two such readings is off by an hour, so the breaker is armed (or not) wrongly", file, ub.node.lineno, witness=show_sv(ws[LAST])[:80])
        if has_last:
            v = ws.get(flags[0])
            good = v is not None and v[0] == "cmp" and v[1] == "Lt" and "total_seconds" in str(v[2]) and LASTSV in {strip_epoch(x) if x and x[0] == "f0" else x for x in _flatten(v[2])} \
                and v[3][0] == "f0" and "threshold" in v[3][2]
            if good:
                # the compared quantity is the elapsed time itself: (now - last).total_seconds(), not a rounded / truncated / shifted version of it
                lhs = _nl(strip_epoch(v[2]))
                exact = lhs[0] == "call" and str(lhs[1]).endswith(".total_seconds") and len(lhs[2]) == 1 and lhs[2][0][0] == "op" and lhs[2][0][1] == "Sub" and \
                    strip_epoch(lhs[2][0][3]) == LASTSV and lhs[2][0][2][0] == "call" and "now" in str(lhs[2][0][2][1])
                if not exact:
                    okb = False
                    rep.violation("R4", f"{MOD}.ConnectionManager.{ub.name}", "breaker-flag", "the breaker compares a transformed elapsed time (rounded / truncated / offset) with the threshold: losses whose distance is "
                                  "just below the threshold do not arm the breaker", file, ub.node.lineno, witness=show_sv(v[2])[:120])
            if not good:
                okb = False
                rep.violation("R4", f"{MOD}.ConnectionManager.{ub.name}", "breaker-flag", "the breaker flag is not recomputed as `now - last loss < threshold` on a repeated loss", file, ub.node.lineno,
                              witness=show_sv(v)[:120] if v else "flag not written")
    # the breaker's state (flag and last-loss time) is written by nothing but its update function
    for name, f in CM.methods.items():
        if f is ub or name == "__init__":
            continue
        for n in ast.walk(f.node):
            if isinstance(n, ast.Attribute) and isinstance(n.ctx, (ast.Store, ast.Del)) and n.attr in (LAST, flags[0]):
                okb = False
                rep.violation("R4", f"{MOD}.ConnectionManager.{name}", "breaker-state-writer", f"`{n.attr}` (loss-breaker state) is modified outside the loss update: two losses within the threshold "
                              "no longer reliably arm the breaker", file, n.lineno)
    # call site: connect_loop calls it exactly on a loss that is not a close
    cl = CM.methods.get("connect_loop")
    rep.require(cl is not None, "anchor vanished: ConnectionManager.connect_loop")
    # on the resolved iteration paths (helpers and awaited helper coroutines inlined): the last-loss time is written exactly on the paths that held a
    # connection and, after the wait on done/closing, find the closing event not set
    from sa.paths import loop_body_paths
    closing = [a for a, v in CM.field_inits.items() if isinstance(v, ast.Call) and ast.unparse(v.func).split(".")[-1] == "Event"]
    rep.require(len(closing) == 1, "cannot bind the closing event")
    conn_f = [a for a in CM.field_inits if a.strip("_") == "connection"]
    _, ips = loop_body_paths(Engine(M, inline_async=True), cl)
    okc = bool(ips)
    n_upd = 0
    for p in ips:
        upd = any(e[0] == "write" and e[2] == LAST and (strip_epoch(e[1]) if isinstance(e[1], tuple) and e[1] and e[1][0] == "f0" else e[1]) == LAST_RECV for e in p.effects)
        tests = [(g, pol) for g, pol, _ in p.guards if g[0] == "call" and g[1] == ".is_set" and strip_epoch(g[2][0]) == ("f0", SELF, closing[0])]
        waited = [e for e in p.effects if e[0] == "await" and "done" in str(e[1])]
        later = [(g, pol) for g, pol in tests if waited and (g[2][0][3] if len(g[2][0]) > 3 else 0) > waited[-1][3]]
        lost = bool(waited) and bool(later) and later[-1][1] is False
        if upd:
            n_upd += 1
        if upd != lost:
            okc = False
    okc = okc and n_upd >= 1
    if okb and okc:
        rep.ok("R4", "loss breaker", "flag := (now - last loss) < threshold on every repeated loss, last-loss time always updated, called from connect_loop exactly when the loss is not a close")
    elif not okc:
        rep.violation("R4", f"{MOD}.ConnectionManager.connect_loop", "breaker-call-site", "the breaker is not updated exactly on every connection loss that is not a close()", file, cl.node.lineno)


def _flatten(sv):
    out = set()
    if isinstance(sv, tuple):
        out.add(sv)
        for x in sv:
            out |= _flatten(x)
    return out


def _nl(sv):
    """drop call-site line numbers"""
    if isinstance(sv, tuple):
        if sv and sv[0] == "call" and len(sv) == 4 and isinstance(sv[3], int):
            return ("call", sv[1], tuple(_nl(x) for x in sv[2]))
        return tuple(_nl(x) for x in sv)
    return sv


_RET_MEMO = {}


def _backoff_returns(M, CM, tc):
    """the values the back-off function can return (symbolic, line numbers dropped); None if it cannot be located"""
    key = id(CM)
    if key not in _RET_MEMO:
        gb = None
        for name, f in CM.methods.items():
            if f is not tc and not isinstance(f.node, ast.AsyncFunctionDef) and any(isinstance(n, ast.Attribute) and n.attr == "current_delay_sec" for n in ast.walk(f.node)):
                gb = f
        if gb is None:
            _RET_MEMO[key] = None
        else:
            _RET_MEMO[key] = {_nl(strip_epoch(p.ret)) for p in Engine(M, keep_props={"current_delay_sec"}).run(gb) if p.status == "return" and p.ret is not None}
    return _RET_MEMO[key]


def _path_backoff_zero(p):
    """the path's computed back-off is the literal 0 (delay <= 0 and breaker not armed)"""
    le0 = any(g[0] == "cmp" and g[1] in ("LtE",) and g[3] == ("c", 0) and pol for g, pol, _ in p.guards)
    return le0


def thorough(src, rep):
    from sa.selfval.harness import run_selfval
    run_selfval("C18", src, rep)
