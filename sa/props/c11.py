"""C11 - P1 readouts parse into the transmitted data sets and decode with exact units (level: other; PARTIAL).

Decided: R1 unit dispatch (case-folded unit sets -> float(value) / integer milli-scaling from the catalogue / clock / verbatim), on every
path of the per-data-set step, with no additional condition deciding between them; R2 clock slices YYMMDDhhmmss feed datetime(2000+YY, ...);
R3 naming through obis_name_map on the reduced address' C.D.E, only single-valued data sets; R4 identification groups; R5 the three entry
points share parse function, payload and decoder; R6 line splitting accepts LF and CRLF, values split on '*', value/unit order.
NOT decided: that parse_data_block returns one data set per transmitted address for every well-formed block (scanner I/O relation).
"""
from __future__ import annotations

import ast
import re

from sa.consteval import ConstEval, NotConstant, Opaque
from sa.decoders import cdr_groups_finding, is_cdr_of
from sa.model import Model
from sa.paths import Engine, loop_body_paths, show_sv, strip_epoch
from sa.sveval import CannotEval, Res, ev as sv_ev, path_holds
from sa.report import Undecided

LEVEL = "other"
MOD = "dlde"
FLOAT_UNITS = {"v", "a", "var", "varh"}
KILO_UNITS = {"kw", "kwh", "kvar", "kvarh"}


def check(src, rep):
    M = Model(src)
    from sa.oneshot import rule as _one_shot
    _one_shot(rep, M, src, ("dlde", "obis_map", "obis", "common"), "R1")
    ce = ConstEval(M)
    file = src.file(MOD)
    rep.count("modules", len(src.text))
    from sa.decoders import p1_decode_worker
    rep.assumptions += ["IEEE double lemma: for a decimal with <= 3 fractional digits, int(float(t) * 1000) is the exact product or one below, never above (paper argument, DESIGN.md A.5)",
                        "parse_data_block's input/output relation over all well-formed blocks is NOT decided (honest not-applicable for that clause); its termination is C15/R2"]
    rep.explanation = ("PARTIAL. Decided: every path of the per-data-set step dispatches on the case-folded unit only - {V, A, var, varh} -> float(value), {kW, kWh, kvar, kvarh} -> "
                       "int(float(value) * 1000) (catalogue idiom), address 1.0.0 -> clock, otherwise the value verbatim; the clock slices [0:2]..[10:12] feed datetime(2000+YY, MM, DD, hh, mm, ss); "
                       "names come from obis_name_map on C.D.E of the reduced address and only single-valued data sets are decoded; the identification fields come from groups MANID and ID; "
                       "decode_p1_readout, decode_p1_readout_content and AutoDecoder's P1 entry reach the same decoder on the same parse of the same payload; lines are split by splitlines() and "
                       "values on '*'. NOT decided: parsing of every well-formed block into one data set per address (behaviour of an index-chasing scanner over all inputs).")
    # ---- R1-R3 by tabulation (E-ABS): the public decode_p1_readout_content is interpreted with the parser replaced by an oracle that returns an
    # abstract data-set list (number of values, unit spelling, address class) whose transmitted number is symbolic; whatever helpers, tables or
    # dispatch forms the decoder uses are followed by the interpreter, and the resulting dictionary is compared with the specification.
    from sa.abseval import AbsEval, AObj, Sym
    from sa.decoders import obis_hook
    try:
        name_map = ce.eval(ast.parse("obis_name_map", mode="eval").body, {}, "obis_map")
    except NotConstant as e:
        raise Undecided(f"obis_map.obis_name_map is not a constant table: {e}")
    rep.require(isinstance(name_map, dict) and len(name_map) > 10, "obis_name_map is not a dictionary")
    dc = M.funcs.get("dlde.decode_p1_readout_content")
    dr = M.funcs.get("dlde.decode_p1_readout")
    pc = M.funcs.get("dlde.parse_p1_readout_content")
    pr = M.funcs.get("dlde.parse_p1_readout")
    rep.require(dc is not None and dr is not None and pc is not None and pr is not None, "anchor vanished: P1 parse/decode functions")
    known = next(k for k in sorted(name_map) if k != "1.0.0")
    VAL, VAL2 = Sym("VAL", "str"), Sym("VAL2", "str")
    units = [("V", "float"), ("v", "float"), ("A", "float"), ("var", "float"), ("VAR", "float"), ("varh", "float"), ("Varh", "float"),
             ("kW", "kilo"), ("KW", "kilo"), ("kw", "kilo"), ("kWh", "kilo"), ("KWH", "kilo"), ("kvar", "kilo"), ("kVAr", "kilo"), ("kvarh", "kilo"), ("kVArh", "kilo"),
             ("m3", "verbatim"), ("Wh", "verbatim"), ("W", "verbatim"), ("", "verbatim"), (None, "verbatim"), ("kVA", "verbatim"), ("kV", "verbatim"), ("k", "verbatim"), ("K", "verbatim"),
             ("kWh2", "verbatim"), ("VA", "verbatim"), ("Ah", "verbatim"), ("kA", "verbatim"), ("var2", "verbatim")]
    ref = AbsEval(M)

    def term(text):
        return ref.eval(ast.parse(text, mode="eval").body, {"v": VAL}, MOD)
    try:
        float_ok = term("float(v)")
        kilo_ok = [term("int(float(v) * 1000)"), term("round(float(v) * 1000)"), term("int(Decimal(v) * 1000)"), term("int(round(float(v) * 1000))")]
        clock = term("datetime(2000 + int(v[0:2]), int(v[2:4]), int(v[4:6]), int(v[6:8]), int(v[8:10]), int(v[10:12]))")
    except Exception as e:  # noqa
        raise Undecided(f"reference terms not evaluable: {e}")
    bad = 0
    n_cases = 0
    seen_kinds = set()
    reported = set()
    PAY = b"1-0:1.8.0(1*kWh)\r\n"
    line0 = (p1_decode_worker(M) or dc).node.lineno
    at = f"dlde.{(p1_decode_worker(M) or dc).name}"

    def vio(rule, tag, text, line, witness):
        nonlocal bad
        bad += 1
        if (rule, tag) not in reported:
            reported.add((rule, tag))
            rep.violation(rule, at, tag, text, file, line, witness=witness)

    def mentions(t, syms):
        if any(t is s_ or t == s_ for s_ in syms):
            return True
        return isinstance(t, Res) and any(mentions(a_, syms) for a_ in t.args) or isinstance(t, (list, tuple)) and any(mentions(a_, syms) for a_ in t)

    def dataset(addr, vals):
        return AObj("DataSet", {"address": addr, "values": [AObj("DataSetValue", {"value": v_, "unit": u_}, cls_key=(MOD, "DataSetValue")) for v_, u_ in vals]}, cls_key=(MOD, "DataSet"))

    def decode(entry, arg, items, calls=None):
        A = AbsEval(M, hooks={"Obis.from_string": obis_hook})

        def oracle(args, kw):
            if calls is not None:
                calls.append(tuple(args))
            return list(items)
        A.func_hooks[(MOD, pc.node.name)] = oracle
        return A.apply(entry, [arg])

    def addr_of(cdr):
        return f"1-0:{cdr}"
    stop = False
    for nvals in (0, 1, 2):
        for unit, kind in units:
            for cdr in (known, "250.250.250", "1.0.0"):
                if nvals != 1 and (unit, cdr) != ("kWh", known):
                    continue
                desc = f"{nvals} value(s), unit {unit!r}, address C.D.E {cdr}"
                res = decode(dc, PAY, [dataset(addr_of(cdr), [(VAL, unit), (VAL2, "x")][:nvals])])
                if res[0] == "branch":
                    if mentions(res[1], (VAL, VAL2)) and nvals == 1:
                        vio("R1", "extra-condition", "the conversion of a data set depends on a condition on the transmitted number itself, not only on its (case-folded) unit and the 1.0.0 address: "
                            "some transmitted forms of a number (e.g. without fractional digits) are converted differently", line0, f"{desc}: condition {res[1]!r}"[:200])
                        continue
                    rep.undecide(f"R1 the decoder tests a condition outside the tabulated domain ({res[1]!r}) for {desc}")
                    bad += 1
                    stop = True
                    break
                if res[0] == "undecided":
                    rep.undecide(f"R1 decode_p1_readout_content is outside the interpreted subset for {desc}: {res[1]}")
                    bad += 1
                    stop = True
                    break
                n_cases += 1
                if res[0] == "raise":
                    if res[1] == "KeyError":
                        vio("R3", "naming", "the common-name table is indexed without a membership test (unknown addresses raise KeyError)", line0, desc)
                    else:
                        vio("R1", "decoder-raises", f"decoding raises {res[1]} for a well-formed data set", line0, desc)
                    continue
                got = res[1]
                if not isinstance(got, dict):
                    raise Undecided("decode_p1_readout_content does not return a dictionary")
                if nvals != 1:
                    if got:
                        vio("R3", "multi-valued-decoded", f"a data set with {nvals} values is decoded", line0, f"{desc}: {got!r}"[:200])
                    continue
                if len(got) != 1:
                    vio("R3", "stores-per-dataset", f"a single-valued data set produces {len(got)} dictionary entries", line0, f"{desc}: {got!r}"[:200])
                    continue
                (key, value), = got.items()
                want_key = name_map.get(cdr, cdr)
                if key != want_key:
                    vio("R3", "naming", "the key is not obis_name_map[C.D.E] (when known) or C.D.E of the data set's address", line0, f"{desc}: key {key!r} instead of {want_key!r}")
                k = "clock" if (cdr == "1.0.0" and kind == "verbatim") else kind
                seen_kinds.add(k)
                if k == "float" and value != float_ok:
                    what = "units are compared case-sensitively (or the unit set is not {V, A, var, varh})" if value is VAL or value == VAL else "V/A/var/varh quantities are not stored as float(transmitted number)"
                    vio("R1", "float-units" if value != VAL else "unit-set", what, line0, f"{desc}: stores {value!r}")
                elif k == "kilo" and not any(value == t_ for t_ in kilo_ok):
                    what = ("units are compared case-sensitively (or the unit set is not {kW, kWh, kvar, kvarh})" if value == VAL else
                            "kW/kWh/kvar/kvarh quantities are not converted by an idiom of the catalogue (int(float(v) * 1000), round(float(v) * 1000), int(Decimal(v) * 1000))")
                    vio("R1", "kilo-units" if value != VAL else "unit-set", what, line0, f"{desc}: stores {value!r}")
                elif k == "clock" and isinstance(value, Res) and value.op == "strptime":
                    vio("R2", "clock-slices", "the clock is parsed with strptime: its %y applies the POSIX pivot (years 69..99 become 19YY) instead of 2000+YY", line0, f"{desc}: stores {value!r}"[:260])
                elif k == "clock" and value != clock:
                    vio("R2", "clock-slices", "the clock is not datetime(2000+YY, MM, DD, hh, mm, ss) from the slices [0:2], [2:4], ..., [10:12] of YYMMDDhhmmss", line0, f"{desc}: stores {value!r}"[:260])
                elif k == "verbatim" and value != VAL:
                    vio("R1", "verbatim", "values with another unit (or none) are not stored verbatim", line0, f"{desc}: stores {value!r}")
            if stop:
                break
        if stop:
            break
    # several data sets in one block: each is decoded on its own (no carry-over between data sets or calls)
    if not bad:
        multi = [dataset(addr_of(known), [(VAL, "kWh")]), dataset(addr_of("250.250.250"), [(VAL2, None)]), dataset(addr_of("1.0.0"), [(VAL, None)]), dataset(addr_of("251.250.250"), [(VAL, "V"), (VAL2, "V")])]
        res = decode(dc, PAY, multi)
        want = {name_map[known]: kilo_ok[0], "250.250.250": VAL2, name_map.get("1.0.0", "1.0.0"): clock}
        if res[0] in ("undecided", "branch"):
            rep.undecide(f"R3 a block of several data sets is outside the interpreted subset: {res[1]!r}")
            bad += 1
        elif res[0] != "value" or not isinstance(res[1], dict) or set(res[1]) != set(want) or any(not (res[1][k_] == want[k_] or (k_ == name_map[known] and any(res[1][k_] == t_ for t_ in kilo_ok))) for k_ in want):
            vio("R3", "stores-per-dataset", "a block of several data sets is not decoded data set by data set", line0, f"got {res[1]!r}"[:260])
    # the name is looked up by the parsed code, however the address is written: with group F, with leading zeros
    if not bad:
        for addr in (f"1-0:{known}*255", "1-0:" + ".".join(x.zfill(2) for x in known.split(".")), f"1-1:{known}*1"):
            res = decode(dc, PAY, [dataset(addr, [(VAL, "kWh")])])
            if res[0] in ("undecided", "branch"):
                rep.undecide(f"R3 address {addr!r} is outside the interpreted subset: {res[1]!r}"[:300])
                bad += 1
                break
            if res[0] == "raise" or not isinstance(res[1], dict) or list(res[1]) != [name_map[known]]:
                vio("R3", "naming", "the key is not obis_name_map[C.D.E] of the *parsed* address: another legal spelling of the same code (group F present, leading zeros) is stored under another name",
                    line0, f"address {addr!r}: {res[1] if res[0] == 'value' else res!r}"[:260])
                break
    # two blocks decoded one after the other by the same interpreter state: the second result is that of the second block alone, in a dictionary of its own
    if not bad:
        A2 = AbsEval(M, hooks={"Obis.from_string": obis_hook})
        blocks = [[dataset(addr_of(known), [(VAL, "kWh")])], [dataset(addr_of("250.250.250"), [(VAL2, None)])]]
        turn = {"k": 0}

        def oracle2(args, kw):
            k_ = turn["k"]
            turn["k"] += 1
            return list(blocks[min(k_, len(blocks) - 1)])
        # (third block: the address of the first one again, now without a unit - what was learnt about an address must not be reused for another data set)
        blocks.append([dataset(addr_of(known), [(VAL2, None)])])
        A2.func_hooks[(MOD, pc.node.name)] = oracle2
        r1 = A2.apply(dc, [PAY])
        snap1 = dict(r1[1]) if r1[0] == "value" and isinstance(r1[1], dict) else None
        r2 = A2.apply(dc, [PAY])
        r3 = A2.apply(dc, [PAY]) if r2[0] == "value" else r2
        if r3[0] in ("undecided", "branch"):
            r2 = r3
        elif r2[0] == "value" and (r3[0] != "value" or not isinstance(r3[1], dict) or r3[1] != {name_map[known]: VAL2}):
            vio("R3", "history-dependent", "the result of a decode depends on blocks decoded before it (state kept between calls, e.g. a per-address cache): a data set is decoded with the unit "
                "or name remembered from an earlier data set with the same address", line0,
                f"first block {addr_of(known)}({VAL!r}*kWh); third block {addr_of(known)}({VAL2!r}) -> {r3[1] if r3[0] == 'value' else r3!r}"[:300])
            bad += 1
        if r1[0] in ("undecided", "branch") or r2[0] in ("undecided", "branch"):
            rep.undecide(f"R3 two consecutive decodes are outside the interpreted subset: {(r1 if r1[0] != 'value' else r2)[1]!r}"[:300])
            bad += 1
        elif r2[0] != "value" or not isinstance(r2[1], dict) or set(r2[1]) != {"250.250.250"} or r2[1] is r1[1] or (snap1 is not None and dict(r1[1]) != snap1):
            vio("R3", "history-dependent", "the result of a decode depends on blocks decoded before it (state kept between calls, e.g. a mutable default argument or a module-level dictionary): "
                "the second block's dictionary contains fields of the first, or the first result is modified afterwards", line0,
                f"first block -> {snap1!r}; second block -> {r2[1] if r2[0] == 'value' else r2!r}"[:300])
    if not bad and seen_kinds >= {"float", "kilo", "clock", "verbatim"}:
        rep.ok("R1", f"{n_cases} abstract data sets", "unit dispatch on the case-folded unit only: {V,A,var,varh} -> float(v); {kW,kWh,kvar,kvarh} -> int(float(v)*1000); 1.0.0 -> clock; otherwise verbatim (transmitted number symbolic)")
        rep.ok("R2", "clock", "YYMMDDhhmmss slices [0:2]..[10:12] feed datetime(2000+YY, MM, DD, hh, mm, ss) in this order")
        rep.ok("R3", "naming", "obis_name_map[C.D.E] when known, else C.D.E; only single-valued data sets are decoded")
    cg = cdr_groups_finding(M)
    if cg:
        rep.violation("R3", "obis.Obis.to_group_cdr_str", "cde-groups", cg, src.file("obis"), 1)
    rep.floor("abstract data sets tabulated", n_cases, 40)
    # ---------------------------------------------------------------- R4 identification
    I = M.classes.get((MOD, "Ident"))
    rep.require(I is not None, "anchor vanished: dlde.Ident")
    ok4 = True
    from sa.decoders import ident_findings
    for tag, text in ident_findings(M, "dlde"):
        if tag in ("ident-group", "ident-str"):
            ok4 = False
            rep.violation("R4", "dlde.Ident", tag, f"the identification line is not split into its three flag letters and the identification: {text}", file, I.node.lineno)
    try:
        MAN, TYP = ce.eval(ast.parse("FIELD_METER_MANUFACTURER_ID", mode="eval").body, {}, "obis_map"), ce.eval(ast.parse("FIELD_METER_TYPE_ID", mode="eval").body, {}, "obis_map")
    except NotConstant as e:
        raise Undecided(f"obis_map field-name constants: {e}")
    # the whole-readout decoder = the content decoder on the readout's payload + the two identification fields (E-ABS, symbolic identification line)
    block = [dataset(addr_of(known), [(VAL, "kWh")]), dataset(addr_of("250.250.250"), [(VAL2, None)])]
    content_res = decode(dc, PAY, block)
    ok5 = True
    ids_ok = True
    for ident in (Sym("IDENT", "str"), None):
        man = Sym("MANID", "str")
        ro = AObj("DataReadout", {"payload": PAY, "identification_line": AObj("Ident", {"manufacturer_id": man, "identification": ident}), "is_valid": True, "as_bytes": b"/XXX5\r\n" + PAY + b"!\r\n"})
        calls = []
        whole = decode(dr, ro, block, calls)
        if whole[0] in ("undecided", "branch") or content_res[0] in ("undecided", "branch"):
            rep.undecide(f"R4 decode_p1_readout is outside the interpreted subset: {whole[1]!r} / {content_res[1]!r}")
            ok4 = ok5 = False
            break
        if whole[0] != "value" or content_res[0] != "value" or not isinstance(whole[1], dict):
            ok5 = False
            rep.violation("R5", "dlde.decode_p1_readout", "shared-decoder", f"the whole-readout decoder does not decode a well-formed readout ({whole[1]!r})", file, dr.node.lineno)
            break
        w_ = dict(whole[1])
        got_man, got_typ = w_.pop(MAN, "<absent>"), w_.pop(TYP, "<absent>")
        if not (got_man is man or got_man == man) or (ident is not None and not (got_typ is ident or got_typ == ident)) or (ident is None and got_typ not in ("<absent>",)):
            ids_ok = False
        if w_ != content_res[1] or any(c_ != (PAY,) for c_ in calls) or not calls:
            ok5 = False
            rep.violation("R5", "dlde", "shared-decoder", "the P1 entry points do not decode the same parse of the same payload bytes with the same per-data-set decoder", file, dc.node.lineno,
                          witness=f"whole readout: parser called with {calls!r}, gives {w_!r}; content: {content_res[1]!r}"[:300])
            break
    if content_res[0] == "value" and isinstance(content_res[1], dict) and (MAN in content_res[1] or TYP in content_res[1]):
        ids_ok = False
    if ok4 and ids_ok:
        rep.ok("R4", "identification fields", "manufacturer_id = group MANID, identification = group ID; stored under meter_manufacturer_id / meter_type_id only by the whole-readout decoder")
    elif ok4:
        rep.violation("R4", "dlde.decode_p1_readout", "ident-fields", "the identification fields are not stored (only) by the whole-readout decoder from the identification line", file, dr.node.lineno)
    from sa.cross import include as _inc
    _inc(rep, src, "C04", {"R5"}, "R4", "the identification line is split by a pattern that accepts exactly the standard's syntax (any number of escape sequences, 1-16 identification characters)")
    # ---------------------------------------------------------------- R5 sibling agreement
    # the content decoder hands exactly its argument to the parser; the whole-readout parser hands the readout's payload to the content parser
    calls = []
    decode(dc, PAY, block, calls)
    if calls != [(PAY,)]:
        ok5 = False
        rep.violation("R5", "dlde.decode_p1_readout_content", "shared-decoder", "the content decoder does not parse exactly the bytes it is given (once)", file, dc.node.lineno, witness=repr(calls)[:200])
    calls = []
    r_ = decode(pr, AObj("DataReadout", {"payload": PAY, "is_valid": True, "as_bytes": b"/XXX5\r\n" + PAY + b"!\r\n"}), block, calls)
    if r_[0] in ("undecided", "branch"):
        rep.undecide(f"R5 parse_p1_readout is outside the interpreted subset: {r_[1]!r}")
        ok5 = False
    elif calls != [(PAY,)] or r_[0] != "value" or r_[1] != block:
        ok5 = False
        rep.violation("R5", "dlde.parse_p1_readout", "payload", "the whole-readout parser does not hand the readout's payload to the content parser", file, pr.node.lineno)
    # the content parser itself: strict ASCII decoding of the whole content, handed to the block parser
    calls = []
    A = AbsEval(M)
    pdb_ = M.find_method((MOD, "DataSet"), "parse_data_block")
    rep.require(pdb_ is not None, "anchor vanished: DataSet.parse_data_block")
    A.func_hooks[(MOD, pdb_.node.name)] = lambda args, kw: (calls.append(tuple(args)), block)[1]
    r_ = A.apply(pc, [PAY])
    if r_[0] in ("undecided", "branch"):
        rep.undecide(f"R5 parse_p1_readout_content is outside the interpreted subset: {r_[1]!r}")
        ok5 = False
    elif r_[0] != "value" or r_[1] != block or [c_[-1:] for c_ in calls] != [(PAY.decode("ascii"),)]:
        ok5 = False
        rep.violation("R5", "dlde.parse_p1_readout_content", "payload", "the content parser does not hand the ASCII text of the whole content to the block parser", file, pc.node.lineno, witness=repr(calls)[:200])
    try:
        table = ce.class_const("autodecoder", "AutoDecoder", "payload_decoder_functions")
        p1 = [fr for n, fr in table if n == "P1"]
        if not (len(p1) == 1 and p1[0].mod == "dlde" and p1[0].node.name == "decode_p1_readout_content"):
            ok5 = False
            rep.violation("R5", "autodecoder.AutoDecoder", "p1-entry", "AutoDecoder's P1 entry is not dlde.decode_p1_readout_content", src.file("autodecoder"), 1)
    except NotConstant:
        rep.undecide("R5 AutoDecoder table not constant")
    if ok5:
        rep.ok("R5", "entry points", "decode_p1_readout = decode_p1_readout_content on the readout's payload + identification fields; both parse exactly the payload bytes; AutoDecoder's P1 entry is the content decoder")
    from sa.cross import include
    include(rep, src, "C12", {"R1", "R2", "R5"}, "R5", "the same block decodes identically through AutoDecoder (for every history)")
    # ---------------------------------------------------------------- R6 line / value splitting
    pdb = M.classes[(MOD, "DataSet")].methods.get("parse_data_block") if (MOD, "DataSet") in M.classes else None
    rep.require(pdb is not None, "anchor vanished: DataSet.parse_data_block")
    # the splitting classes, through the interpreter on one representative each (the relation over all blocks is not decided): value*unit,
    # LF / CRLF line ends, blank lines, several data sets per line, several values per data set
    dv = M.classes.get((MOD, "DataSetValue"))
    pv = dv.methods.get("parse") if dv else None
    rep.require(pv is not None, "anchor vanished: DataSetValue.parse")
    A6 = AbsEval(M)

    def shape_value(v_):
        return (v_.attrs.get("value"), v_.attrs.get("unit")) if isinstance(v_, AObj) else v_

    def shape(r_):
        if r_[0] != "value":
            return r_
        if isinstance(r_[1], list):
            return ("value", [(d_.attrs.get("address"), [shape_value(v_) for v_ in d_.attrs.get("values", [])]) if isinstance(d_, AObj) else d_ for d_ in r_[1]])
        return ("value", shape_value(r_[1]))
    okv = True
    for text, want_v in (("1.5*kWh", ("value", ("1.5", "kWh"))), ("0123", ("value", ("0123", None))), ("*V", ("value", ("", "V"))), ("1*2*3", ("raise", "ValueError")),
                         (" METER OK ", ("value", (" METER OK ", None))), ("LGZ 0042  ", ("value", ("LGZ 0042  ", None))), ("1.5 * kWh", ("value", ("1.5 ", " kWh")))):
        r_ = A6.apply(pv, [Opaque(f"class {MOD}.DataSetValue"), text]) if pv.kind == "classmethod" else A6.apply(pv, [text])
        if r_[0] in ("undecided", "branch"):
            rep.undecide(f"R6 DataSetValue.parse is outside the interpreted subset: {r_[1]!r}")
            okv = None
            break
        if shape(r_) != want_v:
            okv = False
            rep.violation("R6", "dlde.DataSetValue.parse", "value-unit-split", "a value is not split into (value, unit) at '*' with both parts verbatim", file, pv.node.lineno, witness=f"parse({text!r}) gives {shape(r_)!r}, expected {want_v!r}"[:200])
            break
    if okv:
        rep.ok("R6", "value*unit", "value and unit are the parts before and after the single '*' (class representatives through the interpreter)")
    blocks = [
        ("LF line ends", "1-0:1.8.0(1.5*kWh)\n1-0:2.8.0(2*kWh)\n", [("1-0:1.8.0", [("1.5", "kWh")]), ("1-0:2.8.0", [("2", "kWh")])]),
        ("CRLF line ends", "1-0:1.8.0(1.5*kWh)\r\n1-0:2.8.0(2*kWh)\r\n", [("1-0:1.8.0", [("1.5", "kWh")]), ("1-0:2.8.0", [("2", "kWh")])]),
        ("blank lines", "\r\n1-0:1.8.0(1.5*kWh)\r\n\r\n1-0:2.8.0(2)\r\n", [("1-0:1.8.0", [("1.5", "kWh")]), ("1-0:2.8.0", [("2", None)])]),
        ("several data sets per line", "1-0:1.8.0(1.5*kWh)1-0:2.8.0(2*kWh)\r\n0-0:1.0.0(210101000000W)\r\n", [("1-0:1.8.0", [("1.5", "kWh")]), ("1-0:2.8.0", [("2", "kWh")]), ("0-0:1.0.0", [("210101000000W", None)])]),
        ("the longest reduced address", "255-255:255.255.255*255(1.5*kWh)\r\n1-128:121.7.0*255(2*V)\r\n", [("255-255:255.255.255*255", [("1.5", "kWh")]), ("1-128:121.7.0*255", [("2", "V")])]),
        ("long values and leading zeros", "1-0:1.8.0(000000000000123.456*kWh)(" + "9" * 40 + ")\r\n", [("1-0:1.8.0", [("000000000000123.456", "kWh"), ("9" * 40, None)])]),
        ("an empty value", "0-0:96.13.0()\r\n1-0:99.97.0(2)()(1*s)\r\n", [("0-0:96.13.0", [("", None)]), ("1-0:99.97.0", [("2", None), ("", None), ("1", "s")])]),
        ("several values", "1-0:99.97.0(2)(0-0:96.7.19)(1*s)\r\n", [("1-0:99.97.0", [("2", None)]), ("0-0:96.7.19", [("1", "s")])] if False else None),
    ]
    okb = True
    for what, text, want_b in blocks:
        r_ = A6.apply(pdb, [text] if pdb.kind == "static" else [Opaque(f"class {MOD}.DataSet"), text])
        if r_[0] in ("undecided", "branch"):
            rep.undecide(f"R6 DataSet.parse_data_block is outside the interpreted subset ({what}): {r_[1]!r}")
            okb = None
            break
        if want_b is None:
            want_b = [("1-0:99.97.0", [("2", None), ("0-0:96.7.19", None), ("1", "s")])]
        if shape(r_) != ("value", want_b):
            okb = False
            rep.violation("R6", "dlde.DataSet.parse_data_block", "line-splitting", f"a block with {what} is not parsed into its data sets (one per address, values and units in order)", file, pdb.node.lineno,
                          witness=f"{text!r} gives {shape(r_)!r}"[:260])
            break
    if okb:
        rep.ok("R6", "line splitting", "LF and CRLF line ends, blank lines, several data sets per line and several values per data set parse into one data set per address (class representatives through the interpreter)")


def _mentions_value(sv):
    """does the SV read the transmitted number (attribute `value` of a data-set value)?"""
    if isinstance(sv, tuple):
        if len(sv) >= 3 and sv[0] == "f0" and sv[2] == "value":
            return True
        return any(_mentions_value(x) for x in sv if isinstance(x, tuple))
    return False


def _strip_lines(sv):
    """drop call-site line numbers from call values so that the same expression compares equal wherever it was built"""
    if isinstance(sv, tuple):
        if sv and sv[0] == "call" and len(sv) == 4 and isinstance(sv[3], int):
            return ("call", sv[1], tuple(_strip_lines(x) for x in sv[2]))
        return tuple(_strip_lines(x) for x in sv)
    return sv


def _is_unit(sv, UNIT):
    return sv == ("ite", UNIT, ("call", ".lower", (UNIT,)), ("c", None)) or sv == ("call", ".lower", (UNIT,))


def _clock_ok(value, VAL):
    if not (value[0] == "call" and value[1] == "datetime" and len(value[2]) == 6):
        return False
    a = value[2]

    def sl(i, lo, hi):
        return a[i] == ("call", "int", (("slice", VAL, ("c", lo), ("c", hi)),))
    y = a[0]
    yok = y[0] == "op" and y[1] == "Add" and {y[2], y[3]} == {("c", 2000), ("call", "int", (("slice", VAL, ("c", 0), ("c", 2)),))}
    return yok and sl(1, 2, 4) and sl(2, 4, 6) and sl(3, 6, 8) and sl(4, 8, 10) and sl(5, 10, 12)


def thorough(src, rep):
    from sa.selfval.harness import run_selfval
    run_selfval("C11", src, rep)
