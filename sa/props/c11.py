"""C11 - P1 readouts parse into the transmitted data sets and decode with exact units (level: other; PARTIAL).

Decided: R1 unit dispatch (case-folded unit sets -> float(value) / integer milli-scaling from the catalogue / clock / verbatim), on every
path of the per-data-set step, with no additional condition deciding between them; R2 clock slices YYMMDDhhmmss feed datetime(2000+YY, ...);
R3 naming through obis_name_map on the reduced address' C.D.E, only single-valued data sets; R4 identification groups; R5 the three entry
points share parse function, payload and decoder; R6 line splitting accepts LF and CRLF, values split on '*', value/unit order.
NOT decided: that parse_data_block returns one data set per transmitted address for every well-formed block (scanner I/O relation).
"""
from __future__ import annotations

import ast
import re

from sa.consteval import ConstEval, NotConstant
from sa.decoders import cdr_groups_finding, is_cdr_of
from sa.model import Model
from sa.paths import Engine, loop_body_paths, show_sv, strip_epoch
from sa.report import Undecided

LEVEL = "other"
MOD = "dlde"
FLOAT_UNITS = {"v", "a", "var", "varh"}
KILO_UNITS = {"kw", "kwh", "kvar", "kvarh"}


def check(src, rep):
    M = Model(src)
    ce = ConstEval(M)
    file = src.file(MOD)
    rep.count("modules", len(src.text))
    from sa.decoders import p1_decode_worker
    fn = p1_decode_worker(M)
    rep.require(fn is not None, "cannot find the per-data-set decoder reached from decode_p1_readout_content")
    rep.assumptions += ["IEEE double lemma: for a decimal with <= 3 fractional digits, int(float(t) * 1000) is the exact product or one below, never above (paper argument, DESIGN.md A.5)",
                        "parse_data_block's input/output relation over all well-formed blocks is NOT decided (honest not-applicable for that clause); its termination is C15/R2"]
    rep.explanation = ("PARTIAL. Decided: every path of the per-data-set step dispatches on the case-folded unit only - {V, A, var, varh} -> float(value), {kW, kWh, kvar, kvarh} -> "
                       "int(float(value) * 1000) (catalogue idiom), address 1.0.0 -> clock, otherwise the value verbatim; the clock slices [0:2]..[10:12] feed datetime(2000+YY, MM, DD, hh, mm, ss); "
                       "names come from obis_name_map on C.D.E of the reduced address and only single-valued data sets are decoded; the identification fields come from groups MANID and ID; "
                       "decode_p1_readout, decode_p1_readout_content and AutoDecoder's P1 entry reach the same decoder on the same parse of the same payload; lines are split by splitlines() and "
                       "values on '*'. NOT decided: parsing of every well-formed block into one data set per address (behaviour of an index-chasing scanner over all inputs).")
    E = Engine(M)
    node, ps = loop_body_paths(E, fn)
    item = ("iter", ("p", fn.params[0]), node.lineno)
    V0 = ("sub", ("f0", item, "values"), ("c", 0))
    VAL, UNIT = ("f0", V0, "value"), ("f0", V0, "unit")
    UNIT_NORM = ("ite", UNIT, ("call", ".lower", (UNIT,)), ("c", None))
    bad = 0
    n_paths = 0
    seen_kinds = set()
    for p in ps:
        if p.status == "raise":
            continue
        lits = {}
        unknown = []
        for g, pol, _ in p.guards:
            gs = _strip_lines(strip_epoch(g))
            if gs[0] == "cmp" and gs[1] == "Eq" and gs[2] == ("len", ("f0", item, "values"), 0) and gs[3] == ("c", 1):
                lits["single"] = pol
            elif gs[0] == "cmp" and gs[1] == "In" and gs[3][0] == "f0" and gs[3][2] == "obis_name_map":
                lits["known"] = pol
            elif gs[0] == "cmp" and gs[1] == "In" and gs[3][0] == "tuple" and _is_unit(gs[2], UNIT):
                units = {x[1] for x in gs[3][1] if x[0] == "c"}
                if units == FLOAT_UNITS:
                    lits["float"] = pol
                elif units == KILO_UNITS:
                    lits["kilo"] = pol
                else:
                    lits[("units", tuple(sorted(units)))] = pol
            elif gs[0] == "cmp" and gs[1] == "Eq" and gs[3] == ("c", "1.0.0"):
                lits["clock"] = pol
            elif gs[0] == "exc":
                lits["exc"] = True
            else:
                unknown.append((gs, pol))
        stores = [e for e in p.effects if e[0] == "setitem"]
        if lits.get("single") is False:
            if stores:
                bad += 1
                rep.violation("R3", f"dlde.{fn.name}", "multi-valued-decoded", "a data set with several values is decoded", file, node.lineno)
            continue
        if len(stores) != 1:
            bad += 1
            rep.violation("R3", f"dlde.{fn.name}", "stores-per-dataset", f"a single-valued data set produces {len(stores)} dictionary entries", file, node.lineno)
            continue
        n_paths += 1
        key, value = _strip_lines(strip_epoch(stores[0][2])), _strip_lines(strip_epoch(stores[0][3]))
        odd_units = [k for k in lits if isinstance(k, tuple)]
        if odd_units:
            bad += 1
            rep.violation("R1", f"dlde.{fn.name}", "unit-set", f"the unit dispatch tests the set {set(odd_units[0][1])}: it is neither {{V, A, var, varh}} nor {{kW, kWh, kvar, kvarh}}", file, stores[0][-1])
            continue
        if unknown:
            bad += 1
            rep.violation("R1", f"dlde.{fn.name}", "extra-condition", "the conversion of a data set depends on a condition other than its (case-folded) unit and the 1.0.0 address: "
                          "some transmitted forms of a number (e.g. without fractional digits) are not converted", file, stores[0][-1], witness="; ".join(("" if pol else "not ") + show_sv(g)[:80] for g, pol in unknown))
            continue
        # naming
        cdr_ok = (key[0] == "sub" and key[1][0] == "f0" and key[1][2] == "obis_name_map" and lits.get("known") is True) or (key[0] == "call" and "to_group_cdr_str" in str(key[1]) and lits.get("known") is False)
        if not cdr_ok:
            bad += 1
            rep.violation("R3", f"dlde.{fn.name}", "naming", "the key is not obis_name_map[C.D.E] (when known) or C.D.E of the data set's address", file, stores[0][-1], witness=show_sv(key)[:80])
        # value by unit class
        if lits.get("float"):
            seen_kinds.add("float")
            if value != ("call", "float", (VAL,)):
                bad += 1
                rep.violation("R1", f"dlde.{fn.name}", "float-units", "V/A/var/varh quantities are not stored as float(transmitted number)", file, stores[0][-1], witness=show_sv(value)[:100])
        elif lits.get("kilo"):
            seen_kinds.add("kilo")
            okv = value in (("call", "int", (("op", "Mult", ("call", "float", (VAL,)), ("c", 1000)),)), ("call", "int", (("op", "Mult", ("c", 1000), ("call", "float", (VAL,))),)),
                            ("call", "round", (("op", "Mult", ("call", "float", (VAL,)), ("c", 1000)),)))
            if not okv and "Decimal" in show_sv(value) and "1000" in show_sv(value):
                okv = True
            if not okv:
                bad += 1
                rep.violation("R1", f"dlde.{fn.name}", "kilo-units", "kW/kWh/kvar/kvarh quantities are not converted by an idiom of the catalogue (int(float(v) * 1000), round(float(v) * 1000), int(Decimal(v) * 1000))",
                              file, stores[0][-1], witness=show_sv(value)[:120])
        elif lits.get("clock"):
            seen_kinds.add("clock")
            if not _clock_ok(value, VAL):
                bad += 1
                rep.violation("R2", "dlde._parse_p1_datetime", "clock-slices", "the clock is not datetime(2000+YY, MM, DD, hh, mm, ss) from the slices [0:2], [2:4], ..., [10:12] of YYMMDDhhmmss", file, stores[0][-1],
                              witness=show_sv(value)[:160])
        elif lits.get("float") is False and lits.get("kilo") is False and lits.get("clock") is False:
            seen_kinds.add("verbatim")
            if value != VAL:
                bad += 1
                rep.violation("R1", f"dlde.{fn.name}", "verbatim", "other values are not stored verbatim", file, stores[0][-1], witness=show_sv(value)[:80])
        else:
            rep.undecide(f"R1 a data-set path is not classified by the unit sets / clock address: {sorted(str(k) for k in lits)}")
    if not bad and seen_kinds >= {"float", "kilo", "clock", "verbatim"}:
        rep.ok("R1", f"{n_paths} data-set paths", "unit dispatch on the case-folded unit only: {V,A,var,varh} -> float(v); {kW,kWh,kvar,kvarh} -> int(float(v)*1000); 1.0.0 -> clock; otherwise verbatim")
        rep.ok("R2", "clock", "YYMMDDhhmmss slices [0:2]..[10:12] feed datetime(2000+YY, MM, DD, hh, mm, ss) in this order")
        rep.ok("R3", "naming", "obis_name_map[C.D.E] under a membership test, else C.D.E; only single-valued data sets are decoded")
    elif not bad:
        rep.undecide(f"R1 unit classes found: {sorted(seen_kinds)} (expected float, kilo, clock, verbatim)")
    # case folding of the unit
    txt = ast.unparse(fn.node)
    if ".lower()" not in txt and ".casefold()" not in txt and ".upper()" not in txt:
        rep.violation("R1", f"dlde.{fn.name}", "unit-case", "units are compared case-sensitively", file, fn.node.lineno)
    cg = cdr_groups_finding(M)
    if cg:
        rep.violation("R3", "obis.Obis.to_group_cdr_str", "cde-groups", cg, src.file("obis"), 1)
    rep.floor("data-set paths", n_paths, 8)
    # ---------------------------------------------------------------- R4 identification
    I = M.classes.get((MOD, "Ident"))
    rep.require(I is not None, "anchor vanished: dlde.Ident")
    ok4 = True
    for prop, grp in (("manufacturer_id", "MANID"), ("identification", "ID")):
        f = I.methods.get(prop)
        if f is None:
            ok4 = False
            continue
        groups = [n.args[0].value for n in ast.walk(f.node) if isinstance(n, ast.Call) and isinstance(n.func, ast.Attribute) and n.func.attr == "group" and n.args and isinstance(n.args[0], ast.Constant)]
        if groups != [grp]:
            ok4 = False
            rep.violation("R4", f"dlde.Ident.{prop}", "ident-group", f"{prop} reads regex group {groups} instead of '{grp}'", file, f.node.lineno)
    try:
        pat = None
        init = None
        for n in ast.walk(I.methods["__init__"].node):
            if isinstance(n, ast.Call) and isinstance(n.func, ast.Attribute) and n.func.attr in ("match", "fullmatch", "search") and isinstance(n.func.value, ast.Name):
                init = M.mod_consts.get(MOD, {}).get(n.func.value.id)
        if isinstance(init, ast.Call) and init.args:
            pat = ce.eval(init.args[0], {}, MOD)
        rx = re.compile(pat)
        gi = rx.groupindex
        if not ("MANID" in gi and "ID" in gi):
            raise Undecided("identification pattern lacks groups MANID / ID")
        m = rx.match("/LGF5E360\r\n")
        if not m or m.group("MANID") != "LGF" or m.group("ID") != "E360":
            ok4 = False
            rep.violation("R4", "dlde._ident_pattern", "group-spans", "groups MANID / ID of the pattern do not span the three flag letters / the identification", file, 1)
    except (NotConstant, re.error, TypeError) as e:
        raise Undecided(f"identification pattern not evaluable: {e}")
    dr = M.funcs.get("dlde.decode_p1_readout")
    rep.require(dr is not None, "anchor vanished: dlde.decode_p1_readout")
    t = ast.unparse(dr.node)
    ids_ok = "FIELD_METER_MANUFACTURER_ID" in t and "identification_line.manufacturer_id" in t and "FIELD_METER_TYPE_ID" in t and "identification_line.identification" in t
    dc = M.funcs.get("dlde.decode_p1_readout_content")
    ids_only_whole = dc is not None and "identification" not in ast.unparse(dc.node) and "identification" not in ast.unparse(fn.node)
    if ok4 and ids_ok and ids_only_whole:
        rep.ok("R4", "identification fields", "manufacturer_id = group MANID, identification = group ID; stored under meter_manufacturer_id / meter_type_id only by the whole-readout decoder")
    elif ok4:
        rep.violation("R4", "dlde.decode_p1_readout", "ident-fields", "the identification fields are not stored (only) by the whole-readout decoder from the identification line", file, dr.node.lineno)
    # ---------------------------------------------------------------- R5 sibling agreement
    ok5 = True
    pc = M.funcs.get("dlde.parse_p1_readout_content")
    pr = M.funcs.get("dlde.parse_p1_readout")
    rep.require(pc is not None and pr is not None and dc is not None, "anchor vanished: P1 parse/decode functions")
    if "parse_p1_readout_content(readout.payload)" not in ast.unparse(pr.node).replace(" ", "").replace("\n", ""):
        ok5 = False
        rep.violation("R5", "dlde.parse_p1_readout", "payload", "the whole-readout parser does not hand the readout's payload to the content parser", file, pr.node.lineno)
    calls_dc = [ast.unparse(n.func) for n in ast.walk(dc.node) if isinstance(n, ast.Call)]
    calls_dr = [ast.unparse(n.func) for n in ast.walk(dr.node) if isinstance(n, ast.Call)]
    if not ("parse_p1_readout_content" in calls_dc and fn.name in calls_dc and "parse_p1_readout" in calls_dr and fn.name in calls_dr):
        ok5 = False
        rep.violation("R5", "dlde", "shared-decoder", "the P1 entry points do not share the parse function and _decode_parsed", file, dc.node.lineno, witness=f"{calls_dc} / {calls_dr}")
    try:
        table = ce.class_const("autodecoder", "AutoDecoder", "payload_decoder_functions")
        p1 = [fr for n, fr in table if n == "P1"]
        if not (len(p1) == 1 and p1[0].mod == "dlde" and p1[0].node.name == "decode_p1_readout_content"):
            ok5 = False
            rep.violation("R5", "autodecoder.AutoDecoder", "p1-entry", "AutoDecoder's P1 entry is not dlde.decode_p1_readout_content", src.file("autodecoder"), 1)
    except NotConstant:
        rep.undecide("R5 AutoDecoder table not constant")
    if ok5:
        rep.ok("R5", "entry points", "decode_p1_readout, decode_p1_readout_content and AutoDecoder's P1 entry all reach _decode_parsed on parse_p1_readout_content of the same payload bytes")
    from sa.cross import include
    include(rep, src, "C12", {"R1", "R2", "R5"}, "R5", "the same block decodes identically through AutoDecoder (for every history)")
    # ---------------------------------------------------------------- R6 line / value splitting
    pdb = M.classes[(MOD, "DataSet")].methods.get("parse_data_block") if (MOD, "DataSet") in M.classes else None
    rep.require(pdb is not None, "anchor vanished: DataSet.parse_data_block")
    splits = [n for n in ast.walk(pdb.node) if isinstance(n, ast.Call) and isinstance(n.func, ast.Attribute) and n.func.attr in ("splitlines", "split")]
    if any(n.func.attr == "splitlines" and not n.args for n in splits):
        rep.ok("R6", "line splitting", "the block is split with str.splitlines(): LF and CRLF line ends are both accepted, blank lines dropped")
    else:
        rep.violation("R6", "dlde.DataSet.parse_data_block", "line-splitting", "the data block is not split into lines with splitlines(): blocks with LF-only (or CRLF) line ends are parsed as one line", file, pdb.node.lineno,
                      witness="; ".join(ast.unparse(n)[:40] for n in splits) or "no split")
    dv = M.classes.get((MOD, "DataSetValue"))
    pv = dv.methods.get("parse") if dv else None
    rep.require(pv is not None, "anchor vanished: DataSetValue.parse")
    t = ast.unparse(pv.node)
    if "split('*')" in t and re.search(r"DataSetValue\(pair\[0\], pair\[1\]\)|cls\(pair\[0\], pair\[1\]\)", t):
        rep.ok("R6", "value*unit", "value and unit are the parts before and after the single '*'")
    else:
        rep.violation("R6", "dlde.DataSetValue.parse", "value-unit-split", "a value is not split into (value, unit) at '*'", file, pv.node.lineno)


def _strip_lines(sv):
    """drop call-site line numbers from call values so that the same expression compares equal wherever it was built"""
    if isinstance(sv, tuple):
        if sv and sv[0] == "call" and len(sv) == 4 and isinstance(sv[3], int):
            return ("call", sv[1], tuple(_strip_lines(x) for x in sv[2]))
        return tuple(_strip_lines(x) for x in sv)
    return sv


def _is_unit(sv, UNIT):
    return sv == ("ite", UNIT, ("call", ".lower", (UNIT,)), ("c", None)) or sv == ("call", ".lower", (UNIT,))


def _clock_ok(value, VAL):
    if not (value[0] == "call" and value[1] == "datetime" and len(value[2]) == 6):
        return False
    a = value[2]

    def sl(i, lo, hi):
        return a[i] == ("call", "int", (("slice", VAL, ("c", lo), ("c", hi)),))
    y = a[0]
    yok = y[0] == "op" and y[1] == "Add" and {y[2], y[3]} == {("c", 2000), ("call", "int", (("slice", VAL, ("c", 0), ("c", 2)),))}
    return yok and sl(1, 2, 4) and sl(2, 4, 6) and sl(3, 6, 8) and sl(4, 8, 10) and sl(5, 10, 12)


def thorough(src, rep):
    from sa.selfval.harness import run_selfval
    run_selfval("C11", src, rep)
