"""C11 - P1 readouts parse into the transmitted data sets and decode with exact units (level: other; PARTIAL).

Decided: R1 unit dispatch (case-folded unit sets -> float(value) / integer milli-scaling from the catalogue / clock / verbatim), on every
path of the per-data-set step, with no additional condition deciding between them; R2 clock slices YYMMDDhhmmss feed datetime(2000+YY, ...);
R3 naming through obis_name_map on the reduced address' C.D.E, only single-valued data sets; R4 identification groups; R5 the three entry
points share parse function, payload and decoder; R6 line splitting accepts LF and CRLF, values split on '*', value/unit order.
NOT decided: that parse_data_block returns one data set per transmitted address for every well-formed block (scanner I/O relation).
"""
from __future__ import annotations

import ast
import re

from sa.consteval import ConstEval, NotConstant
from sa.decoders import cdr_groups_finding, is_cdr_of
from sa.model import Model
from sa.paths import Engine, loop_body_paths, show_sv, strip_epoch
from sa.sveval import CannotEval, Res, ev as sv_ev, path_holds
from sa.report import Undecided

LEVEL = "other"
MOD = "dlde"
FLOAT_UNITS = {"v", "a", "var", "varh"}
KILO_UNITS = {"kw", "kwh", "kvar", "kvarh"}


def check(src, rep):
    M = Model(src)
    ce = ConstEval(M)
    file = src.file(MOD)
    rep.count("modules", len(src.text))
    from sa.decoders import p1_decode_worker
    fn = p1_decode_worker(M)
    rep.require(fn is not None, "cannot find the per-data-set decoder reached from decode_p1_readout_content")
    rep.assumptions += ["IEEE double lemma: for a decimal with <= 3 fractional digits, int(float(t) * 1000) is the exact product or one below, never above (paper argument, DESIGN.md A.5)",
                        "parse_data_block's input/output relation over all well-formed blocks is NOT decided (honest not-applicable for that clause); its termination is C15/R2"]
    rep.explanation = ("PARTIAL. Decided: every path of the per-data-set step dispatches on the case-folded unit only - {V, A, var, varh} -> float(value), {kW, kWh, kvar, kvarh} -> "
                       "int(float(value) * 1000) (catalogue idiom), address 1.0.0 -> clock, otherwise the value verbatim; the clock slices [0:2]..[10:12] feed datetime(2000+YY, MM, DD, hh, mm, ss); "
                       "names come from obis_name_map on C.D.E of the reduced address and only single-valued data sets are decoded; the identification fields come from groups MANID and ID; "
                       "decode_p1_readout, decode_p1_readout_content and AutoDecoder's P1 entry reach the same decoder on the same parse of the same payload; lines are split by splitlines() and "
                       "values on '*'. NOT decided: parsing of every well-formed block into one data set per address (behaviour of an index-chasing scanner over all inputs).")
    E = Engine(M)
    node, ps = loop_body_paths(E, fn)
    # ---- R1-R3 by tabulation: the per-data-set step is evaluated for every abstract data set (number of values, unit spelling, address class)
    # with the transmitted number kept symbolic; exactly one path applies and its dictionary store is compared with the specification.
    try:
        name_map = ce.eval(ast.parse("obis_name_map", mode="eval").body, {}, "obis_map")
    except NotConstant as e:
        raise Undecided(f"obis_map.obis_name_map is not a constant table: {e}")
    rep.require(isinstance(name_map, dict) and len(name_map) > 10, "obis_name_map is not a dictionary")
    known = next(k for k in sorted(name_map) if k != "1.0.0")
    VAL, ADDR = Res("VAL"), Res("ADDR")
    units = [("V", "float"), ("v", "float"), ("A", "float"), ("var", "float"), ("VAR", "float"), ("varh", "float"), ("Varh", "float"),
             ("kW", "kilo"), ("KW", "kilo"), ("kw", "kilo"), ("kWh", "kilo"), ("KWH", "kilo"), ("kvar", "kilo"), ("kVAr", "kilo"), ("kvarh", "kilo"), ("kVArh", "kilo"),
             ("m3", "verbatim"), ("Wh", "verbatim"), ("W", "verbatim"), ("", "verbatim"), (None, "verbatim"), ("kVA", "verbatim"), ("kV", "verbatim"), ("k", "verbatim"), ("K", "verbatim"),
             ("kWh2", "verbatim"), ("VA", "verbatim"), ("Ah", "verbatim"), ("kA", "verbatim"), ("var2", "verbatim")]
    kilo_ok = {Res("int", Res("Mult", Res("float", VAL), 1000)), Res("round", Res("Mult", Res("float", VAL), 1000)), Res("int", Res("Mult", Res("Decimal", VAL), 1000)),
               Res("int", Res("round", Res("Mult", Res("float", VAL), 1000)))}
    clock = Res("datetime", *([Res("Add", 2000, Res("int", Res("slice", VAL, 0, 2)))] + [Res("int", Res("slice", VAL, a, a + 2)) for a in (2, 4, 6, 8, 10)]))
    bad = 0
    n_cases = 0
    seen_kinds = set()
    reported = set()

    def vio(rule, tag, text, line, witness):
        nonlocal bad
        bad += 1
        if (rule, tag) not in reported:
            reported.add((rule, tag))
            rep.violation(rule, f"dlde.{fn.name}", tag, text, file, line, witness=witness)

    for nvals in (0, 1, 2):
        for unit, kind in units:
            for cdr in (known, "250.250.250", "1.0.0"):
                if cdr == "1.0.0" and unit not in (None, ""):
                    continue
                if nvals != 1 and (unit, cdr) != ("kWh", known):
                    continue
                item = {"values": [{"unit": unit, "value": VAL}] + [{"unit": "x", "value": Res("VAL2")}] * (nvals - 1) if nvals else [], "address": ADDR}

                def leaf(sv, item=item, cdr=cdr):
                    t = sv[0]
                    if t == "iter":
                        return item
                    if t == "f0":
                        if sv[2] == "obis_name_map":
                            return name_map
                        base = sv_ev(sv[1], {}, leaf)
                        if isinstance(base, dict) and sv[2] in base:
                            return base[sv[2]]
                        raise CannotEval(f"attribute {sv[2]}")
                    if t == "g":
                        try:
                            return ce.eval(ast.parse(sv[1], mode="eval").body, {}, MOD)
                        except (NotConstant, SyntaxError):
                            return Res(sv[1])
                    if t == "call" and isinstance(sv[1], str):
                        if sv[1].endswith("from_string"):
                            return Res("obis", ADDR) if sv_ev(sv[2][-1], {}, leaf) == ADDR else NotImplemented
                        if sv[1].endswith("to_group_cdr_str"):
                            return cdr
                    return NotImplemented
                desc = f"{nvals} value(s), unit {unit!r}, address C.D.E {cdr}"
                hits, sym_guard, other = [], None, None
                for p in ps:
                    if p.status == "raise":
                        continue
                    holds = True
                    for g, pol, gl in p.guards:
                        if g[0] == "exc":
                            holds = False
                            break
                        try:
                            if bool(sv_ev(g, {}, leaf)) != pol:
                                holds = False
                                break
                            if isinstance(sv_ev(g, {}, leaf), Res):
                                raise CannotEval("symbolic truth value")
                        except CannotEval as e:
                            if _mentions_value(g):
                                sym_guard = (g, gl)
                            else:
                                other = str(e)
                            holds = False
                            break
                    if holds:
                        hits.append(p)
                if sym_guard is not None and nvals == 1:
                    vio("R1", "extra-condition", "the conversion of a data set depends on a condition on the transmitted number itself, not only on its (case-folded) unit and the 1.0.0 address: "
                        "some transmitted forms of a number (e.g. without fractional digits) are converted differently", sym_guard[1], f"{desc}: condition {show_sv(sym_guard[0])[:100]}")
                    continue
                if other is not None:
                    rep.undecide(f"R1 the data-set step tests a condition outside the tabulated domain ({other}) for {desc}")
                    bad += 1
                    break
                n_cases += 1
                if len(hits) != 1:
                    rep.undecide(f"R1 {len(hits)} paths of the data-set step apply to {desc}")
                    bad += 1
                    break
                p = hits[0]
                stores = [e for e in p.effects if e[0] == "setitem"]
                line = stores[0][-1] if stores else node.lineno
                if nvals != 1:
                    if stores:
                        vio("R3", "multi-valued-decoded", f"a data set with {nvals} values is decoded", line, desc)
                    continue
                if len(stores) != 1:
                    vio("R3", "stores-per-dataset", f"a single-valued data set produces {len(stores)} dictionary entries", node.lineno, desc)
                    continue
                try:
                    key, value = sv_ev(stores[0][2], {}, leaf), sv_ev(stores[0][3], {}, leaf)
                except CannotEval as e:
                    rep.undecide(f"R1 stored key/value outside the tabulated domain ({e}) for {desc}")
                    bad += 1
                    break
                want_key = name_map.get(cdr, cdr)
                if key != want_key:
                    vio("R3", "naming", "the key is not obis_name_map[C.D.E] (when known) or C.D.E of the data set's address", line, f"{desc}: key {key!r} instead of {want_key!r}")
                k = "clock" if cdr == "1.0.0" else kind
                seen_kinds.add(k)
                if k == "float" and value != Res("float", VAL):
                    what = "units are compared case-sensitively (or the unit set is not {V, A, var, varh})" if value == VAL else "V/A/var/varh quantities are not stored as float(transmitted number)"
                    vio("R1", "float-units" if value != VAL else "unit-set", what, line, f"{desc}: stores {value!r}")
                elif k == "kilo" and value not in kilo_ok:
                    what = ("units are compared case-sensitively (or the unit set is not {kW, kWh, kvar, kvarh})" if value == VAL else
                            "kW/kWh/kvar/kvarh quantities are not converted by an idiom of the catalogue (int(float(v) * 1000), round(float(v) * 1000), int(Decimal(v) * 1000))")
                    vio("R1", "kilo-units" if value != VAL else "unit-set", what, line, f"{desc}: stores {value!r}")
                elif k == "clock" and value != clock:
                    vio("R2", "clock-slices", "the clock is not datetime(2000+YY, MM, DD, hh, mm, ss) from the slices [0:2], [2:4], ..., [10:12] of YYMMDDhhmmss", line, f"{desc}: stores {value!r}"[:260])
                elif k == "verbatim" and value != VAL:
                    vio("R1", "verbatim", "values with another unit (or none) are not stored verbatim", line, f"{desc}: stores {value!r}")
            else:
                continue
            break
        else:
            continue
        break
    n_paths = len([p for p in ps if p.status != "raise"])
    if not bad and seen_kinds >= {"float", "kilo", "clock", "verbatim"}:
        rep.ok("R1", f"{n_cases} abstract data sets x {n_paths} step paths", "unit dispatch on the case-folded unit only: {V,A,var,varh} -> float(v); {kW,kWh,kvar,kvarh} -> int(float(v)*1000); 1.0.0 -> clock; otherwise verbatim (transmitted number symbolic)")
        rep.ok("R2", "clock", "YYMMDDhhmmss slices [0:2]..[10:12] feed datetime(2000+YY, MM, DD, hh, mm, ss) in this order")
        rep.ok("R3", "naming", "obis_name_map[C.D.E] when known, else C.D.E; only single-valued data sets are decoded")
    cg = cdr_groups_finding(M)
    if cg:
        rep.violation("R3", "obis.Obis.to_group_cdr_str", "cde-groups", cg, src.file("obis"), 1)
    rep.floor("data-set step paths", n_paths, 4)
    rep.floor("abstract data sets tabulated", n_cases, 40)
    # ---------------------------------------------------------------- R4 identification
    I = M.classes.get((MOD, "Ident"))
    rep.require(I is not None, "anchor vanished: dlde.Ident")
    ok4 = True
    from sa.decoders import ident_findings
    for tag, text in ident_findings(M, "dlde"):
        if tag in ("ident-group", "ident-str"):
            ok4 = False
            rep.violation("R4", "dlde.Ident", tag, f"the identification line is not split into its three flag letters and the identification: {text}", file, I.node.lineno)
    dr = M.funcs.get("dlde.decode_p1_readout")
    rep.require(dr is not None, "anchor vanished: dlde.decode_p1_readout")
    dc = M.funcs.get("dlde.decode_p1_readout_content")
    rep.require(dc is not None, "anchor vanished: dlde.decode_p1_readout_content")
    try:
        MAN, TYP = ce.eval(ast.parse("FIELD_METER_MANUFACTURER_ID", mode="eval").body, {}, "obis_map"), ce.eval(ast.parse("FIELD_METER_TYPE_ID", mode="eval").body, {}, "obis_map")
    except NotConstant as e:
        raise Undecided(f"obis_map field-name constants: {e}")
    rd = ("p", dr.params[0])
    IL = ("f0", rd, "identification_line")
    dr_paths = [p for p in Engine(M).run(dr) if p.status == "return"]
    ids_ok = bool(dr_paths)
    for p in dr_paths:
        st = {_strip_lines(strip_epoch(e[2])): _strip_lines(strip_epoch(e[3])) for e in p.effects if e[0] == "setitem"}
        has_type = any(_strip_lines(strip_epoch(g)) == ("cmp", "Is", ("f0", IL, "identification"), ("c", None)) and not pol for g, pol, _ in p.guards)
        if st.get(("c", MAN)) != ("f0", IL, "manufacturer_id"):
            ids_ok = False
        if has_type and st.get(("c", TYP)) != ("f0", IL, "identification"):
            ids_ok = False
        if not has_type and ("c", TYP) in st:
            ids_ok = False
    dc_paths = [p for p in Engine(M).run(dc) if p.status == "return"]
    ids_only_whole = not any(e[0] == "setitem" and e[2] in (("c", MAN), ("c", TYP)) for p in dc_paths + ps for e in p.effects)
    if ok4 and ids_ok and ids_only_whole:
        rep.ok("R4", "identification fields", "manufacturer_id = group MANID, identification = group ID; stored under meter_manufacturer_id / meter_type_id only by the whole-readout decoder")
    elif ok4:
        rep.violation("R4", "dlde.decode_p1_readout", "ident-fields", "the identification fields are not stored (only) by the whole-readout decoder from the identification line", file, dr.node.lineno)
    from sa.cross import include as _inc
    _inc(rep, src, "C04", {"R5"}, "R4", "the identification line is split by a pattern that accepts exactly the standard's syntax (any number of escape sequences, 1-16 identification characters)")
    # ---------------------------------------------------------------- R5 sibling agreement
    ok5 = True
    pc = M.funcs.get("dlde.parse_p1_readout_content")
    pr = M.funcs.get("dlde.parse_p1_readout")
    rep.require(pc is not None and pr is not None and dc is not None, "anchor vanished: P1 parse/decode functions")
    def parse_arg(p):
        """the text handed to the block parser on a path: (source SV of the bytes, decoded how)"""
        for e in p.effects:
            if e[0] == "call" and isinstance(e[1], str) and e[1].endswith("parse_data_block") and e[2]:
                a = _strip_lines(strip_epoch(e[2][0]))
                if a[0] == "call" and a[1] == ".decode" and a[2][1:] in ((("c", "ascii"),), ()):
                    return a[2][0]
                return ("other", a)
        return None

    worker_lines = range(fn.node.lineno, (fn.node.end_lineno or fn.node.lineno) + 1)

    def reaches_worker(p):
        return any(e[0] == "loop" and e[2] in worker_lines for e in p.effects)
    pr_paths = [p for p in Engine(M).run(pr) if p.status == "return"]
    if not pr_paths or any(parse_arg(p) != ("f0", ("p", pr.params[0]), "payload") for p in pr_paths):
        ok5 = False
        rep.violation("R5", "dlde.parse_p1_readout", "payload", "the whole-readout parser does not hand the readout's payload to the content parser", file, pr.node.lineno)
    shared = bool(dr_paths) and bool(dc_paths) and all(parse_arg(p) == ("f0", rd, "payload") and reaches_worker(p) for p in dr_paths) \
        and all(parse_arg(p) == ("p", dc.params[0]) and reaches_worker(p) for p in dc_paths)
    if not shared:
        ok5 = False
        rep.violation("R5", "dlde", "shared-decoder", "the P1 entry points do not decode the same parse of the same payload bytes with the same per-data-set decoder", file, dc.node.lineno,
                      witness=f"whole readout parses {[show_sv(parse_arg(p) or ('c', None))[:40] for p in dr_paths]}; content parses {[show_sv(parse_arg(p) or ('c', None))[:40] for p in dc_paths]}")
    try:
        table = ce.class_const("autodecoder", "AutoDecoder", "payload_decoder_functions")
        p1 = [fr for n, fr in table if n == "P1"]
        if not (len(p1) == 1 and p1[0].mod == "dlde" and p1[0].node.name == "decode_p1_readout_content"):
            ok5 = False
            rep.violation("R5", "autodecoder.AutoDecoder", "p1-entry", "AutoDecoder's P1 entry is not dlde.decode_p1_readout_content", src.file("autodecoder"), 1)
    except NotConstant:
        rep.undecide("R5 AutoDecoder table not constant")
    if ok5:
        rep.ok("R5", "entry points", "decode_p1_readout, decode_p1_readout_content and AutoDecoder's P1 entry all reach _decode_parsed on parse_p1_readout_content of the same payload bytes")
    from sa.cross import include
    include(rep, src, "C12", {"R1", "R2", "R5"}, "R5", "the same block decodes identically through AutoDecoder (for every history)")
    # ---------------------------------------------------------------- R6 line / value splitting
    pdb = M.classes[(MOD, "DataSet")].methods.get("parse_data_block") if (MOD, "DataSet") in M.classes else None
    rep.require(pdb is not None, "anchor vanished: DataSet.parse_data_block")
    splits = [n for n in ast.walk(pdb.node) if isinstance(n, ast.Call) and isinstance(n.func, ast.Attribute) and n.func.attr in ("splitlines", "split")]
    if any(n.func.attr == "splitlines" and not n.args for n in splits):
        rep.ok("R6", "line splitting", "the block is split with str.splitlines(): LF and CRLF line ends are both accepted, blank lines dropped")
    else:
        rep.violation("R6", "dlde.DataSet.parse_data_block", "line-splitting", "the data block is not split into lines with splitlines(): blocks with LF-only (or CRLF) line ends are parsed as one line", file, pdb.node.lineno,
                      witness="; ".join(ast.unparse(n)[:40] for n in splits) or "no split")
    dv = M.classes.get((MOD, "DataSetValue"))
    pv = dv.methods.get("parse") if dv else None
    rep.require(pv is not None, "anchor vanished: DataSetValue.parse")
    t = ast.unparse(pv.node)
    if "split('*')" in t and re.search(r"DataSetValue\(pair\[0\], pair\[1\]\)|cls\(pair\[0\], pair\[1\]\)", t):
        rep.ok("R6", "value*unit", "value and unit are the parts before and after the single '*'")
    else:
        rep.violation("R6", "dlde.DataSetValue.parse", "value-unit-split", "a value is not split into (value, unit) at '*'", file, pv.node.lineno)


def _mentions_value(sv):
    """does the SV read the transmitted number (attribute `value` of a data-set value)?"""
    if isinstance(sv, tuple):
        if len(sv) >= 3 and sv[0] == "f0" and sv[2] == "value":
            return True
        return any(_mentions_value(x) for x in sv if isinstance(x, tuple))
    return False


def _strip_lines(sv):
    """drop call-site line numbers from call values so that the same expression compares equal wherever it was built"""
    if isinstance(sv, tuple):
        if sv and sv[0] == "call" and len(sv) == 4 and isinstance(sv[3], int):
            return ("call", sv[1], tuple(_strip_lines(x) for x in sv[2]))
        return tuple(_strip_lines(x) for x in sv)
    return sv


def _is_unit(sv, UNIT):
    return sv == ("ite", UNIT, ("call", ".lower", (UNIT,)), ("c", None)) or sv == ("call", ".lower", (UNIT,))


def _clock_ok(value, VAL):
    if not (value[0] == "call" and value[1] == "datetime" and len(value[2]) == 6):
        return False
    a = value[2]

    def sl(i, lo, hi):
        return a[i] == ("call", "int", (("slice", VAL, ("c", lo), ("c", hi)),))
    y = a[0]
    yok = y[0] == "op" and y[1] == "Add" and {y[2], y[3]} == {("c", 2000), ("call", "int", (("slice", VAL, ("c", 0), ("c", 2)),))}
    return yok and sl(1, 2, 4) and sl(2, 4, 6) and sl(3, 6, 8) and sl(4, 8, 10) and sl(5, 10, 12)


def thorough(src, rep):
    from sa.selfval.harness import run_selfval
    run_selfval("C11", src, rep)
