"""C08 - Kaifa lists decode to the transmitted values with the documented scaling (level: other).

R1 positional layouts (E-CONST) = the five documented layouts, selected by length, position = array index; R2 scaling per field
(evaluated for every layout x position and every OBIS name: currents 10^-3, voltages 10^-1, nothing else); R3 exact-scaling idiom;
R4 clock precedence (APDU date-time written before the element loop, bare bodies never read the APDU); R5 OBIS-tagged layout naming,
manufacturer, shared grammars/normalisers and dispatch on the body type; wire types of the shared Field grammar.
"""
from __future__ import annotations

import ast

from sa.consir import EnumVal, Expr, N, World, routes
from sa.consteval import ConstEval, NotConstant
from sa.decoders import naming_verdict, parse_targets, scaling_idiom, setitems, wire_type_findings
from sa.model import Model
from sa.paths import Engine, loop_body_paths, show_sv, strip_epoch
from sa.report import Undecided
from sa.sveval import CannotEval, ev

LEVEL = "other"
MOD = "kaifa"
V, I, T = "list_ver_id", "meter_id", "meter_type"
P = ["active_power_import", "active_power_export", "reactive_power_import", "reactive_power_export"]
IL, UL = ["current_l1", "current_l2", "current_l3"], ["voltage_l1", "voltage_l2", "voltage_l3"]
TOT = ["meter_datetime", "active_power_import_total", "active_power_export_total", "reactive_power_import_total", "reactive_power_export_total"]
L9 = [V, I, T] + P + [IL[0], UL[0]]
L13 = [V, I, T] + P + IL + UL
LAYOUTS = {1: [P[0]], 9: L9, 13: L13, 14: L9 + TOT, 18: L13 + TOT}
SCALE = {**{k: -3 for k in IL}, **{k: -1 for k in UL}}


def _orders_register(term):
    """the branch condition is an ordering / equality test of a symbolic register (typed int symbol) against a constant"""
    from sa.sveval import Res as _R
    if isinstance(term, _R) and term.op in ("Lt", "LtE", "Gt", "GtE", "Eq", "NotEq") and len(term.args) == 2:
        a, b = term.args
        sym = a if isinstance(a, _R) else b
        other = b if sym is a else a
        return isinstance(sym, _R) and getattr(sym, "pytype", None) == "int" and isinstance(other, (int, float)) and not isinstance(other, bool)
    return False


def check(src, rep):
    M = Model(src)
    from sa.oneshot import rule as _one_shot
    _one_shot(rep, M, src, ("kaifa", "obis_map", "cosem", "obis", "common"), "R1")
    ce = ConstEval(M)
    w = World(src)
    file = src.file(MOD)
    rep.count("modules", len(src.text))
    rep.assumptions += ["Norwegian HAN (NVE/NEK) Kaifa list layouts as summarised in the property (DESIGN.md A.3)",
                        "float lemma: for 0 <= v < 2^32 and s in {1,3}, round(v * 10**-s, s) is the correctly rounded v / 10**s"]
    rep.explanation = ("Decided: the five positional name lists (constant-evaluated) equal the documented layouts, are selected by list length and indexed by the array position; for every layout x "
                       "position and every OBIS name the extracted scale expression yields 10^-3 for currents, 10^-1 for voltages and no scaling otherwise; the stored value uses an exact-scaling idiom "
                       "(round(v*10**s, -s) or division) on integers only; the APDU date-time is written before the element loop so the list's own clock wins, bare bodies never read the APDU; the OBIS "
                       "layout names fields through obis_name_map; manufacturer 'Kaifa'; frame and body share grammars/normalisers and the dispatch on the body type matches. "
                       "NOT decided: the float lemma and acceptance of every well-formed list.")
    # ---------------------------------------------------------------- R1-R5: the public normalisers on abstract parsed lists (E-ABS)
    from sa.abseval import AbsEval, AObj, Sym
    from sa.decoders import obis_hook
    from sa.sveval import Res
    try:
        name_map = ce.module_value("obis_map", "obis_name_map")
        MAN = ce.module_value("obis_map", "FIELD_METER_MANUFACTURER")
    except NotConstant as e:
        raise Undecided(f"obis_map tables not constant: {e}")
    fr_fn, bo_fn = M.funcs.get("kaifa.normalize_parsed_frame"), M.funcs.get("kaifa.normalize_parsed_notification")
    rep.require(fr_fn is not None and bo_fn is not None, "anchor vanished: kaifa normalisers")
    AE = AbsEval(M, hooks={"Obis.from_string": obis_hook})
    try:
        T_VALUE = AE.eval(ast.parse("KaifaBodyType.VALUE_ELEMENTS", mode="eval").body, {}, MOD)
        T_OBIS = AE.eval(ast.parse("KaifaBodyType.OBIS_ELEMENTS", mode="eval").body, {}, MOD)
    except NotConstant as e:
        raise Undecided(f"kaifa.KaifaBodyType members are not constant: {e}")
    rep.require(T_VALUE != T_OBIS, "the two body types are not distinct")
    DT, ADT = Sym("list_clock", "datetime"), Sym("apdu_clock", "datetime")

    def exact(term, reg, exp):
        k = 10 ** -exp
        return term in (Res("round", Res("Mult", reg, 10.0 ** exp), -exp), Res("Div", reg, k), Res("round", Res("Div", reg, k), -exp),
                        Res("float", Res("Div", Res("Decimal", reg), k)))

    def wrap(body, which):
        if which == "body":
            return bo_fn, body
        return fr_fn, AObj("Container", {"information": AObj("Container", {"notification_body": body, "DateTime": AObj("Container", {"datetime": ADT})})})

    shown = set()
    counts = {"R1": 0, "R2": 0, "R3": 0, "R4": 0, "R5": 0}

    def Vio(rule, tag, text, witness=None, fname=None):
        counts[rule] += 1
        if (rule, tag) in shown:
            return
        shown.add((rule, tag))
        f_ = M.funcs.get(f"kaifa.{fname}") if fname else None
        rep.violation(rule, f"kaifa.{fname}" if fname else "kaifa", tag, text, file, f_.node.lineno if f_ else 1, witness=witness)

    und = None
    cells = 0
    from sa.decoders import ResultLog
    rlog = ResultLog()
    # ---- positional layouts: every documented length x position, frame and bare body; undocumented lengths are refused
    for n in sorted(LAYOUTS, reverse=True) + [0, 2, 5, 10, 12, 15, 17, 19]:
        names = LAYOUTS.get(n)
        vals = []
        for i in range(n):
            nm = names[i] if names else None
            if nm == "meter_datetime":
                vals.append(AObj("Container", {"datetime": DT}))
            elif nm in (V, I, T):
                vals.append(Sym(f"text{i}", "str"))
            else:
                vals.append(Sym(f"reg{i}", "int"))
        items = [AObj("Container", {"index": i, "value": v}) for i, v in enumerate(vals)]
        body = AObj("Container", {"type": T_VALUE, "list_items": items, "length": n})
        for which in ("frame", "body"):
            f_, arg = wrap(body, which)
            res = AE.apply(f_, [arg])
            results_ = [res]
            if res[0] == "branch" and not _orders_register(res[1]):
                # a condition on abstract values that is not a comparison of a register (e.g. whether a date-time has a time zone): every outcome is judged
                from sa.parsedworlds import run_valuations
                results_ = [r_ for _, r_ in run_valuations(AE, f_, [arg], limit=16)[0]]
            for res in results_:
                desc = f"{which} with a positional list of {n} elements"
                if res[0] == "branch" and _orders_register(res[1]):
                    Vio("R2", "value-dependent-scaling", "how a register is scaled depends on the magnitude of the register value itself (a comparison of the transmitted number with a constant), not only on the "
                        "field it is: some values of the register's range are stored with another scale", f"{desc}: condition {res[1]!r}"[:200])
                    continue
                if res[0] in ("undecided", "branch"):
                    und = f"{desc}: {res[1]!r}"
                    break
                if names is None:
                    if res[0] != "raise":
                        Vio("R1", f"layout:{n}", f"an undocumented {n}-element positional list is accepted", desc)
                    continue
                if res[0] == "raise":
                    Vio("R1", f"layout:{n}", f"the documented {n}-element layout is refused ({res[1]})", desc)
                    continue
                got = res[1]
                if not isinstance(got, dict):
                    und = f"{desc}: no dictionary returned"
                    break
                rlog.add(desc, got)
                want = {MAN: "Kaifa"}
                if which == "frame":
                    want["meter_datetime"] = ADT
                for i, nm in enumerate(names):
                    want[nm] = DT if nm == "meter_datetime" else vals[i]
                for i, nm in enumerate(names):
                    cells += 1
                    g = got.get(nm, None)
                    if nm not in got:
                        where = [k for k, v in got.items() if v == vals[i] or (isinstance(vals[i], Sym) and isinstance(v, Res) and vals[i] in _terms(v))]
                        Vio("R1", f"field-name:{n}:{i}", f"position {i} of the {n}-element list is stored under {where[:1] or 'nothing'} instead of {nm!r}", desc)
                        continue
                    if nm in SCALE:
                        if exact(g, vals[i], SCALE[nm]):
                            continue
                        if g == vals[i] or any(exact(g, vals[i], e) for e in (-1, -2, -3)):
                            Vio("R2", f"scaling:{nm}", f"field {nm!r} (position {i} of the {n}-element list) is not scaled by 10^{SCALE[nm]}", f"{desc}: stored {g!r}")
                        else:
                            Vio("R3", f"inexact:{nm}", "a negative power of ten is applied by multiplication without rounding to the exponent's number of digits (35 * 10**-3 -> 0.035000000000000003), or outside the idiom catalogue",
                                f"{desc}: stored {g!r}")
                    elif nm == "meter_datetime":
                        if g != DT:
                            if g == ADT:
                                Vio("R4", "clock-precedence", "the APDU date-time overrides the list's own clock element", desc)
                            else:
                                Vio("R4", "list-clock", "the list's own clock element is not stored as the decoded datetime", f"{desc}: stored {g!r}")
                    elif g != vals[i]:
                        if isinstance(vals[i], Sym) and vals[i].pytype == "int":
                            Vio("R2", f"scaling:{nm}", f"field {nm!r} (position {i} of the {n}-element list) must not be scaled", f"{desc}: stored {g!r}")
                        else:
                            Vio("R5", "text-not-verbatim", "a non-integer value is transformed before it is stored", f"{desc}: stored {g!r}")
                if "meter_datetime" not in names:
                    if which == "frame" and got.get("meter_datetime") != ADT:
                        Vio("R4", "apdu-clock-missing", "frames in the positional layout without a clock element do not get the APDU date-time as meter clock", f"{desc}: {got.get('meter_datetime')!r}")
                    if which == "body" and "meter_datetime" in got:
                        Vio("R4", "apdu-clock-in-body", "a bare body reports a meter clock although it carries none", desc)
                if got.get(MAN) != "Kaifa":
                    Vio("R5", "manufacturer", "the manufacturer field is not the constant 'Kaifa'", repr(got.get(MAN)))
                extra = [k for k in got if k not in want]
                if extra:
                    Vio("R1", "extra-fields", f"the dictionary has entries no element accounts for: {extra[:3]}", desc)
                if und:
                    break
        if und:
            break
    # ---- OBIS-tagged layout
    n_obis = 0
    if not und:
        codes = [("1.1.0.0.5.255", Sym("mid", "str")), ("1.1.1.7.0.255", Sym("p", "int")), ("1.1.31.7.0.255", Sym("i1", "int")), ("1.1.51.7.0.255", Sym("i2", "int")), ("1.1.71.7.0.255", Sym("i3", "int")),
                 ("1.1.32.7.0.255", Sym("u1", "int")), ("1.1.52.7.0.255", Sym("u2", "int")), ("1.1.72.7.0.255", Sym("u3", "int")), ("0.0.1.0.0.255", AObj("Container", {"datetime": DT})),
                 ("1.1.1.8.0.255", Sym("e", "int")), ("1.1.250.251.252.255", Sym("x", "int"))]
        items = [AObj("Container", {"obis": c, "value": v}) for c, v in codes]
        body = AObj("Container", {"type": T_OBIS, "list_items": items, "length": len(items)})
        for which in ("frame", "body"):
            f_, arg = wrap(body, which)
            res = AE.apply(f_, [arg])
            results_ = [res]
            if res[0] == "branch" and not _orders_register(res[1]):
                # a condition on abstract values that is not a comparison of a register (e.g. whether a date-time has a time zone): every outcome is judged
                from sa.parsedworlds import run_valuations
                results_ = [r_ for _, r_ in run_valuations(AE, f_, [arg], limit=16)[0]]
            for res in results_:
                desc = f"{which} with an OBIS-tagged list"
                if res[0] == "branch" and _orders_register(res[1]):
                    Vio("R2", "value-dependent-scaling", "how a register is scaled depends on the magnitude of the register value itself (a comparison of the transmitted number with a constant), not only on the "
                        "field it is: some values of the register's range are stored with another scale", f"{desc}: condition {res[1]!r}"[:200])
                    continue
                if res[0] in ("undecided", "branch"):
                    und = f"{desc}: {res[1]!r}"
                    break
                if res[0] == "raise":
                    if res[1] == "KeyError":
                        Vio("R5", "naming", "the common-name table is indexed without a membership test (unknown OBIS codes raise KeyError)", desc)
                    else:
                        Vio("R5", "normaliser-raises", f"the normaliser raises {res[1]} for a well-formed {desc}", desc)
                    continue
                got = res[1]
                rlog.add(desc, got)
                for c, v in codes:
                    n_obis += 1
                    cdr = ".".join(c.split(".")[2:5])
                    nm = name_map.get(cdr, cdr)
                    if nm not in got:
                        Vio("R5", "naming", f"an element is not stored under {nm!r} (obis_name_map[C.D.E] when known, else C.D.E)", f"{desc}; keys {sorted(map(str, got))[:6]}")
                        continue
                    g = got[nm]
                    if nm in SCALE:
                        if not exact(g, v, SCALE[nm]):
                            if g == v or any(exact(g, v, e) for e in (-1, -2, -3)):
                                Vio("R2", f"scaling:{nm}", f"field {nm!r} is not scaled by 10^{SCALE[nm]} in the OBIS-tagged layout", f"{desc}: stored {g!r}")
                            else:
                                Vio("R3", f"inexact:{nm}", "a negative power of ten is applied by multiplication without rounding", f"{desc}: stored {g!r}")
                    elif isinstance(v, AObj):
                        if g != DT:
                            Vio("R4", "list-clock", "the clock element of the OBIS-tagged list is not stored as the decoded datetime", f"{desc}: stored {g!r}")
                    elif g != v:
                        Vio("R2" if v.pytype == "int" else "R5", f"scaling:{nm}" if v.pytype == "int" else "text-not-verbatim", f"field {nm!r} of the OBIS-tagged list is not stored as parsed", f"{desc}: stored {g!r}")
                if got.get(MAN) != "Kaifa":
                    Vio("R5", "manufacturer", "the manufacturer field is not the constant 'Kaifa'", repr(got.get(MAN)))
                if und:
                    break
    rf = rlog.finding()
    if rf:
        Vio("R1", "result-aliased", rf[0], rf[1], "normalize_parsed_notification")
    # ---- an unknown body type is refused
    if not und:
        res = AE.apply(bo_fn, [AObj("Container", {"type": Sym("other_type", "int"), "list_items": []})])
        if res[0] == "value":
            Vio("R5", "dispatch", "a body of an unknown type is decoded instead of being refused", "body type that is neither VALUE_ELEMENTS nor OBIS_ELEMENTS")
    if und:
        rep.undecide(f"R1 the kaifa normalisers are outside the interpreted subset / branch on an undetermined condition for a {und}")
    else:
        if not counts["R1"]:
            rep.ok("R1", "positional layouts", f"lists of 1, 9, 13, 14, 18 elements are stored under the documented names position by position ({cells} layout x position cells, frame and bare body); other lengths are refused")
        if not counts["R2"]:
            rep.ok("R2", "scaling", "currents scaled 10^-3, voltages 10^-1, everything else stored as parsed, in both layouts")
        if not counts["R3"]:
            rep.ok("R3", "scaling idiom", "round(v * 10**s, abs(s)) or division on integers only (symbolic registers)")
        if not counts["R4"]:
            rep.ok("R4", "clock precedence", "the list's own clock element wins; frames without one report the APDU date-time; bare bodies never report an APDU clock")
        if not counts["R5"]:
            rep.ok("R5", f"OBIS-tagged layout ({n_obis} elements)", "names through obis_name_map (C.D.E for unknown codes); text verbatim; manufacturer 'Kaifa'; unknown body types are refused")
    # ---------------------------------------------------------------- grammar side: element position, body-type tags, shared grammars, wire types
    m = w.module(MOD)
    ve = m.env.get("NotificationBodyValueElements")
    rep.require(isinstance(ve, N), "kaifa.NotificationBodyValueElements not extracted")
    arr = next((s_ for s_ in ve.a["subs"] if isinstance(s_, N) and s_.name == "list_items"), None)
    idx_ok = False
    if arr is not None and arr.kind == "Array" and isinstance(arr.a["sub"], N) and arr.a["sub"].kind == "Struct":
        ix = next((s_ for s_ in arr.a["sub"].a["subs"] if isinstance(s_, N) and s_.name == "index"), None)
        idx_ok = ix is not None and ix.kind == "Computed" and isinstance(ix.a["expr"], Expr) and ix.a["expr"].src.replace("construct.", "") == "this._index"
    if idx_ok:
        rep.ok("R1", "element position", "each element's index is the array index (Computed(this._index))")
    else:
        rep.violation("R1", "kaifa.NotificationBodyValueElements", "element-index", "an element's position is not its array index", file, ve.line or 1)
    disp_ok = True
    oe = m.env.get("NotificationBodyObisElements")
    for g, want in ((ve, "VALUE_ELEMENTS"), (oe, "OBIS_ELEMENTS")):
        t = next((s_ for s_ in g.a["subs"] if isinstance(s_, N) and s_.name == "type"), None) if isinstance(g, N) else None
        if t is None or want not in (t.a["expr"].src if isinstance(t.a.get("expr"), Expr) else ""):
            disp_ok = False
            rep.violation("R5", "kaifa", f"body-type:{want}", "a body grammar does not tag itself with its own type", file, 1)
    frame, bodyg = m.env.get("LlcPdu"), m.env.get("NotificationBody")
    shared = isinstance(frame, N) and isinstance(bodyg, N) and list(routes(frame, ve)) and list(routes(frame, oe)) and list(routes(bodyg, ve)) and list(routes(bodyg, oe))
    tg = parse_targets(M, MOD)
    if disp_ok and shared and tg == {"decode_frame_content": "LlcPdu", "decode_notification_body": "NotificationBody"}:
        rep.ok("R5", "dispatch / shared grammars", "frame and body alternatives wrap the same two body grammars, each tagging itself with its own type")
    elif not shared:
        rep.violation("R5", "kaifa", "frame-body", "frame and bare-body grammars do not share the body grammars", file, 1)
    else:
        from sa.decoders import parse_target_sets
        ts_ = parse_target_sets(M, MOD)
        for fname_, want_ in (("decode_frame_content", "LlcPdu"), ("decode_notification_body", "NotificationBody")):
            got_ = ts_.get(fname_)
            if got_ and got_ != {want_}:
                fn_ = M.funcs.get(f"{MOD}.{fname_}")
                rep.violation("R5", f"kaifa.{fname_}", "parse-target", f"{fname_} does not leave the choice of the list layout to the {want_} grammar (it parses with {sorted(got_)}): frame and bare-body "
                              "decoding can disagree, and a layout picked from a few octets rejects lists the grammar accepts", file, fn_.node.lineno if fn_ else 1)
            elif not got_:
                rep.undecide(f"R5 cannot see which grammar {fname_} parses its input with")
    # a shortcut in an entry point (an answer computed without the grammar) must give the documented dictionary: list 1 bodies through decode_notification_body (E-ABS;
    # where the interpreter reaches the grammar's parse() the sample says nothing and the rules above decide)
    dnb = M.funcs.get(f"{MOD}.decode_notification_body")
    if dnb is not None:
        try:
            MANF, API = ce.eval(ast.parse("FIELD_METER_MANUFACTURER", mode="eval").body, {}, "obis_map"), ce.eval(ast.parse("FIELD_ACTIVE_POWER_IMPORT", mode="eval").body, {}, "obis_map")
        except NotConstant:
            MANF = API = None
        n_short = 0
        for reg in (0x01020304, 0, 0xFFFFFFFF, 0x00000100) if MANF else ():
            body_ = bytes((0x02, 0x01, 0x06)) + reg.to_bytes(4, "big")
            r_ = AbsEval(M).apply(dnb, [body_])
            if r_[0] == "value" and isinstance(r_[1], dict):
                n_short += 1
                if r_[1] != {MANF: "Kaifa", API: reg}:
                    rep.violation("R5", f"kaifa.{dnb.name}", "shortcut", "an answer computed without the grammar differs from the documented decoding of the list (frame and bare-body decoding disagree, "
                                  "or the register is not the transmitted 32-bit value)", file, dnb.node.lineno, witness=f"list 1 body {body_.hex()} -> {r_[1]!r}, documented: power {reg}"[:240])
                    break
        rep.count("entry_shortcut_samples", n_short)
    from sa.decoders import octet_string_text_finding
    otf = octet_string_text_finding(w)
    if otf:
        rep.violation("R5", "cosem.Field", "text-alternatives", otf, src.file("cosem"), 1)
    else:
        rep.ok("R5", "text fields in the grammar", "an octet string is a date-time struct or text, a visible string is text; no other alternative can claim the octets")
    wt, n_wt = wire_type_findings(w, ["cosem", MOD])
    for kind, mod, where, text, line in wt:
        rep.violation("R5", f"{mod}.{where.split(':')[0]}", f"wire-type:{where}", text, src.file(mod), line)
    if not wt:
        rep.ok("R5", f"{n_wt} tagged integer declarations", "32-bit registers parsed unsigned big-endian (Blue Book table 2)")
    from sa.cross import include
    include(rep, src, "C10", {"R1", "R2", "R3", "R4", "R5"}, "R4", "the meter clock (APDU date-time or the list's own clock element) is the transmitted date-time")
    rep.floor("layout cells", cells, 40)


def _terms(t):
    from sa.sveval import Res
    out = {t}
    if isinstance(t, Res):
        for a in t.args:
            if isinstance(a, Res):
                out |= _terms(a)
    return out


def _ancestors(root, node):
    parents = {c: p for p in ast.walk(root) for c in ast.iter_child_nodes(p)}
    out = []
    while node in parents:
        node = parents[node]
        out.append(node)
    return out


def _subst(sv, old, new):
    if sv == old:
        return new
    if isinstance(sv, tuple):
        return tuple(_subst(x, old, new) for x in sv)
    return sv


def _ev(sv, env):
    """sveval with dict.get support"""
    if isinstance(sv, tuple) and sv and sv[0] == "call" and isinstance(sv[1], str) and sv[1].endswith(".get") and len(sv[2]) >= 2:
        d = _ev(sv[2][0], env)
        k = _ev(sv[2][1], env)
        dflt = _ev(sv[2][2], env) if len(sv[2]) > 2 else None
        if not isinstance(d, dict):
            raise CannotEval("get on non-dict")
        return d.get(k, dflt)
    if isinstance(sv, tuple) and sv and sv[0] == "call" and sv[1] == "abs":
        return abs(_ev(sv[2][0], env))
    if isinstance(sv, tuple) and sv and sv[0] == "g" and sv in env:
        return env[sv]
    if isinstance(sv, tuple) and sv and sv[0] == "cmp" and sv[1] in ("In", "NotIn"):
        a, b = _ev(sv[2], env), _ev(sv[3], env)
        r = a in b
        return r if sv[1] == "In" else not r
    if isinstance(sv, tuple) and sv and sv[0] in ("cmp", "sub", "op", "not", "bool", "ite"):
        # evaluate children with this function so that nested .get calls work
        t = sv[0]
        if t == "cmp":
            a, b = _ev(sv[2], env), _ev(sv[3], env)
            return ev(("cmp", sv[1], ("c", a), ("c", b)), {})
        if t == "sub":
            return _ev(sv[1], env)[_ev(sv[2], env)]
        if t == "op":
            return ev(("op", sv[1], ("c", _ev(sv[2], env)), ("c", _ev(sv[3], env))), {})
        if t == "not":
            return not _ev(sv[1], env)
    return ev(sv, env)


def _scale_used(value, v, env, guards=None):
    """(idiom kind, exponent) applied to the wire integer v by the stored value expression; 'unknown' if outside the catalogue"""
    if guards is not None:
        for g, pol in guards:
            if g[0] == "call" and g[1] in ("hasattr", "isinstance"):
                continue
            if g[0] == "cmp" and g[1] == "In":
                continue
            try:
                if bool(_ev(g, env)) != pol:
                    return "infeasible"
            except (CannotEval, KeyError, TypeError):
                pass
    if value == v:
        return ("identity", None)
    # find the exponent sub-expression: the operand of 10 ** <s>
    cands = []

    def rec(sv):
        if isinstance(sv, tuple):
            if sv and sv[0] == "op" and sv[1] == "Pow" and sv[2] == ("c", 10):
                cands.append(sv[3])
            for x in sv:
                rec(x)
    rec(value)
    for s in cands:
        base = s
        if base[0] == "un" and base[1] == "USub":
            base = base[2]
        kind, okneg, okpos = scaling_idiom(value, v, base)
        if kind != "other":
            try:
                sval = _ev(base, env)
            except (CannotEval, KeyError, TypeError):
                return "unknown"
            return (kind, sval)
    return "unknown"


def thorough(src, rep):
    from sa.selfval.harness import run_selfval
    run_selfval("C08", src, rep)
