"""C08 - Kaifa lists decode to the transmitted values with the documented scaling (level: other).

R1 positional layouts (E-CONST) = the five documented layouts, selected by length, position = array index; R2 scaling per field
(evaluated for every layout x position and every OBIS name: currents 10^-3, voltages 10^-1, nothing else); R3 exact-scaling idiom;
R4 clock precedence (APDU date-time written before the element loop, bare bodies never read the APDU); R5 OBIS-tagged layout naming,
manufacturer, shared grammars/normalisers and dispatch on the body type; wire types of the shared Field grammar.
"""
from __future__ import annotations

import ast

from sa.consir import EnumVal, Expr, N, World, routes
from sa.consteval import ConstEval, NotConstant
from sa.decoders import naming_verdict, parse_targets, scaling_idiom, setitems, wire_type_findings
from sa.model import Model
from sa.paths import Engine, loop_body_paths, show_sv, strip_epoch
from sa.report import Undecided
from sa.sveval import CannotEval, ev

LEVEL = "other"
MOD = "kaifa"
V, I, T = "list_ver_id", "meter_id", "meter_type"
P = ["active_power_import", "active_power_export", "reactive_power_import", "reactive_power_export"]
IL, UL = ["current_l1", "current_l2", "current_l3"], ["voltage_l1", "voltage_l2", "voltage_l3"]
TOT = ["meter_datetime", "active_power_import_total", "active_power_export_total", "reactive_power_import_total", "reactive_power_export_total"]
L9 = [V, I, T] + P + [IL[0], UL[0]]
L13 = [V, I, T] + P + IL + UL
LAYOUTS = {1: [P[0]], 9: L9, 13: L13, 14: L9 + TOT, 18: L13 + TOT}
SCALE = {**{k: -3 for k in IL}, **{k: -1 for k in UL}}


def check(src, rep):
    M = Model(src)
    ce = ConstEval(M)
    w = World(src)
    file = src.file(MOD)
    rep.count("modules", len(src.text))
    rep.assumptions += ["Norwegian HAN (NVE/NEK) Kaifa list layouts as summarised in the property (DESIGN.md A.3)",
                        "float lemma: for 0 <= v < 2^32 and s in {1,3}, round(v * 10**-s, s) is the correctly rounded v / 10**s"]
    rep.explanation = ("Decided: the five positional name lists (constant-evaluated) equal the documented layouts, are selected by list length and indexed by the array position; for every layout x "
                       "position and every OBIS name the extracted scale expression yields 10^-3 for currents, 10^-1 for voltages and no scaling otherwise; the stored value uses an exact-scaling idiom "
                       "(round(v*10**s, -s) or division) on integers only; the APDU date-time is written before the element loop so the list's own clock wins, bare bodies never read the APDU; the OBIS "
                       "layout names fields through obis_name_map; manufacturer 'Kaifa'; frame and body share grammars/normalisers and the dispatch on the body type matches. "
                       "NOT decided: the float lemma and acceptance of every well-formed list.")
    # ---------------------------------------------------------------- R1 layouts
    from sa.decoders import normaliser_workers as _nw
    _ws = _nw(M, MOD)
    _fnv = next((f for f in _ws if any(isinstance(n, ast.Attribute) and n.attr == "index" for n in ast.walk(f.node))), None)
    LISTS = None
    if _fnv is not None:
        for n in ast.walk(_fnv.node):
            if isinstance(n, ast.GeneratorExp) and isinstance(n.generators[0].iter, ast.Name):
                LISTS = n.generators[0].iter.id
    rep.require(LISTS is not None, "cannot find the table of positional layouts consulted by the positional normaliser")
    try:
        lists = ce.module_value(MOD, LISTS)
    except NotConstant as e:
        raise Undecided(f"kaifa.{LISTS} is not a constant: {e}")
    bad = 0
    got = {}
    for l in lists:
        if len(l) in got:
            bad += 1
            rep.violation("R1", f"kaifa.{LISTS}", f"duplicate-length:{len(l)}", "two positional layouts have the same length (selection by length is ambiguous)", file, 1)
        got[len(l)] = list(l)
    for n, want in LAYOUTS.items():
        if n not in got:
            bad += 1
            rep.violation("R1", f"kaifa.{LISTS}", f"layout:{n}", f"the documented {n}-element layout is missing", file, 1)
        elif got[n] != want:
            i = next(k for k in range(n) if got[n][k] != want[k])
            bad += 1
            rep.violation("R1", f"kaifa.{LISTS}", f"layout:{n}", f"the {n}-element layout differs from the documented order at position {i}: {got[n][i]!r} instead of {want[i]!r}", file, 1,
                          witness=str(got[n]))
    for n in got:
        if n not in LAYOUTS:
            bad += 1
            rep.violation("R1", f"kaifa.{LISTS}", f"layout:{n}", f"an undocumented {n}-element layout is accepted", file, 1)
    if not bad:
        rep.ok("R1", "positional layouts", "five lists of 1, 9, 13, 14, 18 names equal the documented layouts (E-CONST evaluation of the slicing/concatenation)")
    rep.count("layouts", len(got))
    from sa.decoders import normaliser_workers
    ws = normaliser_workers(M, MOD)
    fnv = next((f for f in ws if any(isinstance(n, ast.Attribute) and n.attr == "index" for n in ast.walk(f.node))), None)
    fno = next((f for f in ws if f is not fnv and any(isinstance(n, ast.Attribute) and n.attr == "obis" for n in ast.walk(f.node))), None)
    rep.require(fnv is not None and fno is not None, f"cannot find the positional and the OBIS-tagged normaliser from the public normalize_* functions (found {[w.name for w in ws]})")
    # selection by length
    sel = None
    for n in ast.walk(fnv.node):
        if isinstance(n, ast.Call) and isinstance(n.func, ast.Name) and n.func.id == "next" and n.args and isinstance(n.args[0], ast.GeneratorExp):
            sel = n
    oks = False
    if sel is not None:
        g = sel.args[0]
        gen = g.generators[0]
        if isinstance(gen.iter, ast.Name) and gen.iter.id == LISTS and len(gen.ifs) == 1 and isinstance(gen.ifs[0], ast.Compare) and isinstance(gen.ifs[0].ops[0], ast.Eq):
            sides = {ast.unparse(gen.ifs[0].left), ast.unparse(gen.ifs[0].comparators[0])}
            oks = sides == {f"len({gen.target.id})", "len(list_items)"} and isinstance(g.elt, ast.Name) and g.elt.id == gen.target.id
    if oks:
        rep.ok("R1", "layout selection", "the layout whose length equals the number of list items")
    else:
        rep.violation("R1", f"kaifa.{fnv.name}", "layout-selection", "the positional layout is not selected by len(layout) == len(list items)", file, fnv.node.lineno)
    m = w.module(MOD)
    ve = m.env.get("NotificationBodyValueElements")
    rep.require(isinstance(ve, N), "kaifa.NotificationBodyValueElements not extracted")
    arr = next((s for s in ve.a["subs"] if isinstance(s, N) and s.name == "list_items"), None)
    idx_ok = False
    if arr is not None and arr.kind == "Array" and isinstance(arr.a["sub"], N) and arr.a["sub"].kind == "Struct":
        ix = next((s for s in arr.a["sub"].a["subs"] if isinstance(s, N) and s.name == "index"), None)
        idx_ok = ix is not None and ix.kind == "Computed" and isinstance(ix.a["expr"], Expr) and ix.a["expr"].src.replace("construct.", "") == "this._index"
    if idx_ok:
        rep.ok("R1", "element position", "each element's index is the array index (Computed(this._index))")
    else:
        rep.violation("R1", "kaifa.NotificationBodyValueElements", "element-index", "an element's position is not its array index", file, ve.line or 1)
    # ---------------------------------------------------------------- R2/R3: value normaliser, per layout x position
    SCAL = None
    for n in ast.walk(fnv.node):
        if isinstance(n, ast.Call) and isinstance(n.func, ast.Attribute) and n.func.attr == "get" and isinstance(n.func.value, ast.Name):
            SCAL = n.func.value.id
    try:
        table = ce.module_value(MOD, SCAL) if SCAL else None
    except NotConstant:
        table = None
    modenv = {}
    for k, v in ce.module_env(MOD).items():
        if isinstance(v, (dict, list, int, str)):
            modenv[("g", k)] = v
    E = Engine(M)
    node, ps = loop_body_paths(E, fnv)
    item = None
    for p in ps:
        for g, _, _ in p.guards:
            pass
    # the loop variable
    item = ("iter", ("g", "list_items"), node.lineno) if isinstance(node.iter, ast.Name) else None
    rep.require(item is not None, "value-elements loop is not `for x in <local list>`")
    cells = 0
    badv = 0
    for n, names in got.items():
        for pos, name in enumerate(names):
            env = dict(modenv)
            env[("g", "current_list_names")] = names
            env[("f0", item, "index")] = pos
            hits = []
            for p in ps:
                ok = True
                unknown = False
                for g, pol, _ in p.guards:
                    gs = strip_epoch(g)
                    if gs[0] == "call" and gs[1] in ("hasattr", "isinstance"):
                        continue  # depends on the element's value kind, not on the position
                    try:
                        if bool(_ev(gs, env)) != pol:
                            ok = False
                            break
                    except CannotEval:
                        unknown = True
                if ok:
                    hits.append(p)
            want_s = SCALE.get(name)
            for p in hits:
                kinds = {}
                for g, pol, _ in p.guards:
                    gs = strip_epoch(g)
                    if gs[0] == "call" and gs[1] == "isinstance" and "int" in show_sv(gs[2][1]):
                        kinds["int"] = pol
                    if gs[0] == "call" and gs[1] == "hasattr":
                        kinds["dt"] = pol
                if p.status == "raise":
                    continue
                st = setitems(p)
                if len(st) != 1:
                    continue
                key, value, line = st[0]
                cells += 1
                try:
                    k = _ev(key, env)
                except CannotEval:
                    k = None
                if k != name and badv < 4:
                    badv += 1
                    rep.violation("R1", f"kaifa.{fnv.name}", f"field-name:{n}:{pos}", f"position {pos} of the {n}-element list is stored under {k!r} instead of {name!r}", file, line)
                vsv = ("f0", item, "value")
                if name == "meter_datetime":
                    if value != ("f0", vsv, "datetime") and badv < 4:
                        badv += 1
                        rep.violation("R4", f"kaifa.{fnv.name}", "list-clock", "the list's own clock element is not stored as the decoded datetime", file, line, witness=show_sv(value)[:80])
                    continue
                if kinds.get("int") is False:
                    if value != vsv and badv < 4:
                        badv += 1
                        rep.violation("R5", f"kaifa.{fnv.name}", "text-not-verbatim", "a non-integer value is transformed before it is stored", file, line)
                    continue
                # integer value: find the exponent used
                s_used = _scale_used(value, vsv, env)
                if s_used == "unknown":
                    rep.undecide(f"R3 stored value expression outside the idiom catalogue: {show_sv(value)[:100]}")
                    continue
                kind, s_val = s_used
                if (want_s or 0) != (s_val or 0) and badv < 4:
                    badv += 1
                    rep.violation("R2", f"kaifa.{fnv.name}", f"scaling:{name}", f"field {name!r} (position {pos} of the {n}-element list) is scaled by 10^{s_val or 0} instead of 10^{want_s or 0}",
                                  file, line, witness=f"layout {n}, position {pos}")
                elif want_s and kind not in ("round-mult", "div", "decimal") and badv < 4:
                    badv += 1
                    rep.violation("R3", f"kaifa.{fnv.name}", f"inexact:{name}", "a negative power of ten is applied by multiplication without rounding to the exponent's number of digits "
                                  "(binary approximation of 10^-n, or digits lost)", file, line, witness=show_sv(value)[:100])
    rep.count("layout_cells", cells)
    if not badv and cells:
        rep.ok("R2", f"{cells} layout x position cells", "each position is stored under its documented name; currents scaled 10^-3, voltages 10^-1, everything else unscaled")
        rep.ok("R3", "scaling idiom", "round(v * 10**s, abs(s)) on integers only (exact for 32-bit registers by the float lemma); other values stored as parsed")
    if table is not None and table != SCALE:
        rep.violation("R2", f"kaifa.{SCAL}", "scaling-table", "the scaling table differs from currents -3 / voltages -1 / nothing else", file, 1, witness=str(table))
    # ---------------------------------------------------------------- OBIS normaliser
    node2, ps2 = loop_body_paths(Engine(M), fno)
    item2 = ("iter", ("g", "list_items"), node2.lineno)
    bado = 0
    n2 = 0
    try:
        onm = ce.module_value("obis_map", "obis_name_map")
    except NotConstant:
        onm = {}
    for p in ps2:
        if p.status == "raise":
            continue
        st = setitems(p)
        if len(st) != 1:
            continue
        key, value, line = st[0]
        n2 += 1
        nv = naming_verdict(key, p.guards, item2)
        if nv:
            bado += 1
            rep.violation("R5", f"kaifa.{fno.name}", "naming", nv, file, line)
    # scale per known name
    vsv2 = ("f0", item2, "value")
    for code, name in sorted(onm.items()):
        for p in ps2:
            in_map = None
            kinds = {}
            scale_lit = None
            for g, pol, _ in p.guards:
                gs = strip_epoch(g)
                if gs[0] == "cmp" and gs[1] == "In":
                    in_map = pol
                if gs[0] == "call" and gs[1] == "isinstance":
                    kinds["int"] = pol
                if gs[0] == "call" and gs[1] == "hasattr":
                    kinds["dt"] = pol
            if in_map is not True or kinds.get("dt") is not False or kinds.get("int") is False:
                continue
            st = setitems(p)
            if len(st) != 1:
                continue
            key, value, line = st[0]
            env = dict(modenv)
            env[key] = name  # the key expression evaluates to this name
            # substitute: obis_name_map[cdr] -> name
            s_used = _scale_used(_subst(value, key, ("c", name)), vsv2, env, guards=[(_subst(strip_epoch(g), key, ("c", name)), pol) for g, pol, _ in p.guards])
            if s_used in ("unknown", "infeasible"):
                continue
            kind, s_val = s_used
            want_s = SCALE.get(name)
            if (want_s or 0) != (s_val or 0):
                bado += 1
                rep.violation("R2", f"kaifa.{fno.name}", f"scaling:{name}", f"field {name!r} is scaled by 10^{s_val or 0} instead of 10^{want_s or 0} in the OBIS-tagged layout", file, line)
            elif want_s and kind not in ("round-mult", "div", "decimal"):
                bado += 1
                rep.violation("R3", f"kaifa.{fno.name}", f"inexact:{name}", "a negative power of ten is applied by multiplication without rounding", file, line)
    if not bado and n2:
        rep.ok("R5", f"OBIS-tagged layout ({n2} paths)", "names through obis_name_map with membership test; same scaling table and idiom as the positional layout; clock element stored as datetime")
    # ---------------------------------------------------------------- R4 clock precedence
    body = [s for s in fnv.node.body]
    loop_i = next((i for i, s in enumerate(body) if isinstance(s, ast.For)), None)
    apdu = [(i, s) for i, s in enumerate(body) for n in ast.walk(s) if isinstance(n, ast.Attribute) and n.attr == "datetime" and "DateTime" in ast.unparse(n) and "information" in ast.unparse(n)]
    after = [i for i, s in apdu if loop_i is not None and i > loop_i]
    late_names = set()
    if loop_i is not None:
        for s in body[loop_i + 1:]:
            for n in ast.walk(s):
                if isinstance(n, ast.Assign) and isinstance(n.targets[0], ast.Subscript) and "METER_DATETIME" in ast.unparse(n.targets[0]):
                    late_names.add(n.lineno)
    if after or late_names:
        rep.violation("R4", f"kaifa.{fnv.name}", "clock-precedence", "the APDU date-time is written after the element loop, so it overrides the list's own clock element", file,
                      (body[after[0]].lineno if after else min(late_names)))
    elif apdu:
        # guarded by the presence of the frame wrapper
        guarded = all(any(isinstance(a, ast.If) and "information" in ast.unparse(a.test) for a in _ancestors(fnv.node, s)) or isinstance(s, ast.If) for i, s in apdu)
        rep.ok("R4", "clock precedence", "the APDU date-time is stored before the element loop (the list's clock element, written in the loop, wins); only when the frame wrapper is present")
    else:
        rep.violation("R4", f"kaifa.{fnv.name}", "apdu-clock-missing", "frames in the positional layout never get the APDU date-time as meter clock", file, fnv.node.lineno)
    # ---------------------------------------------------------------- R5 rest: manufacturer, dispatch, shared grammars, wire types
    for fn in (fnv, fno):
        okm = any(isinstance(d, ast.Dict) and any(isinstance(v, ast.Constant) and v.value == "Kaifa" for v in d.values) for d in ast.walk(fn.node))
        if not okm:
            rep.violation("R5", f"kaifa.{fn.name}", "manufacturer", "the manufacturer field is not the constant 'Kaifa'", file, fn.node.lineno)
    disp_ok = True
    for fname in ("normalize_parsed_frame", "normalize_parsed_notification"):
        fn = M.funcs.get(f"kaifa.{fname}")
        if fn is None:
            disp_ok = False
            continue
        pairs = []
        for n in ast.walk(fn.node):
            if isinstance(n, ast.If) and isinstance(n.test, ast.Compare):
                t = ast.unparse(n.test)
                call = [ast.unparse(c.func) for c in ast.walk(n) if isinstance(c, ast.Call) and ast.unparse(c.func) in (fnv.name, fno.name)]
                pairs.append((t.split(".")[-1], call[0] if call else None))
        want = {("VALUE_ELEMENTS", fnv.name), ("OBIS_ELEMENTS", fno.name)}
        if set(pairs) != want:
            disp_ok = False
            rep.violation("R5", f"kaifa.{fname}", "dispatch", "the body type is not dispatched to its own normaliser", file, fn.node.lineno, witness=str(pairs))
    # type constants in the two grammars
    oe = m.env.get("NotificationBodyObisElements")
    for g, want in ((ve, "VALUE_ELEMENTS"), (oe, "OBIS_ELEMENTS")):
        t = next((s for s in g.a["subs"] if isinstance(s, N) and s.name == "type"), None) if isinstance(g, N) else None
        if t is None or want not in (t.a["expr"].src if isinstance(t.a.get("expr"), Expr) else ""):
            disp_ok = False
            rep.violation("R5", "kaifa", f"body-type:{want}", "a body grammar does not tag itself with its own type", file, 1)
    frame, bodyg = m.env.get("LlcPdu"), m.env.get("NotificationBody")
    shared = isinstance(frame, N) and isinstance(bodyg, N) and list(routes(frame, ve)) and list(routes(frame, oe)) and list(routes(bodyg, ve)) and list(routes(bodyg, oe))
    tg = parse_targets(M, MOD)
    if disp_ok and shared and tg == {"decode_frame_content": "LlcPdu", "decode_notification_body": "NotificationBody"}:
        rep.ok("R5", "dispatch / shared grammars", "frame and body alternatives wrap the same two body grammars; each body type reaches its own normaliser; manufacturer 'Kaifa'")
    elif not shared:
        rep.violation("R5", "kaifa", "frame-body", "frame and bare-body grammars do not share the body grammars", file, 1)
    wt, n_wt = wire_type_findings(w, ["cosem", MOD])
    for kind, mod, where, text, line in wt:
        rep.violation("R5", f"{mod}.{where.split(':')[0]}", f"wire-type:{where}", text, src.file(mod), line)
    if not wt:
        rep.ok("R5", f"{n_wt} tagged integer declarations", "32-bit registers parsed unsigned big-endian (Blue Book table 2)")
    from sa.cross import include
    include(rep, src, "C10", {"R1", "R2", "R3", "R4", "R5"}, "R4", "the meter clock (APDU date-time or the list's own clock element) is the transmitted date-time")
    rep.floor("layout cells", cells, 40)


def _ancestors(root, node):
    parents = {c: p for p in ast.walk(root) for c in ast.iter_child_nodes(p)}
    out = []
    while node in parents:
        node = parents[node]
        out.append(node)
    return out


def _subst(sv, old, new):
    if sv == old:
        return new
    if isinstance(sv, tuple):
        return tuple(_subst(x, old, new) for x in sv)
    return sv


def _ev(sv, env):
    """sveval with dict.get support"""
    if isinstance(sv, tuple) and sv and sv[0] == "call" and isinstance(sv[1], str) and sv[1].endswith(".get") and len(sv[2]) >= 2:
        d = _ev(sv[2][0], env)
        k = _ev(sv[2][1], env)
        dflt = _ev(sv[2][2], env) if len(sv[2]) > 2 else None
        if not isinstance(d, dict):
            raise CannotEval("get on non-dict")
        return d.get(k, dflt)
    if isinstance(sv, tuple) and sv and sv[0] == "call" and sv[1] == "abs":
        return abs(_ev(sv[2][0], env))
    if isinstance(sv, tuple) and sv and sv[0] == "g" and sv in env:
        return env[sv]
    if isinstance(sv, tuple) and sv and sv[0] == "cmp" and sv[1] in ("In", "NotIn"):
        a, b = _ev(sv[2], env), _ev(sv[3], env)
        r = a in b
        return r if sv[1] == "In" else not r
    if isinstance(sv, tuple) and sv and sv[0] in ("cmp", "sub", "op", "not", "bool", "ite"):
        # evaluate children with this function so that nested .get calls work
        t = sv[0]
        if t == "cmp":
            a, b = _ev(sv[2], env), _ev(sv[3], env)
            return ev(("cmp", sv[1], ("c", a), ("c", b)), {})
        if t == "sub":
            return _ev(sv[1], env)[_ev(sv[2], env)]
        if t == "op":
            return ev(("op", sv[1], ("c", _ev(sv[2], env)), ("c", _ev(sv[3], env))), {})
        if t == "not":
            return not _ev(sv[1], env)
    return ev(sv, env)


def _scale_used(value, v, env, guards=None):
    """(idiom kind, exponent) applied to the wire integer v by the stored value expression; 'unknown' if outside the catalogue"""
    if guards is not None:
        for g, pol in guards:
            if g[0] == "call" and g[1] in ("hasattr", "isinstance"):
                continue
            if g[0] == "cmp" and g[1] == "In":
                continue
            try:
                if bool(_ev(g, env)) != pol:
                    return "infeasible"
            except (CannotEval, KeyError, TypeError):
                pass
    if value == v:
        return ("identity", None)
    # find the exponent sub-expression: the operand of 10 ** <s>
    cands = []

    def rec(sv):
        if isinstance(sv, tuple):
            if sv and sv[0] == "op" and sv[1] == "Pow" and sv[2] == ("c", 10):
                cands.append(sv[3])
            for x in sv:
                rec(x)
    rec(value)
    for s in cands:
        base = s
        if base[0] == "un" and base[1] == "USub":
            base = base[2]
        kind, okneg, okpos = scaling_idiom(value, v, base)
        if kind != "other":
            try:
                sval = _ev(base, env)
            except (CannotEval, KeyError, TypeError):
                return "unknown"
            return (kind, sval)
    return "unknown"


def thorough(src, rep):
    from sa.selfval.harness import run_selfval
    run_selfval("C08", src, rep)
