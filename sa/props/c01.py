"""C01 - HDLC: a frame is reported valid exactly when it is intact, with exact fields (level: other).

R1 validity = FCS and length (truth table); R2 the running register covers exactly the frame octets; R3 length test and
bit-field geometry (E-BITLIN on the accessor expressions); R4 accessor geometry (linear forms of the index expressions,
address-scan step); R5 frames are made of stream octets, once, in order; R6 an emitted frame is frozen.
"""
from __future__ import annotations

import ast

from sa.bitlin import BV, Vars
from sa.hdlcmodel import FRAME, MOD, SELF, HdlcModel
from sa.hdlcref import appended_values, buffer_contracts, conformance, frozen_after_emit
from sa.paths import Engine, loop_body_paths, show_path, show_sv
from sa.props.c02 import emit
from sa.props.c03 import census_writes
from sa.report import Undecided

LEVEL = "other"
HEADER = (MOD, "HdlcFrameHeader")


# ------------------------------------------------------------------ helpers on symbolic values
def eval_bool(sv, val):
    """evaluate a boolean SV under a valuation {atom sv: bool}; None if it mentions an unknown atom"""
    if sv in val:
        return val[sv]
    t = sv[0]
    if t == "c":
        return bool(sv[1])
    if t == "not":
        r = eval_bool(sv[1], val)
        return None if r is None else not r
    if t == "bool":
        rs = [eval_bool(x, val) for x in sv[2]]
        if sv[1] == "and":
            if any(r is False for r in rs):
                return False
            return None if any(r is None for r in rs) else True
        if any(r is True for r in rs):
            return True
        return None if any(r is None for r in rs) else False
    if t == "ite":
        c = eval_bool(sv[1], val)
        if c is None:
            return None
        return eval_bool(sv[2] if c else sv[3], val)
    if t == "cmp" and sv[1] in ("Eq", "Is") and sv[3][0] == "c" and isinstance(sv[3][1], bool):
        r = eval_bool(sv[2], val)
        return None if r is None else (r == sv[3][1])
    return None


class SvBits:
    """SV expression over frame octets -> affine bit-vector (octet reads become fresh 8-bit variables, keyed by the read)"""

    def __init__(self):
        self.vars = Vars()
        self.octets = {}

    def octet(self, key):
        if key not in self.octets:
            self.octets[key] = self.vars.fresh("o", 8)
        return self.octets[key]

    def bv(self, sv, sub=None):
        t = sv[0]
        if sub and sv in sub:
            return sub[sv]
        if t == "c" and isinstance(sv[1], int) and not isinstance(sv[1], bool):
            return BV.const(sv[1])
        if t == "sub":
            return self.octet((strip_ver(sv[1]), strip_ver(sv[2])))
        if t == "op":
            a, b = self.bv(sv[2], sub), self.bv(sv[3], sub)
            if a is None or b is None:
                return None
            try:
                if sv[1] == "BitOr":
                    return a.or_(b)
                if sv[1] == "BitAnd":
                    return a.and_(b)
                if sv[1] == "BitXor":
                    return a ^ b
                if sv[1] == "LShift":
                    return a.shl(b.value())
                if sv[1] == "RShift":
                    return a.shr(b.value())
            except Exception:
                return None
        return None


def strip_ver(sv):
    """drop version counters of prop/len terms so that the same read gives the same key"""
    if not isinstance(sv, tuple):
        return sv
    if sv and sv[0] == "prop" and len(sv) == 4:
        return ("prop", strip_ver(sv[1]), sv[2])
    if sv and sv[0] == "len" and len(sv) == 3:
        return ("len", strip_ver(sv[1]))
    return tuple(strip_ver(x) for x in sv)


def linear(sv):
    """SV integer expression -> {term: coeff, 1: const} or None"""
    sv = strip_ver(sv)
    t = sv[0]
    if t == "c" and isinstance(sv[1], int) and not isinstance(sv[1], bool):
        return {1: sv[1]} if sv[1] else {}
    if t == "op" and sv[1] in ("Add", "Sub"):
        a, b = linear(sv[2]), linear(sv[3])
        if a is None or b is None:
            return None
        sg = 1 if sv[1] == "Add" else -1
        d = dict(a)
        for k, v in b.items():
            d[k] = d.get(k, 0) + sg * v
        return {k: v for k, v in d.items() if v}
    if t == "call" and sv[1] == "cast" and len(sv[2]) == 2:
        return linear(sv[2][1])
    return {sv: 1}


def ret_paths(ps):
    return [p for p in ps if p.status == "return"]


def check(src, rep):
    m = HdlcModel(src)
    M = m.M
    file = m.file
    rep.count("modules", len(src.text))
    for k in (FRAME, HEADER):
        rep.require(k in M.classes, f"anchor vanished: {k}")
    F, H = M.classes[FRAME], M.classes[HEADER]
    rep.assumptions += ["ISO/IEC 13239 frame layout as stated in the property (format field 2 octets, extended addresses end at the first octet with LSB 1)",
                        "C03 (the FCS register implements RFC 1662) - checked separately",
                        "reference automaton rows in sa/hdlcref.py"]
    rep.explanation = ("Decided: is_valid is exactly `good FCS and expected length` (truth table); HdlcFrame.append feeds each octet once to the frame store and to a "
                       "fresh FCS register that nothing else writes; bit-fields of the format field and all accessor index expressions equal the ISO 13239 layout "
                       "(affine bit-vector / linear-form comparison); frames are built from popped octets once and in order and an emitted frame is frozen. "
                       "NOT decided: the end-to-end statement over all streams and chunkings (argument in DESIGN.md §3/C06).")

    # ---------------------------------------------------------------- R1: validity truth table
    rep.require("is_valid" in F.methods, "anchor vanished: HdlcFrame.is_valid")
    fn = F.methods["is_valid"]
    E = Engine(M, keep_props={"is_good_ffc", "is_expected_length"})
    ps = E.run(fn)
    G = ("prop", SELF, "is_good_ffc", 0)
    L = ("prop", SELF, "is_expected_length", 0)
    bad = 0
    cells = 0
    for g in (False, True):
        for l in (False, True):
            val = {G: g, L: l}
            outs = set()
            for p in ps:
                ok = True
                for a, pol, _ in p.guards:
                    r = eval_bool(a, val)
                    if r is not None and r != pol:
                        ok = False
                        break
                if not ok:
                    continue
                if p.status != "return":
                    outs.add(("raise", None))
                    continue
                r = eval_bool(p.ret, val) if p.ret is not None else None
                outs.add(("ret", r if p.ret is None or p.ret[0] != "c" else p.ret[1]))
            cells += 1
            want = g and l
            if outs != {("ret", want)}:
                bad += 1
                got = sorted(str(o[1]) for o in outs)
                if any(o[1] is None for o in outs) and not any(o[1] is (not want) for o in outs):
                    rep.undecide(f"R1 is_valid result for (good_fcs={g}, expected_length={l}) depends on an unrecognised condition")
                else:
                    rep.violation("R1", "hdlc.HdlcFrame.is_valid", "truth-table", f"is_valid is not `good FCS and expected length`: for good_fcs={g}, expected_length={l} it returns {got} instead of {want}",
                                  file, fn.node.lineno, witness=f"good_fcs={g} expected_length={l}")
    side = [e for p in ps for e in p.effects if e[0] in ("write", "mutate", "callm", "setitem")]
    if side:
        rep.violation("R1", "hdlc.HdlcFrame.is_valid", "side-effect", "is_valid modifies state", file, fn.node.lineno, witness=str(side[0][:3]))
    if not bad and not side:
        rep.ok("R1", "HdlcFrame.is_valid", f"truth table over (good FCS, expected length): {cells} cells equal the conjunction, returns exactly True/False, no side effects")
    rep.count("truth_table_cells", cells)

    # ---------------------------------------------------------------- R2: register covers exactly the frame octets
    app = F.methods.get("append")
    rep.require(app is not None, "anchor vanished: HdlcFrame.append")
    # roles: octet store = the field __len__ measures; register = the field is_good_ffc reads
    lenfn = F.methods.get("__len__")
    store = None
    if lenfn:
        for n in ast.walk(lenfn.node):
            if isinstance(n, ast.Attribute) and isinstance(n.value, ast.Name) and n.value.id == "self":
                store = n.attr
    gfn = F.methods.get("is_good_ffc")
    regf = None
    if gfn:
        psg = Engine(M, keep_props={"is_good"}).run(gfn)
        if len(psg) == 1 and psg[0].ret and psg[0].ret[0] == "prop" and psg[0].ret[2] == "is_good" and psg[0].ret[1][0] == "f0":
            regf = psg[0].ret[1][2]
    rep.require(store and regf, "cannot bind the frame's octet store / FCS register fields")
    ft = F.field_types.get(regf)
    init = F.field_inits.get(regf)
    if ft == ("fastframecheck", "FastFrameCheckSequence16") and isinstance(init, ast.Call) and not init.args:
        rep.ok("R2", "FCS register", f"`{regf}` is a FastFrameCheckSequence16 created fresh in HdlcFrame.__init__; is_good_ffc reads its is_good")
    else:
        rep.violation("R2", "hdlc.HdlcFrame.__init__", "register-type", "the frame's FCS register is not a fresh FastFrameCheckSequence16", file, F.node.lineno)
    sinit = F.field_inits.get(store)
    if not (isinstance(sinit, ast.Call) and isinstance(sinit.func, ast.Name) and sinit.func.id == "bytearray" and not sinit.args):
        rep.violation("R2", "hdlc.HdlcFrame.__init__", "store-init", "the frame's octet store does not start empty", file, F.node.lineno)
    pa = Engine(M).run(app)
    byte = ("p", app.params[0]) if app.params else None
    for p in pa:
        st = [e for e in p.effects if e[0] == "mutate" and e[1] == ("f0", SELF, store)]
        up = [e for e in p.effects if e[0] == "callm" and e[1] == ("f0", SELF, regf)]
        oth = [e for e in p.effects if e[0] in ("write", "mutate", "setitem") and e not in st]
        okp = (len(st) == 1 and st[0][2] == "append" and st[0][3] == (byte,) and len(up) == 1 and up[0][2].endswith(".update") and up[0][3] == (byte,) and not oth
               and p.status == "run")
        if okp:
            rep.ok("R2", "HdlcFrame.append path", "exactly one octet append to the frame store and exactly one register update with the same octet")
        else:
            what = []
            if len(st) != 1 or (st and st[0][3] != (byte,)):
                what.append(f"{len(st)} store append(s)" + (f" of {show_sv(st[0][3][0])}" if st and st[0][3] else ""))
            if len(up) != 1 or (up and up[0][3] != (byte,)):
                what.append(f"{len(up)} register update(s)" + (f" with {show_sv(up[0][3][0])}" if up and up[0][3] else ""))
            if oth:
                what.append(f"other mutation {oth[0][:3]}")
            rep.violation("R2", "hdlc.HdlcFrame.append", "octet-once", "append(b) does not add b exactly once to the frame store and feed the same b exactly once to the FCS register",
                          file, app.node.lineno, witness="; ".join(what) or p.status)
    writes = [w for w in census_writes(src, {store, regf}) if not (w[1][0] == MOD and w[1][1] == "HdlcFrame" and w[1][2] in ("__init__", "append"))]
    if writes:
        for name, (mm, c, f), line, kind in writes:
            rep.violation("R2", f"{mm}.{c}.{f}", f"{kind} {name}", "the frame's octet store / FCS register is modified outside HdlcFrame.__init__/append", src.file(mm), line)
    else:
        rep.ok("R2", f"write census over {len(src.text)} modules", f"no writer of `{store}` / `{regf}` outside HdlcFrame.__init__ and append")
    rep.count("write_census_fields", 2)

    # roles: the frame's header field (holds an HdlcFrameHeader) and the header's back-reference to its frame
    hdr_fields = [a for a, t in F.field_types.items() if t == HEADER]
    rep.require(len(hdr_fields) == 1, f"cannot bind the frame's header field: {hdr_fields}")
    back = [a for a, t in H.field_types.items() if t == FRAME]
    rep.require(len(back) == 1, f"cannot bind the header's frame field: {back}")
    roles = {"header": hdr_fields[0], "frame": back[0]}
    # ---------------------------------------------------------------- R3: length test and bit fields
    _bitfields(rep, M, F, H, file, store, roles)
    # ---------------------------------------------------------------- R4: accessor geometry
    _geometry(rep, M, F, H, file, store, roles)
    # ---------------------------------------------------------------- R5 / R6
    rules = {"octets": "R5", "buffer": "R5", "frozen": "R6", "result": "R5"}
    emit(rep, m, appended_values(m), rules)
    emit(rep, m, [r for r in buffer_contracts(m) if r.instance in ("pop", "trim-to-position", "trim-to-flag")], rules)
    emit(rep, m, frozen_after_emit(m), rules)
    emit(rep, m, [r for r in conformance(m) if r.instance in ("emit", "start")], {"row": "R5"})
    from sa.cross import include
    include(rep, src, "C16", {"R1"}, "R5", "the octets of a returned frame are the un-stuffed input between its two flags (no per-frame state of an earlier frame is applied to it)")
    rep.floor("accessors analysed", rep.analysed.get("accessors", 0), 9)
    rep.floor("appending rows", sum(1 for sp in m.paths if m.feasible(sp) and sp.post.appends), 4)


def _bitfields(rep, M, F, H, file, store, roles):
    sb = SvBits()
    E = Engine(M, keep_props={"frame_format", "frame_length"})
    # is_expected_length
    fn = F.methods.get("is_expected_length")
    rep.require(fn is not None, "anchor vanished: HdlcFrame.is_expected_length")
    ps = Engine(M, keep_props={"frame_length"}).run(fn)
    want_a = ("prop", ("f0", SELF, roles["header"]), "frame_length")
    ok = False
    if len(ps) == 1 and ps[0].ret and ps[0].ret[0] == "cmp" and ps[0].ret[1] == "Eq":
        a, b = strip_ver(ps[0].ret[2]), strip_ver(ps[0].ret[3])
        sides = {a, b}
        lens = {("len", ("f0", SELF, store)), ("len", SELF)}
        ok = any(s[0] == "prop" and s[2] == "frame_length" for s in sides) and bool(sides & lens)
    if ok:
        rep.ok("R3", "is_expected_length", "compares the header's frame_length with the octet count")
    else:
        rep.violation("R3", "hdlc.HdlcFrame.is_expected_length", "length-test", "is_expected_length is not `header.frame_length == number of octets`", file, fn.node.lineno,
                      witness=show_sv(ps[0].ret) if ps and ps[0].ret else None)
    rep.count("accessors", 1)
    # frame_format and sub-fields
    ff = H.methods.get("frame_format")
    rep.require(ff is not None, "anchor vanished: HdlcFrameHeader.frame_format")
    pf = ret_paths(Engine(M).run(ff))
    vals = [p for p in pf if p.ret != ("c", None)]
    o0 = o1 = None
    ffbv = None
    if len(vals) == 1:
        ffbv = sb.bv(vals[0].ret)
        keys = list(sb.octets)
        idx = sorted(k[1] for k in keys)
        if ffbv is not None and idx == [("c", 0), ("c", 1)]:
            o0 = sb.octets[[k for k in keys if k[1] == ("c", 0)][0]]
            o1 = sb.octets[[k for k in keys if k[1] == ("c", 1)][0]]
    if ffbv is not None and o0 is not None and ffbv == o0.shl(8).or_(o1):
        # availability guard: needs >= 2 octets
        g = [(strip_ver(a), pol) for a, pol, _ in vals[0].guards]
        need2 = any(a[0] == "cmp" and a[2][0] == "len" and ((a[1] == "Lt" and a[3] == ("c", 2) and not pol) or (a[1] == "LtE" and a[3] == ("c", 1) and not pol)) for a, pol in g)
        if need2:
            rep.ok("R3", "frame_format", "(octet0 << 8) | octet1 for symbolic octets (affine equality), available from 2 octets on")
        else:
            rep.violation("R3", "hdlc.HdlcFrameHeader.frame_format", "availability", "format field is read without requiring 2 octets", file, ff.node.lineno)
    else:
        rep.violation("R3", "hdlc.HdlcFrameHeader.frame_format", "format-field", "frame format is not (octet0 << 8) | octet1", file, ff.node.lineno,
                      witness=show_sv(vals[0].ret) if vals else None)
        ffbv = None
    rep.count("accessors", 1)
    FFK = ("prop", SELF, "frame_format", 0)
    full = Vars()
    f16 = full.fresh("format", 16)
    for name, want, desc in (("frame_length", f16.and_(BV.const(0x7FF)), "low 11 bits"),
                             ("frame_format_type", f16.shr(12).and_(BV.const(0xF)), "bits 12-15"),
                             ("segmentation", f16.shr(11).and_(BV.const(1)), "bit 11")):
        fn = H.methods.get(name)
        rep.require(fn is not None, f"anchor vanished: HdlcFrameHeader.{name}")
        ps2 = [p for p in ret_paths(Engine(M, keep_props={"frame_format"}).run(fn)) if p.ret != ("c", None)]
        rep.count("accessors", 1)
        got = None
        if len(ps2) == 1:
            r = ps2[0].ret
            if name == "segmentation" and r[0] == "cmp" and r[1] == "Eq" and r[3] == ("c", 1):
                r = r[2]
            elif name == "segmentation" and r[0] == "cmp" and r[1] == "Eq" and r[3] == ("c", 0):
                r = None
            s2 = SvBits()
            if r is not None:
                got = s2.bv(r, sub={FFK: f16, strip_ver(FFK): f16})
        if got is not None and got == want:
            rep.ok("R3", name, f"= {desc} of the format field, for a symbolic 16-bit field (affine equality)")
        else:
            rep.violation("R3", f"hdlc.HdlcFrameHeader.{name}", "bit-field", f"{name} is not the {desc} of the frame format field", file, fn.node.lineno,
                          witness=show_sv(ps2[0].ret) if ps2 else None)


def _geometry(rep, M, F, H, file, store, roles):
    AB = ("prop", ("f0", SELF, roles["frame"]), "as_bytes")
    LENF = ("len", ("f0", SELF, roles["frame"]))
    # ---- address scan step: the header method with a position parameter and a loop
    ga = next((f for n, f in H.methods.items() if f.params and f.kind == "method" and any(isinstance(x, ast.While) for x in ast.walk(f.node))), None)
    rep.require(ga is not None, "address scan helper not found")
    node, ps = loop_body_paths(Engine(M), ga)
    pos_param = ga.params[0]
    ok_scan = False
    why = ""
    # locals: index var, data var, accumulator
    body_assigns = {}
    for s in ga.node.body if not isinstance(ga.node.body[0], ast.Expr) else ga.node.body:
        pass
    rets = [p for p in ps if p.status == "return"]
    cont = [p for p in ps if p.status == "run"]
    if len(ps) == 3 and len(rets) == 2 and len(cont) == 1:
        none_p = [p for p in rets if p.ret == ("c", None)]
        val_p = [p for p in rets if p.ret != ("c", None)]
        if len(none_p) == 1 and len(val_p) == 1:
            vp, cp = val_p[0], cont[0]
            # terminating test: (data[i] & 1) == 1 true on return, false on continue
            def term_lit(p):
                for a, pol, _ in p.guards:
                    a = strip_ver(a)
                    if a[0] == "cmp" and a[1] == "Eq" and a[2][0] == "op" and a[2][1] == "BitAnd":
                        ops = {a[2][2], a[2][3]}
                        if ("c", 1) in ops and a[3] == ("c", 1):
                            other = (ops - {("c", 1)}).pop() if len(ops) == 2 else None
                            return other, pol
                        return ("bad-mask", a), pol
                    if a[0] == "op" and a[1] == "BitAnd" and ("c", 1) in (a[2], a[3]):
                        other = a[3] if a[2] == ("c", 1) else a[2]
                        return other, pol
                return None, None
            tv, tpol = term_lit(vp)
            cv, cpol = term_lit(cp)
            if isinstance(tv, tuple) and tv and tv[0] == "bad-mask":
                why = f"address terminator test is {show_sv(tv[1])}, not `octet & 0x01 == 0x01`"
            elif tv is None or cv is None or tpol is not True or cpol is not False or tv != cv:
                why = "cannot recognise the address terminator test"
            elif tv[0] != "sub":
                why = "terminator test is not on the scanned octet"
            else:
                idx = tv[2]
                app_v = [e for e in vp.effects if e[0] == "mutate" and e[2] == "append"]
                app_c = [e for e in cp.effects if e[0] == "mutate" and e[2] == "append"]
                inc = [st for st in ast.walk(node) if isinstance(st, ast.AugAssign) and isinstance(st.op, ast.Add) and isinstance(st.value, ast.Constant) and st.value.value == 1]
                bound = any(strip_ver(a)[0] == "cmp" and strip_ver(a)[2] == idx and strip_ver(a)[3] in (LENF, ("len", AB)) for a, pol, _ in none_p[0].guards)
                if len(app_v) == 1 and len(app_c) == 1 and strip_ver(app_v[0][3][0]) == tv and strip_ver(app_c[0][3][0]) == tv and len(inc) == 1 and bound:
                    ok_scan = True
                else:
                    why = "scan step is not: stop with None at the frame end; append octet; return at LSB 1; else advance by one"
    else:
        why = f"address scan loop has {len(ps)} step paths instead of 3 (end-of-frame / terminator / continue)"
    # start index of the scan = the position parameter, data = frame octets
    src_txt = ast.unparse(ga.node)
    start_ok = any(isinstance(s, ast.Assign) and isinstance(s.value, ast.Name) and s.value.id == pos_param for s in ast.walk(ga.node))
    if ok_scan and start_ok:
        rep.ok("R4", "address scan", "starts at the given position, collects octets up to and including the first one with low bit 1, None if the frame ends first (3 step paths)")
    elif why.startswith("address terminator") or why.startswith("scan step"):
        rep.violation("R4", f"hdlc.HdlcFrameHeader.{ga.name}", "address-scan", why, file, ga.node.lineno)
    else:
        rep.undecide(f"R4 address scan: {why or 'start index not the position parameter'}")
    rep.count("accessors", 1)

    def call_pos(fn):
        """argument (linear form) with which a header property calls the address scan, on its non-None path"""
        outs = []
        for n in ast.walk(fn.node):
            if isinstance(n, ast.Call) and isinstance(n.func, ast.Attribute) and n.func.attr == ga.name and n.args:
                outs.append(n.args[0])
        return outs

    E = Engine(M, keep_props={"destination_address", "source_address"})
    dst, srcp = H.methods.get("destination_address"), H.methods.get("source_address")
    rep.require(dst is not None and srcp is not None, "anchor vanished: destination_address / source_address")
    DST = ("prop", SELF, "destination_address")
    SRC = ("prop", SELF, "source_address")

    def arg_linear(fn, argnode):
        fr = E.frame(fn, SELF, [], None)
        from sa.paths import Path
        p = Path()
        # evaluate preceding simple assignments (e.g. destination_adr = self.destination_address)
        for s in fn.node.body:
            if isinstance(s, ast.Assign) and len(s.targets) == 1 and isinstance(s.targets[0], ast.Name):
                try:
                    E.assign(s.targets[0], E.ev(s.value, p, fr), p, fr, s.lineno)
                except Exception:
                    pass
        return linear(E.ev(argnode, p, fr))

    for fn, want, name in ((dst, {1: 2}, "destination address starts at octet 2"), (srcp, {1: 2, ("len", DST): 1}, "source address follows the destination address")):
        args = call_pos(fn)
        rep.count("accessors", 1)
        if len(args) != 1:
            rep.undecide(f"R4 {fn.name}: does not call the address scan exactly once")
            continue
        got = arg_linear(fn, args[0])
        if got == want:
            rep.ok("R4", fn.name, name + " (linear form of the scan start)")
        else:
            rep.violation("R4", f"hdlc.HdlcFrameHeader.{fn.name}", "address-position", f"{name} is violated: scan starts at {fmt_lin(got)}", file, fn.node.lineno,
                          witness=f"expected {fmt_lin(want)}")
    # control position
    cpf = None
    cp_field = None
    upd = H.methods.get("update")
    if upd:
        for n in ast.walk(upd.node):
            if isinstance(n, ast.Assign) and isinstance(n.targets[0], ast.Attribute) and isinstance(n.value, ast.Call) and isinstance(n.value.func, ast.Attribute) \
                    and isinstance(n.value.func.value, ast.Name) and n.value.func.value.id == "self" and n.value.func.attr in H.methods and not n.value.args:
                cpf = H.methods[n.value.func.attr]
                cp_field = n.targets[0].attr
    rep.require(cpf is not None and cp_field is not None, "cannot bind the control-position field of the header")
    vals = [p for p in ret_paths(E.run(cpf)) if p.ret != ("c", None)]
    rep.count("accessors", 1)
    want = {1: 2, ("len", DST): 1, ("len", SRC): 1}
    if len(vals) == 1 and linear(vals[0].ret) == want:
        rep.ok("R4", "control position", "= 2 + len(destination) + len(source)")
    else:
        rep.violation("R4", f"hdlc.HdlcFrameHeader.{cpf.name}", "control-position", "control field position is not 2 + |destination| + |source|", file, cpf.node.lineno,
                      witness=fmt_lin(linear(vals[0].ret)) if vals else None)
    CP = ("f0", SELF, cp_field)
    # the control position is (re)computed on every append until it is known: update() assigns it on every path that enters with
    # an unknown position and more than 3 octets, and never overwrites a known one with something else
    pu = Engine(M, keep_props={"destination_address", "source_address"}).run(upd)
    bad_u = 0
    n_u = 0
    for p in pu:
        entry_none = None
        long_enough = None
        for g, pol, _ in p.guards:
            gs = strip_ver(g)
            if gs[0] == "cmp" and gs[1] == "Is" and gs[2] == CP and gs[3] == ("c", None):
                entry_none = pol if entry_none is None else entry_none
            if gs[0] == "cmp" and gs[2] == LENF and gs[3][0] == "c" and isinstance(gs[3][1], int):
                k = gs[3][1]
                if gs[1] == "LtE":
                    long_enough = (not pol) if k == 3 else ("odd", gs[1], k, pol)
                elif gs[1] == "Lt":
                    long_enough = (not pol) if k == 4 else ("odd", gs[1], k, pol)
                elif gs[1] == "Eq":
                    long_enough = ("odd", gs[1], k, pol)
        writes = [e for e in p.effects if e[0] == "write" and e[1] == SELF and e[2] == cp_field]
        if entry_none is True:
            n_u += 1
            if isinstance(long_enough, tuple):
                bad_u += 1
                rep.violation("R4", f"hdlc.HdlcFrameHeader.{upd.name}", "control-position-update", "the control-field position is only computed for one particular frame length: frames with extended (multi-octet) "
                              "addresses never get a control position, so control, HCS and payload stay unavailable", file, upd.node.lineno, witness=f"len(frame) {long_enough[1]} {long_enough[2]} is {long_enough[3]}")
            elif long_enough is True and not writes:
                bad_u += 1
                rep.violation("R4", f"hdlc.HdlcFrameHeader.{upd.name}", "control-position-update", "with more than 3 octets and an unknown control position update() does not compute it", file, upd.node.lineno)
        elif entry_none is False and writes:
            bad_u += 1
            rep.violation("R4", f"hdlc.HdlcFrameHeader.{upd.name}", "control-position-overwrite", "a known control position is overwritten", file, upd.node.lineno)
    if n_u and not bad_u:
        rep.ok("R4", "control position update", f"{n_u} path(s): while unknown it is recomputed on every append once more than 3 octets are present; a known position is never overwritten")
    rep.count("accessors", 1)

    def castless(sv):
        if isinstance(sv, tuple):
            if sv and sv[0] == "call" and sv[1] == "cast" and len(sv[2]) == 2:
                return castless(sv[2][1])
            return tuple(castless(x) for x in sv)
        return sv

    # control, HCS, information position
    for name, checker in (("control", lambda r: r[0] == "sub" and strip_ver(r[1]) == AB and linear(r[2]) == {CP: 1}),
                          ("information_position", lambda r: linear(r) == {CP: 1, 1: 3})):
        fn = H.methods.get(name)
        rep.require(fn is not None, f"anchor vanished: HdlcFrameHeader.{name}")
        vals = [p for p in ret_paths(Engine(M).run(fn)) if p.ret != ("c", None)]
        rep.count("accessors", 1)
        if len(vals) == 1 and checker(castless(vals[0].ret)):
            rep.ok("R4", name, "index expression equals the layout (control at the control position; information starts 3 octets later)")
        else:
            rep.violation("R4", f"hdlc.HdlcFrameHeader.{name}", "position", f"{name} does not follow the frame layout", file, fn.node.lineno, witness=show_sv(vals[0].ret) if vals else None)
    fn = H.methods.get("header_check_sequence")
    rep.require(fn is not None, "anchor vanished: header_check_sequence")
    vals = [p for p in ret_paths(Engine(M).run(fn)) if p.ret != ("c", None)]
    rep.count("accessors", 1)
    okh = False
    if len(vals) == 1:
        sb = SvBits()
        bv = sb.bv(castless(vals[0].ret))
        keys = {k: v for k, v in sb.octets.items()}
        lin = {tuple(sorted(((str(a), b) for a, b in (linear(k[1]) or {}).items()))): v for k, v in keys.items()}
        hi = next((v for k, v in keys.items() if linear(k[1]) == {CP: 1, 1: 1}), None)
        lo = next((v for k, v in keys.items() if linear(k[1]) == {CP: 1, 1: 2}), None)
        if bv is not None and hi is not None and lo is not None and bv == hi.shl(8).or_(lo):
            g = [(castless(strip_ver(a)), pol) for a, pol, _ in vals[0].guards]
            avail = any(a[0] == "cmp" and a[2] == LENF and ((a[1] == "LtE" and linear(a[3]) == {CP: 1, 1: 2} and not pol) or (a[1] == "Lt" and linear(a[3]) == {CP: 1, 1: 3} and not pol)) for a, pol in g)
            okh = avail
    if okh:
        rep.ok("R4", "header_check_sequence", "the two octets after the control field, high octet first; available once both are present")
    else:
        rep.violation("R4", "hdlc.HdlcFrameHeader.header_check_sequence", "hcs", "HCS is not (octet[control+1] << 8) | octet[control+2], available from control+3 octets on", file, fn.node.lineno,
                      witness=show_sv(vals[0].ret) if vals else None)
    # payload, FCS, as_bytes
    IP = ("prop", ("f0", SELF, roles["header"]), "information_position")
    ST = ("f0", SELF, store)
    fn = F.methods.get("payload")
    rep.require(fn is not None, "anchor vanished: HdlcFrame.payload")
    pp = ret_paths(Engine(M, keep_props={"information_position"}).run(fn))
    vals = [p for p in pp if p.ret != ("c", None)]
    rep.count("accessors", 1)
    okp = False
    wit = None
    if len(vals) == 1:
        r = strip_ver(vals[0].ret)
        wit = show_sv(vals[0].ret)
        if r[0] == "call" and r[1] == "bytes" and len(r[2]) == 1:
            r = r[2][0]
        if r[0] == "slice" and r[1] == ST and r[2] == IP and r[3] == ("c", -2):
            g = [(strip_ver(a), pol) for a, pol, _ in vals[0].guards]
            okp = any(a[0] == "cmp" and a[1] == "LtE" and a[2] == ("len", ST) and a[3] == IP and not pol for a, pol in g) or \
                any(a[0] == "cmp" and a[1] == "Lt" and a[2] == IP and a[3] == ("len", ST) and pol for a, pol in g)
    if okp:
        rep.ok("R4", "payload", "octets[information position : -2], only when the frame is longer than the information position")
    else:
        rep.violation("R4", "hdlc.HdlcFrame.payload", "payload-slice", "payload is not the octets between the header check sequence and the FCS", file, fn.node.lineno, witness=wit)
    fn = F.methods.get("frame_check_sequence")
    if fn is not None:
        vals = [p for p in ret_paths(Engine(M, keep_props={"information_position"}).run(fn)) if p.ret != ("c", None)]
        rep.count("accessors", 1)
        okf = False
        if len(vals) == 1:
            sb = SvBits()
            bv = sb.bv(vals[0].ret)
            hi = next((v for k, v in sb.octets.items() if k[0] == ST and linear(k[1]) in ({("len", ST): 1, 1: -2}, {1: -2})), None)
            lo = next((v for k, v in sb.octets.items() if k[0] == ST and linear(k[1]) in ({("len", ST): 1, 1: -1}, {1: -1})), None)
            okf = bv is not None and hi is not None and lo is not None and bv == hi.shl(8).or_(lo)
        if okf:
            rep.ok("R4", "frame_check_sequence", "the last two octets, high octet first in the integer")
        else:
            rep.violation("R4", "hdlc.HdlcFrame.frame_check_sequence", "fcs-octets", "frame_check_sequence is not built from the last two octets", file, fn.node.lineno,
                          witness=show_sv(vals[0].ret) if vals else None)
    fn = F.methods.get("as_bytes")
    rep.require(fn is not None, "anchor vanished: HdlcFrame.as_bytes")
    vals = ret_paths(Engine(M).run(fn))
    rep.count("accessors", 1)
    if len(vals) == 1 and strip_ver(vals[0].ret) in (("call", "bytes", (ST,), vals[0].ret[3] if len(vals[0].ret) > 3 else 0), ) or \
            (len(vals) == 1 and vals[0].ret[0] == "call" and vals[0].ret[1] == "bytes" and vals[0].ret[2] == (ST,)):
        rep.ok("R4", "as_bytes", "a bytes copy of all frame octets")
    else:
        rep.violation("R4", "hdlc.HdlcFrame.as_bytes", "copy", "as_bytes is not a copy of all frame octets", file, fn.node.lineno, witness=show_sv(vals[0].ret) if vals else None)


def fmt_lin(d):
    if d is None:
        return "<not linear>"
    if not d:
        return "0"
    parts = []
    for k, v in d.items():
        if k == 1:
            parts.append(str(v))
        else:
            parts.append((f"{v}*" if v != 1 else "") + show_sv(k))
    return " + ".join(parts)


def thorough(src, rep):
    from sa.selfval.harness import run_selfval
    run_selfval("C01", src, rep)
