"""C01 - HDLC: a frame is reported valid exactly when it is intact, with exact fields (level: other).

R1 validity = FCS and length (truth table); R2 the running register covers exactly the frame octets; R3 length test and
bit-field geometry (E-BITLIN on the accessor expressions); R4 accessor geometry (linear forms of the index expressions,
address-scan step); R5 frames are made of stream octets, once, in order; R6 an emitted frame is frozen.
"""
from __future__ import annotations

import ast

from sa.bitlin import BV, Vars
from sa.hdlcmodel import FRAME, MOD, SELF, HdlcModel
from sa.hdlcref import appended_values, buffer_contracts, conformance, frozen_after_emit
from sa.paths import Engine, loop_body_paths, show_path, show_sv
from sa.props.c02 import emit
from sa.props.c03 import census_writes
from sa.report import Undecided

LEVEL = "other"
HEADER = (MOD, "HdlcFrameHeader")


# ------------------------------------------------------------------ helpers on symbolic values
def eval_bool(sv, val):
    """evaluate a boolean SV under a valuation {atom sv: bool}; None if it mentions an unknown atom"""
    if sv in val:
        return val[sv]
    t = sv[0]
    if t == "c":
        return bool(sv[1])
    if t == "not":
        r = eval_bool(sv[1], val)
        return None if r is None else not r
    if t == "bool":
        rs = [eval_bool(x, val) for x in sv[2]]
        if sv[1] == "and":
            if any(r is False for r in rs):
                return False
            return None if any(r is None for r in rs) else True
        if any(r is True for r in rs):
            return True
        return None if any(r is None for r in rs) else False
    if t == "ite":
        c = eval_bool(sv[1], val)
        if c is None:
            return None
        return eval_bool(sv[2] if c else sv[3], val)
    if t == "cmp" and sv[1] in ("Eq", "Is") and sv[3][0] == "c" and isinstance(sv[3][1], bool):
        r = eval_bool(sv[2], val)
        return None if r is None else (r == sv[3][1])
    return None


class SvBits:
    """SV expression over frame octets -> affine bit-vector (octet reads become fresh 8-bit variables, keyed by the read)"""

    def __init__(self):
        self.vars = Vars()
        self.octets = {}

    def octet(self, key):
        if key not in self.octets:
            self.octets[key] = self.vars.fresh("o", 8)
        return self.octets[key]

    def bv(self, sv, sub=None):
        t = sv[0]
        if sub and sv in sub:
            return sub[sv]
        if t == "c" and isinstance(sv[1], int) and not isinstance(sv[1], bool):
            return BV.const(sv[1])
        if t == "sub":
            return self.octet((strip_ver(sv[1]), strip_ver(sv[2])))
        if t == "op":
            a, b = self.bv(sv[2], sub), self.bv(sv[3], sub)
            if a is None or b is None:
                return None
            try:
                if sv[1] == "BitOr":
                    return a.or_(b)
                if sv[1] == "BitAnd":
                    return a.and_(b)
                if sv[1] == "BitXor":
                    return a ^ b
                if sv[1] == "LShift":
                    return a.shl(b.value())
                if sv[1] == "RShift":
                    return a.shr(b.value())
            except Exception:
                return None
        return None


def strip_ver(sv):
    """drop version counters of prop/len terms so that the same read gives the same key"""
    if not isinstance(sv, tuple):
        return sv
    if sv and sv[0] == "prop" and len(sv) == 4:
        return ("prop", strip_ver(sv[1]), sv[2])
    if sv and sv[0] == "len" and len(sv) == 3:
        return ("len", strip_ver(sv[1]))
    return tuple(strip_ver(x) for x in sv)


def linear(sv):
    """SV integer expression -> {term: coeff, 1: const} or None"""
    sv = strip_ver(sv)
    t = sv[0]
    if t == "c" and isinstance(sv[1], int) and not isinstance(sv[1], bool):
        return {1: sv[1]} if sv[1] else {}
    if t == "op" and sv[1] in ("Add", "Sub"):
        a, b = linear(sv[2]), linear(sv[3])
        if a is None or b is None:
            return None
        sg = 1 if sv[1] == "Add" else -1
        d = dict(a)
        for k, v in b.items():
            d[k] = d.get(k, 0) + sg * v
        return {k: v for k, v in d.items() if v}
    if t == "call" and sv[1] == "cast" and len(sv[2]) == 2:
        return linear(sv[2][1])
    return {sv: 1}


def ret_paths(ps):
    return [p for p in ps if p.status == "return"]


def check(src, rep):
    m = HdlcModel(src)
    M = m.M
    file = m.file
    rep.count("modules", len(src.text))
    for k in (FRAME, HEADER):
        rep.require(k in M.classes, f"anchor vanished: {k}")
    F, H = M.classes[FRAME], M.classes[HEADER]
    # frame worlds through the public API first: what they find is reported whatever the later (role-bound) rules can or cannot decide
    from sa.hdlcworlds import RULE as _FWRULE, frame_worlds as _fw
    fw0 = _fw(M, FRAME, HEADER)
    if fw0[0] == "bad":
        ck0 = FRAME if (M.find_method(FRAME, fw0[1]) is not None and M.find_method(HEADER, fw0[1]) is None) else HEADER
        fn0 = M.find_method(ck0, fw0[1])
        rep.violation(_FWRULE.get(fw0[1], "R4"), f"{ck0[0]}.{ck0[1]}.{fw0[1]}", "layout", fw0[2], file, fn0.node.lineno if fn0 else 1, witness=fw0[3])
    rep.assumptions += ["ISO/IEC 13239 frame layout as stated in the property (format field 2 octets, extended addresses end at the first octet with LSB 1)",
                        "C03 (the FCS register implements RFC 1662) - checked separately",
                        "reference automaton rows in sa/hdlcref.py"]
    rep.explanation = ("Decided: is_valid is exactly `good FCS and expected length` (truth table); HdlcFrame.append feeds each octet once to the frame store and to a "
                       "fresh FCS register that nothing else writes; bit-fields of the format field and all accessor index expressions equal the ISO 13239 layout "
                       "(affine bit-vector / linear-form comparison); frames are built from popped octets once and in order and an emitted frame is frozen. "
                       "NOT decided: the end-to-end statement over all streams and chunkings (argument in DESIGN.md §3/C06).")

    # ---------------------------------------------------------------- R1: validity truth table
    rep.require("is_valid" in F.methods, "anchor vanished: HdlcFrame.is_valid")
    fn = F.methods["is_valid"]
    E = Engine(M, keep_props={"is_good_ffc", "is_expected_length"})
    ps = E.run(fn)
    G = ("prop", SELF, "is_good_ffc", 0)
    L = ("prop", SELF, "is_expected_length", 0)
    bad = 0
    cells = 0
    for g in (False, True):
        for l in (False, True):
            val = {G: g, L: l}
            outs = set()
            for p in ps:
                ok = True
                for a, pol, _ in p.guards:
                    r = eval_bool(a, val)
                    if r is not None and r != pol:
                        ok = False
                        break
                if not ok:
                    continue
                if p.status != "return":
                    outs.add(("raise", None))
                    continue
                r = eval_bool(p.ret, val) if p.ret is not None else None
                outs.add(("ret", r if p.ret is None or p.ret[0] != "c" else p.ret[1]))
            cells += 1
            want = g and l
            if outs != {("ret", want)}:
                bad += 1
                got = sorted(str(o[1]) for o in outs)
                if any(o[1] is None for o in outs) and not any(o[1] is (not want) for o in outs):
                    rep.undecide(f"R1 is_valid result for (good_fcs={g}, expected_length={l}) depends on an unrecognised condition")
                else:
                    rep.violation("R1", "hdlc.HdlcFrame.is_valid", "truth-table", f"is_valid is not `good FCS and expected length`: for good_fcs={g}, expected_length={l} it returns {got} instead of {want}",
                                  file, fn.node.lineno, witness=f"good_fcs={g} expected_length={l}")
    side = [e for p in ps for e in p.effects if e[0] in ("write", "mutate", "callm", "setitem")]
    if side:
        rep.violation("R1", "hdlc.HdlcFrame.is_valid", "side-effect", "is_valid modifies state", file, fn.node.lineno, witness=str(side[0][:3]))
    if not bad and not side:
        rep.ok("R1", "HdlcFrame.is_valid", f"truth table over (good FCS, expected length): {cells} cells equal the conjunction, returns exactly True/False, no side effects")
    rep.count("truth_table_cells", cells)

    # ---------------------------------------------------------------- R2: register covers exactly the frame octets
    app = F.methods.get("append")
    rep.require(app is not None, "anchor vanished: HdlcFrame.append")
    # roles: octet store = the field __len__ measures; register = the field is_good_ffc reads
    lenfn = F.methods.get("__len__")
    store = None
    if lenfn:
        for n in ast.walk(lenfn.node):
            if isinstance(n, ast.Attribute) and isinstance(n.value, ast.Name) and n.value.id == "self":
                store = n.attr
    gfn = F.methods.get("is_good_ffc")
    regf = None
    if gfn:
        psg = Engine(M, keep_props={"is_good"}).run(gfn)
        if len(psg) == 1 and psg[0].ret and psg[0].ret[0] == "prop" and psg[0].ret[2] == "is_good" and psg[0].ret[1][0] == "f0":
            regf = psg[0].ret[1][2]
    rep.require(store and regf, "cannot bind the frame's octet store / FCS register fields")
    ft = F.field_types.get(regf)
    init = F.field_inits.get(regf)
    if ft == ("fastframecheck", "FastFrameCheckSequence16") and isinstance(init, ast.Call) and not init.args:
        rep.ok("R2", "FCS register", f"`{regf}` is a FastFrameCheckSequence16 created fresh in HdlcFrame.__init__; is_good_ffc reads its is_good")
    else:
        rep.violation("R2", "hdlc.HdlcFrame.__init__", "register-type", "the frame's FCS register is not a fresh FastFrameCheckSequence16", file, F.node.lineno)
    sinit = F.field_inits.get(store)
    if not (isinstance(sinit, ast.Call) and isinstance(sinit.func, ast.Name) and sinit.func.id == "bytearray" and not sinit.args):
        rep.violation("R2", "hdlc.HdlcFrame.__init__", "store-init", "the frame's octet store does not start empty", file, F.node.lineno)
    pa = Engine(M).run(app)
    byte = ("p", app.params[0]) if app.params else None
    for p in pa:
        st = [e for e in p.effects if e[0] == "mutate" and e[1] == ("f0", SELF, store)]
        up = [e for e in p.effects if e[0] == "callm" and e[1] == ("f0", SELF, regf)]
        oth = [e for e in p.effects if e[0] in ("write", "mutate", "setitem") and e not in st]
        okp = (len(st) == 1 and st[0][2] == "append" and st[0][3] == (byte,) and len(up) == 1 and up[0][2].endswith(".update") and up[0][3] == (byte,) and not oth
               and p.status == "run")
        if okp:
            rep.ok("R2", "HdlcFrame.append path", "exactly one octet append to the frame store and exactly one register update with the same octet")
        else:
            what = []
            if len(st) != 1 or (st and st[0][3] != (byte,)):
                what.append(f"{len(st)} store append(s)" + (f" of {show_sv(st[0][3][0])}" if st and st[0][3] else ""))
            if len(up) != 1 or (up and up[0][3] != (byte,)):
                what.append(f"{len(up)} register update(s)" + (f" with {show_sv(up[0][3][0])}" if up and up[0][3] else ""))
            if oth:
                what.append(f"other mutation {oth[0][:3]}")
            rep.violation("R2", "hdlc.HdlcFrame.append", "octet-once", "append(b) does not add b exactly once to the frame store and feed the same b exactly once to the FCS register",
                          file, app.node.lineno, witness="; ".join(what) or p.status)
    writes = [w for w in census_writes(src, {store, regf}) if not (w[1][0] == MOD and w[1][1] == "HdlcFrame" and w[1][2] in ("__init__", "append"))]
    if writes:
        for name, (mm, c, f), line, kind in writes:
            rep.violation("R2", f"{mm}.{c}.{f}", f"{kind} {name}", "the frame's octet store / FCS register is modified outside HdlcFrame.__init__/append", src.file(mm), line)
    else:
        rep.ok("R2", f"write census over {len(src.text)} modules", f"no writer of `{store}` / `{regf}` outside HdlcFrame.__init__ and append")
    rep.count("write_census_fields", 2)

    # roles: the frame's header field (holds an HdlcFrameHeader) and the header's back-reference to its frame
    hdr_fields = [a for a, t in F.field_types.items() if t == HEADER]
    rep.require(len(hdr_fields) == 1, f"cannot bind the frame's header field: {hdr_fields}")
    back = [a for a, t in H.field_types.items() if t == FRAME]
    rep.require(len(back) == 1, f"cannot bind the header's frame field: {back}")
    roles = {"header": hdr_fields[0], "frame": back[0]}
    # ---------------------------------------------------------------- R3: length test and bit fields
    from sa.hdlclayout import layout
    layout(rep, M, F, H, file, store, roles, FRAME, HEADER)
    # ---------------------------------------------------------------- R5 / R6
    rules = {"octets": "R5", "buffer": "R5", "frozen": "R6", "result": "R5"}
    emit(rep, m, appended_values(m), rules)
    emit(rep, m, [r for r in buffer_contracts(m) if r.instance in ("pop", "trim-to-position", "trim-to-flag")], rules)
    emit(rep, m, frozen_after_emit(m), rules)
    from sa.hdlcref import fresh_only_at_flag
    emit(rep, m, fresh_only_at_flag(m), {"start-at-flag": "R5"})
    emit(rep, m, [r for r in conformance(m) if r.instance in ("emit", "start")], {"row": "R5"})
    from sa.cross import include
    include(rep, src, "C02", {"R1"}, "R5", "every octet received between two flags is appended to the frame exactly once, un-stuffed, in input order (the reader's per-octet step refines the reference automaton)")
    include(rep, src, "C03", {"O4", "O5"}, "R1", "the FCS test behind is_valid is `running register == 0xF0B8` (a frame is reported valid exactly when its check sequence matches, not for a second residue)")
    include(rep, src, "C16", {"R1"}, "R5", "the octets of a returned frame are the un-stuffed input between its two flags (no per-frame state of an earlier frame is applied to it)")
    rep.floor("accessors analysed", rep.analysed.get("accessors", 0), 9)
    rep.floor("appending rows", sum(1 for sp in m.paths if m.feasible(sp) and sp.post.appends), 4)


def fmt_lin(d):
    if d is None:
        return "<not linear>"
    if not d:
        return "0"
    parts = []
    for k, v in d.items():
        if k == 1:
            parts.append(str(v))
        else:
            parts.append((f"{v}*" if v != 1 else "") + show_sv(k))
    return " + ".join(parts)


def thorough(src, rep):
    from sa.selfval.harness import run_selfval
    run_selfval("C01", src, rep)
