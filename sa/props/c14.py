"""C14 - Readers and messages never raise on line noise (level: other).

R1 the exception-escape set of every entry point (reader read(), message accessors, protocol data_received) is empty: definite
escapes (partial built-ins on wire text, explicit raise, assert, Optional misuse - also inside except handlers and logging arguments)
are violations; index subscripts must be discharged by the catalogue (length guard, mask, callee precondition, collected-lines
typestate) or the run is undecided.  R2 the read loops progress.  R3 follows from R1.
"""
from __future__ import annotations

import ast
import re

from sa.consteval import ConstEval, NotConstant
from sa.excast import EscapeAnalysis, Site, norm
from sa.hdlcmodel import HdlcModel
from sa.hdlcref import buffer_contracts as hdlc_buffer, skeleton as hdlc_skeleton
from sa import p1model
from sa.model import Model
from sa.report import Undecided

LEVEL = "other"
ENTRY = [
    ("hdlc.HdlcFrameReader.read", "reader"), ("dlde.ModeDReader.read", "reader"),
    ("hdlc.HdlcFrame.is_valid", "message"), ("hdlc.HdlcFrame.payload", "message"), ("hdlc.HdlcFrame.as_bytes", "message"), ("hdlc.HdlcFrame.message_type", "message"),
    ("dlde.DataReadout.is_valid", "message"), ("dlde.DataReadout.payload", "message"), ("dlde.DataReadout.as_bytes", "message"), ("dlde.DataReadout.message_type", "message"),
    ("meter_connection.SmartMeterBaseProtocol.data_received", "protocol"),
    ("meter_connection.SmartMeterMessageProtocol.message_received", "protocol"), ("meter_connection.SmartMeterMessagePayloadProtocol.message_received", "protocol"),
]
LEN_FACT = re.compile(r"^len\((.+)\)(>=|>|==)(.+)$")


def carrier(text):
    """normalise a sequence expression to its length carrier: frame.as_bytes and frame have the same length"""
    t = text
    for suf in (".as_bytes",):
        if t.endswith(suf):
            t = t[: -len(suf)]
    return t


def strip_cast(text):
    return re.sub(r"cast\(int,([^()]+)\)", r"\1", text)


def check(src, rep):
    M = Model(src)
    ce = ConstEval(M)
    rep.count("modules", len(src.text))
    rep.assumptions += ["logging calls do not raise (their arguments are analysed)", "the destination queue is unbounded (put_nowait does not raise QueueFull)",
                        "general AttributeError/TypeError freedom is type safety and is only decided for Optional-annotated properties/fields on the read path (no type checker available)"]
    rep.explanation = ("Decided: the exception-escape set of the readers' read(), of is_valid/payload/as_bytes/message_type of both message classes and of the protocols' data_received/"
                       "message_received is empty. Every partial built-in applied to wire text (bytes.decode, int(text, 16), float(text)), every explicit raise/assert and every arithmetic, ordering "
                       "or indexing use of an Optional value is either enclosed by a handler for its class or dominated by a validating test - including code inside except handlers and logging "
                       "arguments; every index subscript on these paths is discharged by a length guard, a mask into a table of proven size, a callee precondition established at all call sites, or "
                       "the collected-lines typestate of the P1 reader; the read loops consume one octet / one line per iteration. NOT decided: AttributeError/TypeError freedom in general.")
    # models used by discharge rules
    try:
        hm = HdlcModel(src)
        hdlc_pop_ok = any(r.kind == "ok" and r.instance == "pop" for r in hdlc_buffer(hm)) and any(r.kind == "ok" and r.instance == "is_available" for r in hdlc_buffer(hm))
    except Undecided as e:
        hm, hdlc_pop_ok, hm_why = None, False, str(e)
    pm = p1model.P1Model(src)
    p1_rows = {r.instance: r.kind for r in p1model.conformance(pm)}
    p1_lines_typestate = all(p1_rows.get(k) == "ok" for k in ("ident", "end", "keep", "ignore-nonslash", "ignore-nonident"))
    p1_pop_ok = any(r.kind == "ok" and r.instance == "pop" for r in p1model.buffer_contracts(pm))

    def discharge(site: Site, fn, node, facts):
        # ---- DataReadout constructed by the P1 reader: '/' first and '!' present by the collected-lines typestate
        if site.fn == "dlde.DataReadout.__init__" and fn.qual == "dlde.ModeDReader.read" and site.kind in ("raise", "subscript"):
            if not p1_lines_typestate:
                return False
            if site.kind == "raise":
                # only the two preconditions the typestate establishes: first byte is the start character, an end character exists
                init = M.funcs.get("dlde.DataReadout.__init__")
                cond = None
                if init is not None:
                    parents = {c: p for p in ast.walk(init.node) for c in ast.iter_child_nodes(p)}
                    for r in ast.walk(init.node):
                        if isinstance(r, ast.Raise) and r.lineno == site.line:
                            cur = r
                            while cur in parents and not isinstance(parents[cur], ast.If):
                                cur = parents[cur]
                            if cur in parents:
                                cond = norm(parents[cur].test)
                okc = cond is not None and (re.fullmatch(r"self\.\w+\[0\]!=START_CHARACTER_HEX", cond) or re.fullmatch(r"self\.\w+==-1", cond))
                if not okc:
                    return False
            return "collected-lines typestate: non-empty, first kept line admitted under the '/' test, emitted only after keeping a line admitted under the '!' test"
        if site.kind != "subscript" or not isinstance(node, ast.Subscript) or site.fn != fn.qual:
            return False
        recv = carrier(norm(node.value))
        idx = node.slice
        itxt = strip_cast(norm(idx))
        lens = []
        for fct in facts:
            m = LEN_FACT.match(strip_cast(fct))
            if m:
                lens.append((carrier(m.group(1)), m.group(2), m.group(3)))
        # local alias: frame_data = self._frame.as_bytes
        aliases = {recv}
        for a in ast.walk(fn.node):
            if isinstance(a, ast.Assign) and len(a.targets) == 1 and isinstance(a.targets[0], ast.Name) and a.targets[0].id == recv:
                aliases.add(carrier(norm(a.value)))
        # x[-1:][0] : first element of a non-empty tail slice
        if isinstance(node.value, ast.Subscript) and isinstance(node.value.slice, ast.Slice) and isinstance(idx, ast.Constant) and idx.value == 0:
            base = carrier(norm(node.value.value))
            for r, op, k in lens:
                if r == base and k.isdigit() and ((op == ">" and int(k) >= 0) or (op == ">=" and int(k) >= 1)):
                    return "length guard on the sliced sequence"
        if isinstance(idx, ast.Constant) and isinstance(idx.value, int) and idx.value >= 0:
            for r, op, k in lens:
                if r in aliases and k.isdigit() and ((op == ">" and int(k) >= idx.value) or (op == ">=" and int(k) >= idx.value + 1) or (op == "==" and int(k) >= idx.value + 1)):
                    return "dominating length guard"
            if idx.value >= 1 and fn.qual == "dlde.ModeDReader.read" and recv in ("line",):
                site.definite = True
                site.text += " (a popped line is only known to be non-empty: shorter lines raise IndexError)"
                return False
            # first element of a line returned by the P1 buffer's pop (LF-terminated, hence non-empty)
            if idx.value == 0 and fn.qual == "dlde.ModeDReader.read" and p1_pop_ok and any(f in facts for f in (f"{recv}isnotNone", f"not{recv}isNone")):
                return "callee postcondition: pop() returns only LF-terminated (non-empty) lines"
        else:
            for r, op, k in lens:
                if r in aliases and op == ">" and (k == itxt or (k.startswith(itxt + "+") and k[len(itxt) + 1:].isdigit())):
                    return "dominating length guard on the same position"
                if r in aliases and op == ">" and "+" in itxt and k.startswith(itxt.split("+")[0] + "+") and k.split("+")[-1].isdigit() and itxt.split("+")[-1].isdigit() and int(k.split("+")[-1]) >= int(itxt.split("+")[-1]):
                    return "dominating length guard on a later position"
            for fct in facts:
                f2 = strip_cast(fct)
                if any(f2 == f"{itxt}<len({a})" or f2 == f"{itxt}<len({a}.as_bytes)" for a in aliases | {recv + ".as_bytes"}):
                    return "early exit when the index reaches the length"
            # masked index into a table of proven size
            if isinstance(idx, ast.Name):
                defs = [a for a in ast.walk(fn.node) if isinstance(a, ast.Assign) and len(a.targets) == 1 and isinstance(a.targets[0], ast.Name) and a.targets[0].id == idx.id]
                if len(defs) == 1 and isinstance(defs[0].value, ast.BinOp) and isinstance(defs[0].value.op, ast.BitAnd):
                    mask = next((x.value for x in (defs[0].value.left, defs[0].value.right) if isinstance(x, ast.Constant) and isinstance(x.value, int)), None)
                    try:
                        tab = ce.eval(node.value, {}, fn.mod) if not isinstance(node.value, ast.Name) else None
                    except NotConstant:
                        tab = None
                    if mask is not None and isinstance(tab, list) and len(tab) > mask:
                        return f"masked index (& {hex(mask)}) into a table of {len(tab)} entries"
        return False

    ea = EscapeAnalysis(M, discharge)
    n_entry = 0
    bad = 0
    unproven = 0
    reported = set()
    for q, kind in ENTRY:
        fn = M.funcs.get(q)
        if fn is None:
            raise Undecided(f"anchor vanished: {q}")
        n_entry += 1
        # message accessors of DataReadout are analysed for objects built by the reader; the constructor itself is covered through ModeDReader.read
        esc = ea.escapes(fn)
        for s in esc:
            if s.key() in reported:
                continue
            reported.add(s.key())
            if s.definite:
                bad += 1
                rep.violation("R1", s.fn, f"escape:{s.cls}:{s.kind}", f"{s.cls} can leave {q.split('.', 1)[1]}() on line noise: {s.text}", src.file(s.fn.split('.')[0]), s.line, witness=f"entry point {q}")
            else:
                unproven += 1
                rep.undecide(f"R1 unproven index subscript {s.text} in {s.fn} (line {s.line}) on the path of {q}: not discharged by the catalogue")
    subs = {}
    for f, l, t, h in ea.subscripts:
        subs[(f, l, t)] = subs.get((f, l, t)) or h
    for k in subs:
        if not subs[k]:
            subs[k] = "discharged at the call site that reaches it (callee precondition / collected-lines typestate)" if not unproven else None
    n_sub = len(subs)
    n_dis = sum(1 for h in subs.values() if h)
    rep.count("entry_points", n_entry)
    rep.count("functions_analysed", len(ea.visited))
    rep.count("index_subscripts", n_sub)
    rep.extra["subscript_census"] = [f"{f}:{l} {t} -> {h}" for (f, l, t), h in sorted(subs.items())]
    if not bad and not unproven:
        rep.ok("R1", f"{n_entry} entry points", f"{len(ea.visited)} functions on their paths: no definite escape; {n_dis} index subscripts discharged "
               f"({', '.join(sorted({str(h).split(':')[0] for h in subs.values() if h}))[:200]})")
        for (f, l, t), h in sorted(subs.items()):
            rep.ok("R1", f"subscript {f}:{t}", h)
    from sa.cross import include
    include(rep, src, "C16", {"R1", "R2", "R3"}, "R3", "after noise the reader remains usable")
    rep.floor("entry points", n_entry, 13)
    rep.floor("index subscripts on the read paths", n_sub, 8)
    # ---------------------------------------------------------------- R2 loops progress
    if hm is None:
        if not bad:
            rep.undecide(f"R2 HDLC step model not available: {hm_why}")
        return
    pops_ok = all(sp.post.pops == 1 for sp in hm.paths if hm.feasible(sp))
    p1_pops = all(pp.post.buf_calls.count("pop") == 1 for pp in pm.paths)
    exits = [pp for pp in pm.paths if pp.post.returns]
    p1_exit_only_on_none = all(pp.lits.get("N") is True for pp in exits) and bool(exits)
    if pops_ok and p1_pops and p1_exit_only_on_none and hdlc_pop_ok and p1_pop_ok:
        rep.ok("R2", "read loops", "each HDLC step consumes exactly one octet under the loop test; each P1 step pops one line and the loop exits exactly when no complete line is left")
    else:
        rep.violation("R2", "reader loops", "no-progress", "a read loop iteration does not consume exactly one octet / line (or the P1 loop has no exit on an empty buffer)", src.file("hdlc"), 1)
    # address scan advances by one and exits at the frame end (checked structurally in C01/R4; here: loop has an exit on the index bound)
    H = M.classes.get(("hdlc", "HdlcFrameHeader"))
    ga = H.methods.get("_get_address") if H else None
    if ga is not None:
        wl = [n for n in ast.walk(ga.node) if isinstance(n, ast.While)]
        ok = all(any(isinstance(x, ast.AugAssign) and isinstance(x.op, ast.Add) for x in ast.walk(w)) and any(isinstance(x, ast.Return) for x in ast.walk(w)) for w in wl)
        if ok:
            rep.ok("R2", "address scan", "advances by one per iteration and returns at the frame end or at the terminating octet")
        else:
            rep.violation("R2", "hdlc.HdlcFrameHeader._get_address", "scan-progress", "the address scan loop can iterate without advancing", src.file("hdlc"), ga.node.lineno)


def thorough(src, rep):
    from sa.selfval.harness import run_selfval
    run_selfval("C14", src, rep)
