"""C14 - Readers and messages never raise on line noise (level: other).

R1 the exception-escape set of every entry point (reader read(), message accessors, protocol data_received) is empty: definite
escapes (partial built-ins on wire text, explicit raise, assert, Optional misuse - also inside except handlers and logging arguments)
are violations; index subscripts must be discharged by the catalogue (length guard, mask, callee precondition, collected-lines
typestate) or the run is undecided.  R2 the read loops progress.  R3 follows from R1.
"""
from __future__ import annotations

import ast
import re

from sa.consteval import ConstEval, NotConstant
from sa.paths import Engine, NeedFork, Unsupported, exc_covered, explore, show_sv, strip_epoch
SELF = ("self0",)
from sa.hdlcmodel import HdlcModel
from sa.hdlcref import buffer_contracts as hdlc_buffer, skeleton as hdlc_skeleton
from sa import p1model
from sa.model import Model
from sa.report import Undecided

LEVEL = "other"
ENTRY = [
    ("hdlc.HdlcFrameReader.read", "reader"), ("dlde.ModeDReader.read", "reader"),
    ("hdlc.HdlcFrame.is_valid", "message"), ("hdlc.HdlcFrame.payload", "message"), ("hdlc.HdlcFrame.as_bytes", "message"), ("hdlc.HdlcFrame.message_type", "message"),
    ("dlde.DataReadout.is_valid", "message"), ("dlde.DataReadout.payload", "message"), ("dlde.DataReadout.as_bytes", "message"), ("dlde.DataReadout.message_type", "message"),
    ("meter_connection.SmartMeterBaseProtocol.data_received", "protocol"),
    ("meter_connection.SmartMeterMessageProtocol.message_received", "protocol"), ("meter_connection.SmartMeterMessagePayloadProtocol.message_received", "protocol"),
]
LEN_FACT = re.compile(r"^len\((.+)\)(>=|>|==)(.+)$")


def carrier(text):
    """normalise a sequence expression to its length carrier: frame.as_bytes and frame have the same length"""
    t = text
    for suf in (".as_bytes",):
        if t.endswith(suf):
            t = t[: -len(suf)]
    return t


def strip_cast(text):
    return re.sub(r"cast\(int,([^()]+)\)", r"\1", text)


def _optional_attrs(M):
    """attribute names that are Optional-annotated properties / fields of the message and frame classes"""
    out = set()
    for key in (("common", "MeterMessageBase"), ("hdlc", "HdlcFrame"), ("hdlc", "HdlcFrameHeader"), ("dlde", "DataReadout")):
        c = M.classes.get(key)
        if c is None:
            continue
        for name, f in c.methods.items():
            if f.kind == "property" and f.node.returns is not None and M.ann_optional(f.node.returns):
                out.add(name)
    return out


def _walk(sv):
    if isinstance(sv, tuple):
        yield sv
        for x in sv:
            yield from _walk(x)


class Discharger:
    """decides whether a recorded exception site can actually raise on its path"""

    def __init__(self, M, ce, facts):
        self.M, self.ce, self.facts = M, ce, facts

    def len_lower(self, base, guards):
        """lower bound of len(base) implied by the guards (and by callee postconditions)"""
        lo = 0
        b0 = strip_epoch(base)
        while b0[0] == "call" and b0[1] in ("bytes", "bytearray") and len(b0[2]) == 1:
            b0 = b0[2][0]
        if self.facts.get("pop_line") and self.facts["pop_line"](b0):
            lo = 1  # a popped line is LF-terminated, hence non-empty (E-SEQ contract of the buffer's pop)
        for g, pol, _ in guards:
            gs = strip_epoch(g)
            if gs[0] != "cmp" or gs[3][0] != "c" or not isinstance(gs[3][1], int) or isinstance(gs[3][1], bool):
                continue
            t = gs[2]
            if not (t[0] == "len" and _same_seq(strip_epoch(t[1]), b0)):
                continue
            k, op = gs[3][1], gs[1]
            if op == "LtE" and not pol:
                lo = max(lo, k + 1)
            elif op == "Lt" and not pol:
                lo = max(lo, k)
            elif op == "Eq" and pol:
                lo = max(lo, k)
            elif op == "Eq" and not pol and k == 0:
                lo = max(lo, 1)
        for g, pol, _ in guards:  # truthiness of the sequence itself
            if _same_seq(strip_epoch(g), b0) and pol:
                lo = max(lo, 1)
        return lo

    def _bool_attr(self, name, depth=0):
        """every class of the repository that defines `name` defines it as a property all of whose returns are truth values (True / False)"""
        if depth > 3:
            return False
        defs = [c.methods[name] for c in self.M.classes.values() if name in c.methods]
        if not defs or any(name in c.field_inits for c in self.M.classes.values()):
            return False
        for f in defs:
            if f.kind != "property":
                return False
            rets = [n for n in ast.walk(f.node) if isinstance(n, ast.Return)]
            if not rets or not all(r.value is not None and self._bool_expr(r.value, depth) for r in rets):
                return False
        return True

    def _bool_expr(self, e, depth):
        if isinstance(e, ast.Compare):
            return all(not isinstance(o, (ast.In, ast.NotIn)) or True for o in e.ops)
        if isinstance(e, ast.UnaryOp) and isinstance(e.op, ast.Not):
            return True
        if isinstance(e, ast.Constant):
            return isinstance(e.value, bool)
        if isinstance(e, ast.Call) and isinstance(e.func, ast.Name) and e.func.id in ("bool", "isinstance", "hasattr", "any", "all", "callable", "issubclass"):
            return True
        if isinstance(e, ast.BoolOp):
            return all(self._bool_expr(v, depth) for v in e.values)
        if isinstance(e, ast.IfExp):
            return self._bool_expr(e.body, depth) and self._bool_expr(e.orelse, depth)
        if isinstance(e, ast.Attribute):
            return self._bool_attr(e.attr, depth + 1)
        return False

    def index_ok(self, site, guards):
        sub = site[3]
        base, idx = sub[1], sub[2]
        inner0 = strip_epoch(base)
        if idx[0] == "c" and isinstance(idx[1], (str, int)) and not isinstance(idx[1], bool) and inner0[0] == "call" and inner0[1] in (".match", ".fullmatch", ".search") \
                and inner0[2] and inner0[2][0][0] == "g":
            # match[group]: IndexError exactly when the compiled pattern has no such group
            import re
            for mod in self.M.mods:
                init = self.M.mod_consts.get(mod, {}).get(inner0[2][0][1])
                if isinstance(init, ast.Call) and init.args and len(init.args) == 1 and not init.keywords and "compile" in ast.unparse(init.func):
                    try:
                        rx = re.compile(self.ce.eval(init.args[0], {}, mod))
                    except Exception:
                        continue
                    if (idx[1] in rx.groupindex) if isinstance(idx[1], str) else (0 <= idx[1] <= rx.groups):
                        return f"group {idx[1]!r} exists in the compiled pattern {inner0[2][0][1]}"
                    return None
        if idx[0] == "c" and isinstance(idx[1], int):
            k = idx[1]
            inner = strip_epoch(base)
            if inner[0] == "slice" and inner[3] is None and inner[2] is not None and inner[2][0] == "c" and isinstance(inner[2][1], int) and inner[2][1] < 0 and k == 0:
                return "length guard on the sliced sequence" if self.len_lower(inner[1], guards) >= 1 else None
            if inner[0] == "slice" and inner[2] is not None and inner[2][0] == "c" and isinstance(inner[2][1], int) and inner[2][1] < 0 and inner[3] is None and 0 <= k < -inner[2][1]:
                return "length guard on the sliced sequence" if self.len_lower(inner[1], guards) >= -inner[2][1] else None
            need = k + 1 if k >= 0 else -k
            if self.len_lower(base, guards) >= need:
                return "dominating length guard / callee postcondition"
            if inner[0] == "tuple" and len(inner[1]) >= need:
                return "literal tuple"
            if inner[0] == "call" and isinstance(inner[1], str) and (inner[1].endswith(".group") or inner[1].endswith(".split") and k == 0 or inner[1].endswith(".groups")):
                return "regex group tuple / first element of str.split()"
            if inner[0] in ("c",) and isinstance(inner[1], (tuple, list, str, bytes)) and len(inner[1]) >= need:
                return "constant sequence"
            return None
        # masked index into a constant table
        i0 = strip_epoch(idx)
        tab0 = strip_epoch(base)
        if tab0[0] == "c" and isinstance(tab0[1], (tuple, list, str, bytes)):
            n_ = len(tab0[1])
            # bool(..) / a comparison is 0 or 1
            if n_ >= 2 and ((i0[0] == "call" and i0[1] == "bool") or i0[0] in ("cmp", "not")):
                return "constant sequence indexed by a truth value (0 or 1)"
            # a property whose every definition in the repository returns a truth value
            if n_ >= 2 and i0[0] in ("f0", "prop") and isinstance(i0[2], str) and self._bool_attr(i0[2]):
                return f"constant sequence indexed by the truth-valued property {i0[2]}"
            # an octet taken from a bytes-like value / a popped octet indexes a 256-entry table
            if n_ >= 256 and (i0[0] in ("iter",) or (i0[0] == "call" and isinstance(i0[1], str) and i0[1].endswith(".pop")) or (i0[0] == "sub" and strip_epoch(i0[1])[0] in ("f0", "p", "slice"))):
                return "256-entry constant table indexed by an octet"
        if i0[0] == "op" and i0[1] == "BitAnd":
            mask = next((x[1] for x in (i0[2], i0[3]) if x[0] == "c" and isinstance(x[1], int)), None)
            tab = strip_epoch(base)
            tv = None
            if tab[0] == "c" and isinstance(tab[1], (list, tuple)):
                tv = tab[1]
            elif tab[0] == "f0" and tab[1][0] == "class":
                try:
                    tv = self.ce.class_const(tab[1][1][0], tab[1][1][1], tab[2])
                except NotConstant:
                    tv = None
            if mask is not None and isinstance(tv, (list, tuple)) and len(tv) > mask:
                return f"masked index (& {hex(mask)}) into a table of {len(tv)} entries"
        if i0[0] == "iter" and i0[1][0] == "call" and i0[1][1] == "range":
            ra = i0[1][2]
            hi = ra[-1] if len(ra) >= 2 else ra[0]
            if hi[0] == "len" and _same_seq(strip_epoch(hi[1]), strip_epoch(base)):
                return "index ranges over range(.., len(sequence))"
        # i < len(base) on the path (and i is a position, i.e. compared / derived non-negative)
        for g, pol, _ in guards:
            gs = strip_epoch(g)
            if gs[0] == "cmp" and gs[3][0] == "len" and _same_seq(strip_epoch(gs[3][1]), strip_epoch(base)):
                if (gs[1] == "Lt" and pol and gs[2] == i0) or (gs[1] == "GtE" and not pol and gs[2] == i0):
                    return "dominating `index < len(sequence)` test"
            if gs[0] == "cmp" and gs[2][0] == "len" and _same_seq(strip_epoch(gs[2][1]), strip_epoch(base)):
                if (gs[1] == "LtE" and not pol and gs[3] == i0) or (gs[1] == "Gt" and pol and gs[3] == i0) or (gs[1] == "Lt" and not pol and gs[3] == i0 and False):
                    return "dominating `len(sequence) > index` test"
        return None

    def decode_ok(self, site, guards):
        recv = strip_epoch(site[3])
        for g, pol, _ in guards:
            gs = strip_epoch(g)
            if gs[0] == "call" and gs[1] == ".isascii" and pol and (gs[2][0] == recv or _derived_from(recv, gs[2][0])):
                return "dominating isascii() test on the decoded bytes"
            # a successful match of a bytes pattern whose atoms are all ASCII, applied to the very bytes that are decoded
            if gs[0] == "call" and gs[1] in (".match", ".fullmatch") and pol and len(gs[2]) >= 2 and gs[2][0][0] == "g" and (gs[2][1] == recv or _derived_from(recv, gs[2][1])):
                try:
                    from sa.abseval import AbsEval
                    from sa.p1model import _ascii_only
                    import re._parser as _rp
                    A = self.__dict__.setdefault("_AE", AbsEval(self.M))
                    for mod in self.M.mods:
                        v = A.module_env(mod).get(gs[2][0][1]) if not mod.startswith("@") else None
                        pt = A.regex_of(v, mod) if v is not None else None
                        if isinstance(pt, bytes) and _ascii_only(_rp.parse(pt.decode("latin-1"))):
                            return "dominating match of an all-ASCII bytes pattern on the decoded bytes"
                except Exception:  # noqa
                    pass
        return None


_CTOR_MEMO = {}


def _ctor_samples_ok(M):
    """DataReadout(x) for representatives x of `identification line + data lines + end line`: True if none raises, False if one does, None if not interpretable"""
    key = id(M)
    if key not in _CTOR_MEMO:
        from sa.abseval import AbsEval
        res = True
        for x in (b"/ABC5x\r\n!\r\n", b"/ABC5x\r\n1-0:1.8.0(1*kWh)\r\n!1234\r\n", b"/ABC5\\2I!D\r\n0-0:1.0.0(210101000000W)\r\n!\r\n", b"/ABC5x\n!\n", b"/ABC5x\r\n\xff\xfe(\r\n!zz\r\n",
                  b"/ABC5x\r\n" + b"1-0:1.8.0(1*kWh)\r\n" * 3 + b"!0000\r\n"):
            try:
                AbsEval(M).instantiate(("dlde", "DataReadout"), [x])
            except Exception as ex:
                res = False if type(ex).__name__ == "AbsRaise" else None
                break
        _CTOR_MEMO[key] = res
    return _CTOR_MEMO[key]


def _same_seq(a, b):
    """same sequence value up to copies that keep the length (bytes(), as_bytes of a frame)"""
    def norm(x):
        while True:
            if x[0] == "call" and x[1] in ("bytes", "bytearray") and len(x[2]) == 1:
                x = x[2][0]
            elif x[0] in ("prop", "f0") and len(x) >= 3 and x[2] == "as_bytes":
                x = x[1]
            else:
                return x
    return norm(a) == norm(b)


def _derived_from(sv, root):
    """sv is root, a slice of it or a strip of it (sub-sequences of ASCII bytes are ASCII)"""
    while True:
        if sv == root:
            return True
        if sv[0] == "slice":
            sv = sv[1]
        elif sv[0] == "call" and isinstance(sv[1], str) and sv[1] in (".strip", ".lstrip", ".rstrip") and sv[2]:
            sv = sv[2][0]
        else:
            return False


def check(src, rep):
    M = Model(src)
    ce = ConstEval(M)
    rep.count("modules", len(src.text))
    rep.assumptions += ["logging calls do not raise (their arguments are analysed)", "the destination queue is unbounded (put_nowait does not raise QueueFull)",
                        "general AttributeError/TypeError freedom is type safety and is only decided for Optional-annotated properties/fields on the read path (no type checker available)"]
    rep.explanation = ("Decided: no exception can leave the readers' read(), is_valid/payload/as_bytes/message_type of both message classes, or the protocols' data_received/message_received. "
                       "The entry points are path-enumerated with callees inlined (E-PATH); every potential exception site on a path - index subscripts, bytes.decode, int(text, base), float(text), "
                       "next() without default, explicit raise/assert, constructors of repository classes, and arithmetic/ordering/len/subscript on a value that is None on that path or that comes from an "
                       "Optional-annotated property without a dominating None test - is either enclosed by a handler for its class (handler bodies and logging arguments are code too) or discharged: "
                       "length guards on the same sequence value, the E-SEQ postcondition of the P1 buffer's pop (lines are LF-terminated, hence non-empty), masks into constant tables, "
                       "isascii() guards, the collected-lines typestate for the DataReadout constructor's two preconditions; the HDLC accessors are evaluated in every frame world (E-ACC) and raise in none; "
                       "the read loops consume one octet / one line per iteration. NOT decided: AttributeError/TypeError freedom in general.")
    # models used by discharge rules
    try:
        hm = HdlcModel(src)
        hb = hdlc_buffer(hm)
        hdlc_pop_ok = any(r.kind == "ok" and r.instance == "pop" for r in hb) and any(r.kind == "ok" and r.instance == "is_available" for r in hb)
        hm_why = None
    except Undecided as e:
        hm, hdlc_pop_ok, hm_why = None, False, str(e)
    pm = p1model.P1Model(src)
    input_fields = {x for x in ((hm.roles.buffer if hm is not None else None), getattr(pm, "buffer", None)) if x}
    p1_rows = {r.instance: r.kind for r in p1model.conformance(pm)}
    p1_lines_typestate = all(p1_rows.get(k) == "ok" for k in ("ident", "end", "keep", "ignore-nonslash", "ignore-nonident"))
    p1_pop_ok = any(r.kind == "ok" and r.instance == "pop" for r in p1model.buffer_contracts(pm))
    OPT = _optional_attrs(M)
    D = Discharger(M, ce, {"pop_line": (lambda sv: p1_pop_ok and pm.is_line(sv))})
    n_entry = n_sites = 0
    bad = unproven = 0
    reported = set()
    census = {}

    def report(definite, cls, kind, fnq, line, text, entry):
        nonlocal bad, unproven
        key = (cls, kind, fnq, line)
        if key in reported:
            return
        reported.add(key)
        if definite:
            bad += 1
            rep.violation("R1", fnq, f"escape:{cls}:{kind}", f"{cls} can leave {entry.split('.', 1)[1]}() on line noise: {text}", src.file(fnq.split('.')[0]), line, witness=f"entry point {entry}")
        else:
            unproven += 1
            rep.undecide(f"R1 unproven {'index subscript ' if kind != 'assert' else ''}{text} in {fnq} (line {line}) on the path of {entry}: not discharged by the catalogue")

    def ctor_ok(site, guards, entry):
        """escapes of a repository constructor called on this path"""
        _, ck, cline, cfn, cguards, cdetail, cargs = site[3]
        if ck == ("dlde", "DataReadout") and entry == "dlde.ModeDReader.read" and p1_lines_typestate:
            # the two preconditions the collected-lines typestate establishes: the first byte is '/', an end character exists; and the first-byte read itself
            for g, pol, _ in reversed(cguards):
                gs = strip_epoch(g)
                if gs[0] == "cmp" and gs[1] == "Eq" and gs[2][0] == "sub" and gs[2][2] == ("c", 0) and gs[3] == ("c", 0x2F) and not pol:
                    return "collected-lines typestate: the first kept line was admitted under the '/' test"
                if gs[0] == "cmp" and gs[3] in (("c", -1), ("c", 0)) and gs[2][0] == "call" and str(gs[2][1]).endswith(".find") and gs[2][2][-1:] == (("c", 0x21),) and ((gs[1] == "Eq" and pol) or (gs[1] == "Lt" and pol)):
                    return "collected-lines typestate: a readout is emitted only after keeping a line admitted under the '!' test"
                break
            if site[2] == "ctor:index" and cdetail is not None and cdetail[2] == ("c", 0):
                return "collected-lines typestate: the collected lines are non-empty"
            # the preconditions are written in a form the guard patterns above do not know: the constructor is interpreted (E-ABS) on representatives of
            # what the typestate lets through (identification line admitted by the '/' test and Ident.is_ident_line, end line starting with '!')
            if _ctor_samples_ok(M) is True:
                return "collected-lines typestate: the constructor accepts every representative of the collected lines (identification line ... end line)"
        return None

    def scan(paths, entry, fnq_default):
        nonlocal n_sites
        for p in paths:
            # explicit raises / asserts that end a feasible path
            for e in p.effects:
                if e[0] == "raise":
                    cls = str(e[1]).split("(")[0].split(".")[-1]
                    hs = e[3] if len(e) > 3 else ()
                    if cls == "reraise":
                        continue
                    if not exc_covered(cls, hs):
                        # an assert is a claim of its author; when the facts of the path do not settle it, it is not known to fire either: undecided, not a violation
                        refuted = cls == "AssertionError" and len(e) > 5 and e[5] == "certain"
                        report(cls != "AssertionError" or refuted, cls, "raise" if cls != "AssertionError" else "assert", e[4] if len(e) > 4 else fnq_default, e[2],
                               f"raise {cls}" if cls != "AssertionError" else "an `assert` whose condition is false on a path that reaches it" if refuted else
                               "(an `assert` whose condition the path does not establish)", entry)
                if e[0] != "xsite":
                    continue
                n_sites += 1
                _, cls, what, detail, line, hs, ng, fnq = e
                if exc_covered(cls, hs):
                    census[(fnq, line, what)] = "enclosed by a handler"
                    continue
                guards = p.guards[:ng]
                how = None
                if what == "extremum":
                    how = D.index_ok(e, guards)
                    if how is None:
                        seq0 = strip_epoch(detail[1])
                        report(seq0[0] == "slice", cls, "extremum", fnq, line, f"max()/min() of {show_sv(detail[1])[:60]}, which can be empty (ValueError)", entry)
                        continue
                elif what == "index":
                    how = D.index_ok(e, guards)
                    if how is None and __import__("os").environ.get("VERIF_DEBUG"):
                        print("DEBUG index site", detail, file=__import__("sys").stderr)
                    if how is None:
                        census.setdefault((fnq, line, what), None)
                        k = detail[2]
                        if k[0] == "c" and isinstance(k[1], int) and k[1] >= 1 and D.len_lower(detail[1], guards) >= 1:
                            report(True, cls, "subscript", fnq, line, f"{show_sv(detail)[:60]} (the sequence is only known to be non-empty: shorter ones raise IndexError)", entry)
                        else:
                            report(False, cls, "subscript", fnq, line, show_sv(detail)[:60], entry)
                        continue
                elif what == "decode":
                    how = D.decode_ok(e, guards)
                    if how is None:
                        report(True, cls, "decode", fnq, line, f"{show_sv(detail)[:50]}.decode(...) on bytes that are not known to be ASCII", entry)
                        continue
                elif what.startswith("ctor:"):
                    how = ctor_ok(e, guards, entry)
                    if how is None and what == "ctor:index" and detail[5] is not None:
                        how = D.index_ok(("xsite", cls, "index", detail[5]), detail[4])
                    if how is None and __import__("os").environ.get("VERIF_DEBUG"):
                        print("DEBUG ctor site", detail, file=__import__("sys").stderr)
                    if how is None:
                        ck = detail[1]
                        if ck == ("dlde", "DataReadout") and entry == "dlde.ModeDReader.read" and p1_lines_typestate and _ctor_samples_ok(M) is None:
                            report(False, cls, "raise" if what == "ctor:raise" else what[5:], detail[3], detail[2], f"{cls} from the constructor of {ck[1]} ({what[5:]}; constructor not interpretable)", entry)
                            continue
                        report(True, cls, "raise" if what == "ctor:raise" else what[5:], detail[3], detail[2], f"{cls} from the constructor of {ck[1]} ({what[5:]})", entry)
                        continue
                elif what in ("int()", "float()"):
                    report(True, cls, what, fnq, line, f"{what[:-2]}({show_sv(detail)[:50]}, ...) on wire text", entry)
                    continue
                elif what == "next()":
                    report(True, cls, what, fnq, line, "next() without default", entry)
                    continue
                else:  # None misuse
                    report(True, cls, "optional", fnq, line, f"{what.replace('none-', '')} with a value that is None on this path", entry)
                    continue
                census[(fnq, line, what)] = how
            # Optional-annotated properties used without a dominating None test
            for gi, (g, pol, ln) in enumerate(p.guards):
                for t in _walk(g):
                    use = None
                    if t and t[0] == "len" and len(t) > 1:
                        use = t[1]
                    elif t and t[0] == "cmp" and t[1] in ("Lt", "LtE", "Gt", "GtE"):
                        use = next((x for x in (t[2], t[3]) if isinstance(x, tuple) and x and x[0] in ("prop", "f0") and len(x) >= 3 and x[2] in OPT), None)
                    elif t and t[0] == "op" and t[1] in ("Add", "Sub", "Mult"):
                        use = next((x for x in (t[2], t[3]) if isinstance(x, tuple) and x and x[0] in ("prop", "f0") and len(x) >= 3 and x[2] in OPT), None)
                    if not (isinstance(use, tuple) and use and use[0] in ("prop", "f0") and len(use) >= 3 and use[2] in OPT):
                        continue
                    u0 = strip_epoch(use)
                    nonnull = False
                    for g2, pol2, _ in p.guards[:gi]:
                        g2s = strip_epoch(g2)
                        if (g2s[0] == "cmp" and g2s[1] == "Is" and _strip_ver(g2s[2]) == _strip_ver(u0) and g2s[3] == ("c", None) and not pol2) or (_strip_ver(g2s) == _strip_ver(u0) and pol2):
                            nonnull = True
                    if not nonnull:
                        report(True, "TypeError", "optional", fnq_default, ln, f"len()/ordering/arithmetic with {show_sv(use)[:60]} (Optional) without a dominating `is not None` test", entry)

    def engine(**kw):
        return Engine(M, inline_depth=8, fork_props=True, split_ifexp=True, track_exc=True, **kw)

    # ---- the readers interpreted on sample streams: an exception that leaves read() there is a witness (and an unproven assert that never fires there stays unproven)
    n_smp_bad = 0
    for rec_ in _sample_escapes(M, src):
        if rec_[0] is None:
            rep.notes.append(f"R1 sample streams: {rec_[1]}")
            continue
        ent_, cls_, wit_ = rec_
        n_smp_bad += 1
        fq_ = M.funcs.get(ent_)
        bad += 1
        rep.violation("R1", ent_, f"escape:{cls_}:sample-stream", f"{cls_} leaves {ent_.split('.', 1)[1]}() on a sample stream", src.file(ent_.split(".")[0]), fq_.node.lineno if fq_ else 1, witness=wit_)
    if not n_smp_bad:
        rep.ok("R1", "sample streams", "both readers interpreted (E-ABS) on noise / truncated / damaged / valid sample streams under three splittings (HDLC: four configurations): read() returns every time")
    # ---- readers: read() with the helpers of the reader inlined, buffer / frame methods as contracts
    for q in ("hdlc.HdlcFrameReader.read", "dlde.ModeDReader.read"):
        fn = M.funcs.get(q)
        if fn is None:
            raise Undecided(f"anchor vanished: {q}")
        n_entry += 1
        try:
            E = engine(keep_props={"is_expected_length", "is_good_ffc"})
            scan(explore(E, fn), q, q)
        except (Unsupported, NeedFork) as ex:
            raise Undecided(f"{q} outside the analysed subset: {ex}")
    # the sub-objects the readers call: buffers (E-SEQ contracts) and HdlcFrame.append / header update (E-ACC worlds + FCS table mask below)
    for q in ("hdlc.HdlcFrame.append", "hdlc.HdlcFrameHeader.update"):
        fn = M.funcs.get(q)
        if fn is None:
            raise Undecided(f"anchor vanished: {q}")
    # ---- message accessors
    from sa.hdlcworlds import accessor_outcomes
    F = M.classes.get(("hdlc", "HdlcFrame"))
    if F is None:
        raise Undecided("anchor vanished: hdlc.HdlcFrame")
    acc_names = []
    for name in ("is_valid", "payload", "as_bytes", "message_type"):
        if M.find_method(("hdlc", "HdlcFrame"), name) is None:
            raise Undecided(f"anchor vanished: HdlcFrame.{name}")
        n_entry += 1
        if name in F.methods:
            acc_names.append(name)
    ao = accessor_outcomes(M, tuple(acc_names))
    if ao[0] == "undecided":
        raise Undecided(f"HdlcFrame accessors outside the frame worlds: {ao[1]}")
    nw = ao[1] if ao[0] == "ok" else 0
    if ao[0] == "raise":
        fnr = M.find_method(("hdlc", "HdlcFrame"), ao[1])
        report(True, ao[2], "accessor", f"hdlc.HdlcFrame.{ao[1]}", fnr.node.lineno if fnr else 1, f"for {ao[3]} the accessor raises", f"hdlc.HdlcFrame.{ao[1]}")
    rep.count("frame_worlds", nw)
    for name in ("is_valid", "payload", "as_bytes", "message_type"):
        q = f"dlde.DataReadout.{name}"
        fn = M.funcs.get(q)
        if fn is None:
            if M.find_method(("dlde", "DataReadout"), name) is None:
                raise Undecided(f"anchor vanished: {q}")
            n_entry += 1
            continue
        n_entry += 1
        try:
            scan(explore(engine(inline_subobjects=True), fn), q, q)
        except (Unsupported, NeedFork) as ex:
            rep.undecide(f"R1 {q} outside the analysed subset: {ex}"); unproven += 1
    # ---- protocols
    for q in ("meter_connection.SmartMeterBaseProtocol.data_received", "meter_connection.SmartMeterMessageProtocol.message_received",
              "meter_connection.SmartMeterMessagePayloadProtocol.message_received"):
        fn = M.funcs.get(q)
        if fn is None:
            raise Undecided(f"anchor vanished: {q}")
        n_entry += 1
        try:
            scan(explore(engine(), fn), q, q)
        except (Unsupported, NeedFork) as ex:
            rep.undecide(f"R1 {q} outside the analysed subset: {ex}"); unproven += 1
    rep.count("entry_points", n_entry)
    rep.count("exception_sites", n_sites)
    rep.extra["site_census"] = [f"{f}:{l} {w} -> {h}" for (f, l, w), h in sorted(census.items(), key=lambda kv: (kv[0][0], kv[0][1], kv[0][2]))]
    if not bad and not unproven:
        rep.ok("R1", f"{n_entry} entry points", f"{n_sites} potential exception sites on their paths, each enclosed by a handler for its class or discharged "
               f"({', '.join(sorted({str(h).split(':')[0] for h in census.values() if h}))[:300]}); HDLC accessors raise in none of {nw} frame worlds")
    from sa.cross import include
    include(rep, src, "C16", {"R1", "R2", "R3"}, "R3", "after noise the reader remains usable")
    include(rep, src, "C01", {"R2", "R4"}, "R1", "HdlcFrame.append / the header update and the address scan stay inside the frame (no index error while a frame is built)")
    include(rep, src, "C03", None, "R1", "the FCS table has an entry for every masked index (the register update cannot raise)")
    include(rep, src, "C13", {"R3"}, "R3", "after noise the protocol still feeds the reader of the protocol on the wire (a candidate reader is never dropped or starved of chunks before one is selected)")
    include(rep, src, "C13", {"R4"}, "R1", "the protocol modifies only its own copy of the candidate list (a caller's tuple / shared list is never cleared)")
    rep.floor("entry points", n_entry, 13)
    rep.floor("exception sites on the read paths", n_sites, 8)
    # ---------------------------------------------------------------- R2 loops progress
    if hm is None:
        if not bad:
            rep.undecide(f"R2 HDLC step model not available: {hm_why}")
        return
    pops_ok = all(sp.post.pops == 1 for sp in hm.paths if hm.feasible(sp))
    p1_pops = all(pp.post.buf_calls.count("pop") == 1 for pp in pm.paths)
    exits = [pp for pp in pm.paths if pp.post.returns]
    p1_exit_only_on_none = all(pp.lits.get("N") is True for pp in exits) and bool(exits)
    if pops_ok and p1_pops and p1_exit_only_on_none and hdlc_pop_ok and p1_pop_ok:
        rep.ok("R2", "read loops", "each HDLC step consumes exactly one octet under the loop test; each P1 step pops one line and the loop exits exactly when no complete line is left")
    else:
        rep.violation("R2", "reader loops", "no-progress", "a read loop iteration does not consume exactly one octet / line (or the P1 loop has no exit on an empty buffer)", src.file("hdlc"), 1)


_SAMPLE_MEMO = {}


def _sample_escapes(M, src):
    """the two readers interpreted (E-ABS) on concrete sample streams - noise, truncated / damaged / valid messages - under three splittings and, for HDLC, the four
    configurations: [(entry, exception class, witness)] for every exception that leaves read(); (None, why) entries when the interpretation gives up"""
    key = id(src)
    if key in _SAMPLE_MEMO and _SAMPLE_MEMO[key][0] is src:
        return _SAMPLE_MEMO[key][1]
    from sa.abseval import AbsEval
    out = []
    good = bytes.fromhex("7ea02a410883130413e6e7000f40000000000101020309060100010700ff060000046202020f00161b6f887e")
    hdlc_samples = [b"A", b"\x7e", b"\x7eA", good, good[:10], b"\x7e\x7e", b"noise" + good + good[1:], b"\x7e\x7d\x7e" + good, b"\x7e" + b"\x00" * 30 + b"\x7e", good[:-3] + b"\x7d\x7e" + good,
                    b"\x7e\xa0\x00\x7e", b"\x7e\x7d", b"\x7d\x7e\x7d\x5e\x7e"]
    body = b"/ABC5x\r\n1-0:1.8.0(000123.456*kWh)\r\n!"
    crc = 0
    for x in body:
        crc ^= x
        for _ in range(8):
            crc = (crc >> 1) ^ 0xA001 if crc & 1 else crc >> 1
    rd_good = body + b"%04X\r\n" % crc
    p1_samples = [b"A", b"/", b"\n", b"/\n", rd_good, rd_good * 2, b"8\r\n" + rd_good, b"/ABC5\xff\r\n!\r\n", b"/ABC5x\r\n\xff\xfe\r\n!00\r\n", b"/ABC5x\r\n!zz\r\n" + rd_good, b"!\r\n" + rd_good,
                  b"/ABC5x\r\n" + b"!\r\n", b"\r\n\r\n/\r\n!\r\n", b"/ABC5x\r\n!\xff\r\n" + rd_good, b"//ABC5x\r\n!!\r\n"]

    def splits(smp, full=True):
        yield [smp]
        if len(smp) > 1 and full:
            yield [smp[:len(smp) // 2], smp[len(smp) // 2:], b""]
        if 1 < len(smp) <= 60 and full:
            yield [smp[i:i + 1] for i in range(len(smp))]

    def run(ck, ctor_args, samples, entry):
        rd = M.find_method(ck, "read")
        if rd is None:
            return
        for smp in samples:
            for chunks in splits(smp, full=ctor_args in ((), (False, True), (True, False))):
                A = AbsEval(M)
                A.external_calls_opaque = True
                try:
                    obj = A.instantiate(ck, list(ctor_args))
                except Exception as ex:  # noqa
                    out.append((None, f"{ck[1]}() outside the interpreted subset: {type(ex).__name__}"))
                    return
                for c_ in chunks:
                    r = A.apply(rd, [obj, c_])
                    if r[0] == "raise":
                        out.append((entry, r[1], f"{ck[1]}({', '.join(map(str, ctor_args))}).read() fed {smp!r} as {len(chunks)} chunk(s): raises at chunk {c_!r}"[:300]))
                        return
                    if r[0] in ("undecided", "branch"):
                        out.append((None, f"{entry} outside the interpreted subset on a sample stream: {r[1]!r}"[:200]))
                        return
    for st in (False, True):
        for ab in (False, True):
            run(("hdlc", "HdlcFrameReader"), (st, ab), hdlc_samples, "hdlc.HdlcFrameReader.read")
    run(("dlde", "ModeDReader"), (), p1_samples, "dlde.ModeDReader.read")
    _SAMPLE_MEMO[key] = (src, out)
    return out


def _strip_ver(sv):
    if isinstance(sv, tuple):
        if sv and sv[0] == "prop" and len(sv) == 4:
            return ("prop", _strip_ver(sv[1]), sv[2])
        if sv and sv[0] == "len" and len(sv) == 3:
            return ("len", _strip_ver(sv[1]))
        return tuple(_strip_ver(x) for x in sv)
    return sv


def thorough(src, rep):
    from sa.selfval.harness import run_selfval
    run_selfval("C14", src, rep)
