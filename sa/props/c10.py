"""C10 - COSEM date-time fields decode to the same instant the meter sent (level: other).

R1 layout of cosem.DateTime (E-CONS); R2 the clock-status octet is consumed exactly once for every value class; R3 sentinels
(0xFF / 0x8000 -> None, every other value itself - incl. the +-720 boundary); R4 the computed datetime receives exactly the civil
fields, hundredths*10000 (0 when None) and timezone(timedelta(minutes=-deviation)) or None, independent of the clock status;
R5 every syntactic position reaches the same struct, consumes the type tag exactly once on the route (or none for the untagged APDU
form) and is not shadowed by an earlier Select alternative; R6 normalisers store the struct's datetime member unchanged.
"""
from __future__ import annotations

import ast

from sa.consir import EnumVal, Expr, N, World, all_nodes, consumption, routes
from sa.consteval import NotConstant
from sa.lameval import Ctx, LamEval, Sym
from sa.model import Model
from sa.report import Undecided

LEVEL = "other"
OCTET_STRING, NULL_DATA = 9, 0


def this_path(expr: Expr):
    """`construct.this._.content_type` -> (1, ['content_type']) : parent hops and member chain; None if not a this-path"""
    n = expr.node if isinstance(expr, Expr) else None
    names = []
    while isinstance(n, ast.Attribute):
        names.append(n.attr)
        n = n.value
    if not (isinstance(n, ast.Name) and n.id == "construct") or not names or names[-1] != "this":
        return None
    names = list(reversed(names[:-1]))
    hops = 0
    while names and names[0] == "_":
        hops += 1
        names.pop(0)
    return hops, names


def member(struct: N, name):
    for s in struct.a.get("subs", []):
        if isinstance(s, N) and s.name == name:
            return s
    return None


def consumed_tag_on_route(route, rep_note):
    """number of times the octet-string tag is consumed between the point where the element starts and the DateTime length octet"""
    count = 0
    notes = []
    ctxs = [i for i, (n, l) in enumerate(route) if n.kind in ("Struct", "FocusedSeq")]
    for j in range(len(route) - 1, -1, -1):
        node, label = route[j]
        k = node.kind
        if k in ("Struct", "FocusedSeq") and label[0] == "sub":
            idx = label[1]
            subs = [s for s in node.a["subs"][:idx] if isinstance(s, N)]
            for s in subs:
                if s.kind == "Const" and isinstance(s.a.get("value"), EnumVal) and s.a["value"].value == OCTET_STRING:
                    count += 1
                    notes.append(f"Const(octet_string) in {node.src or node.name or k}")
            # once we are inside a sequence that starts the element, stop at the first enclosing dispatch that is keyed on a *peeked* tag
        if k == "Switch" and label[0] in ("case", "default"):
            tp = this_path(node.a["key"])
            if tp is None:
                return None, ["switch key is not a this-path"]
            hops, names = tp
            enclosing = [i for i in ctxs if i < j]
            if len(enclosing) <= hops:
                return None, ["cannot resolve the switch key context"]
            holder = route[enclosing[-1 - hops]][0]
            fld = member(holder, names[0]) if names else None
            if fld is None:
                return None, [f"switch key member {names} not found"]
            if fld.kind == "Peek":
                notes.append(f"switch on peeked {names[0]}")
            else:
                if label[0] == "case" and isinstance(label[1], EnumVal) and label[1].value == OCTET_STRING:
                    count += 1
                    notes.append(f"tag consumed as {names[0]} in {holder.src or holder.name or holder.kind}")
                elif label[0] == "default":
                    notes.append("default branch of a consumed tag")
            break  # the dispatch on the element's type tag ends the element-local part of the route
        if k == "IfThenElse":
            break
    return count, notes


def check(src, rep):
    M = Model(src)
    le = LamEval(M)
    w = World(src)
    rep.count("modules", len(src.text))
    cos = w.module("cosem")
    dt = cos.env.get("DateTime")
    rep.require(isinstance(dt, N) and dt.kind == "Struct", "anchor vanished: cosem.DateTime")
    file = src.file("cosem")
    rep.assumptions += ["COSEM Blue Book 4.1.6.1 date-time layout (DESIGN.md A.2)", "Python datetime/timezone/timedelta semantics",
                        "construct 2.10 semantics of Struct/FocusedSeq/Switch/Peek/If/Select as summarised in sa/consir.py"]
    rep.explanation = ("Decided on the grammar IR extracted from the declarations: the DateTime struct has the Blue Book layout (length octet 12, big-endian year, signed 16-bit deviation, ...); for both "
                       "value classes of the peeked status octet the conditional members together consume exactly one octet; adapters map exactly 0xFF / 0x8000 to None and every other value to "
                       "itself (boundary values included); the Computed lambda passes year, month, day, hour, minute, second, hundredths*10000 (0 if None) and timezone(timedelta(minutes=-deviation)) "
                       "(None if unspecified), independent of the clock status; all positions of the three decoders and the APDU header reach this same struct with the type tag consumed exactly once "
                       "(none in the untagged APDU form) and no earlier Select alternative can swallow it; normalisers store the datetime member unchanged. datetime's own semantics are trusted.")
    subs = [s for s in dt.a["subs"] if isinstance(s, N)]
    # ---------------------------------------------------------------- R1 layout
    want = [(None, "Const12"), ("year", (2, False)), ("month", (1, False)), ("day_of_month", (1, False)), ("day_of_week", (1, False)),
            ("hour", "opt8"), ("minute", "opt8"), ("second", "opt8"), ("hundredths_of_second", "opt8"), ("deviation", "opt16s")]
    bad = 0

    def intspec(n):
        if n.kind == "Int":
            return (n.a["size"], n.a["signed"], n.a.get("endian", "big"))
        return None

    for i, (nm, spec) in enumerate(want):
        if i >= len(subs):
            bad += 1
            rep.violation("R1", "cosem.DateTime", f"layout:{nm}", "DateTime struct is shorter than the Blue Book layout", file, dt.line)
            break
        s = subs[i]
        ok = True
        why = ""
        if spec == "Const12":
            ok = s.kind == "Const" and s.a["value"] == 0x0C and isinstance(s.a.get("sub"), N) and intspec(s.a["sub"]) == (1, False, "big")
            why = "first member must be the constant length octet 0x0C"
        elif isinstance(spec, tuple):
            ok = s.name == nm and intspec(s) == (spec[0], spec[1], "big")
            why = f"member {i} must be `{nm}`: {spec[0]}-octet {'signed' if spec[1] else 'unsigned'} big-endian"
        elif spec in ("opt8", "opt16s"):
            inner = s.a.get("sub") if s.kind == "ExprAdapter" else (s if s.kind == "Int" else None)
            wsz = (1, False, "big") if spec == "opt8" else (2, True, "big")
            ok = s.name == nm and isinstance(inner, N) and intspec(inner) == wsz
            why = f"member {i} must be `{nm}` over a {wsz[0]}-octet {'signed' if wsz[1] else 'unsigned'} big-endian integer"
        if not ok:
            bad += 1
            rep.violation("R1", "cosem.DateTime", f"layout:{nm or 'length'}", f"DateTime layout differs from COSEM date-time: {why}", file, s.line or dt.line,
                          witness=f"found {s.name}:{s.kind}{intspec(s) or (intspec(s.a['sub']) if isinstance(s.a.get('sub'), N) else '')}")
    if not bad:
        rep.ok("R1", "layout", "0x0C, year u16, month, day-of-month, day-of-week u8, hour/minute/second/hundredths u8 (optional), deviation s16, all big-endian, in this order")
    # ---------------------------------------------------------------- R3 sentinels
    bad = 0
    for nm, sentinel, samples in (("hour", 0xFF, [0, 1, 23, 59, 254]), ("minute", 0xFF, [0, 59, 254]), ("second", 0xFF, [0, 59, 254]), ("hundredths_of_second", 0xFF, [0, 1, 99, 254]),
                                  ("deviation", -0x8000, [0, 1, -1, 60, -60, 719, -719, 720, -720, 721, 32767, -32767])):
        s = next((x for x in subs if x.name == nm), None)
        if s is None:
            continue
        if s.kind != "ExprAdapter":
            if nm in ("hundredths_of_second", "deviation"):
                bad += 1
                rep.violation("R3", "cosem.DateTime", f"sentinel:{nm}", f"`{nm}` has no adapter: the 'not specified' value is not mapped to None", file, s.line)
            continue
        dec = s.a["decoder"]
        if not (isinstance(dec, Expr) and isinstance(dec.node, (ast.Lambda, ast.FunctionDef))):
            raise Undecided(f"decoder of {nm} is not a lambda or a named function")
        try:
            got_s = le.call_lambda(dec.node, [sentinel, Ctx()], "cosem")
            wrong = [(v, le.call_lambda(dec.node, [v, Ctx()], "cosem")) for v in samples]
        except NotConstant as e:
            raise Undecided(f"decoder of {nm} outside the evaluable subset: {e}")
        wrong = [(v, g) for v, g in wrong if g != v]
        if got_s is not None:
            bad += 1
            rep.violation("R3", "cosem.DateTime", f"sentinel:{nm}", f"the 'not specified' value {hex(sentinel & 0xFFFF)} of `{nm}` is not decoded as None", file, s.line, witness=f"decoder({sentinel}) = {got_s}")
        if wrong:
            bad += 1
            rep.violation("R3", "cosem.DateTime", f"value:{nm}", f"a specified value of `{nm}` is not decoded as itself", file, s.line, witness=f"decoder({wrong[0][0]}) = {wrong[0][1]}")
    if not bad:
        rep.ok("R3", "sentinels", "0xFF -> None for hour/minute/second/hundredths, 0x8000 -> None for deviation; every other sampled value (incl. +-720, +-719) decodes to itself")
    # ---------------------------------------------------------------- R2 status octet
    after = subs[len(want):]
    peek = next((s for s in after if s.kind == "Peek"), None)
    comp = next((s for s in after if s.kind == "Computed" and s.name == "datetime"), None) or next((s for s in after if s.kind == "Computed"), None)
    conds = [s for s in after if s.kind == "If"]
    rep.require(comp is not None, "DateTime has no Computed datetime member")
    if peek is None:
        plain = [s for s in after if s.kind in ("Int", "BitStruct", "Enum")]
        if sum(consumption(s)[0] for s in plain) == 1:
            rep.ok("R2", "status octet", "consumed unconditionally as one octet")
        else:
            rep.violation("R2", "cosem.DateTime", "status-octet", "the clock-status octet is not consumed exactly once", file, dt.line)
    else:
        pdec = peek.a["sub"]
        classes = []
        for raw in (0xFF, 0x00, 0x01, 0x80):
            v = raw
            if pdec.kind == "ExprAdapter":
                try:
                    v = le.call_lambda(pdec.a["decoder"].node, [raw, Ctx()], "cosem")
                except NotConstant as e:
                    raise Undecided(f"status peek decoder: {e}")
            classes.append((raw, v))
        badc = 0
        for raw, v in classes:
            total = 0
            for c in conds:
                try:
                    t = le.eval_this(c.a["cond"].node, Ctx({peek.name: v}), "cosem")
                except NotConstant as e:
                    raise Undecided(f"status condition outside the evaluable subset: {e}")
                if t:
                    lo, hi = consumption(c.a["sub"])
                    if lo != hi:
                        raise Undecided("conditional status member of variable size")
                    total += lo
            for s in after:
                if s.kind in ("Int", "BitStruct", "Enum") and s is not peek:
                    total += consumption(s)[0]
            if total != 1:
                badc += 1
                rep.violation("R2", "cosem.DateTime", "status-octet", f"for status octet {hex(raw)} the members after the deviation consume {total} octets instead of exactly one", file, peek.line,
                              witness=f"peeked value class {v!r}")
        if not badc:
            rep.ok("R2", "status octet", f"for each value class of the peeked octet ({[hex(r) for r, _ in classes]}) the conditional members consume exactly one octet; Peek consumes none")
    # ---------------------------------------------------------------- R4 computed value
    _computed(rep, le, comp, file, dt)
    # every Check of the struct holds for every valid date-time with a specified time of day (it may only reject unspecified times)
    checks = [s for s in subs if s.kind == "Check"]
    badc = 0
    for c in checks:
        ex = c.a.get("expr")
        if not isinstance(ex, Expr):
            continue
        for year in (1, 4, 1970, 1999, 2000, 2021, 2024, 2099, 2100, 9999):
            leap_ = year % 4 == 0 and (year % 100 != 0 or year % 400 == 0)
            for (mo, d, h, mi, se) in ((1, 1, 0, 0, 0), (12, 31, 23, 59, 59), (2, 29 if leap_ else 28, 12, 30, 30)):
                ctx = Ctx({"year": year, "month": mo, "day_of_month": d, "day_of_week": 1, "hour": h, "minute": mi, "second": se, "hundredths_of_second": None, "deviation": None,
                           "clock_status_byte": 0xFF, "clock_status": None})
                try:
                    ok_ = le.call_lambda(ex.node, [ctx], "cosem") if isinstance(ex.node, (ast.Lambda, ast.FunctionDef)) else le.eval_this(ex.node, ctx, "cosem")
                except NotConstant as e:
                    ok_ = True  # needs a whole parse context (conditional members) or the datetime library itself: decided by the context rule below
                if not ok_ and not badc:
                    badc += 1
                    rep.violation("R1", "cosem.DateTime", "check-rejects-valid", "a Check of the date-time struct rejects a valid date-time with a specified time of day: such clocks (e.g. a meter clock reset to an early year) are not decoded at all",
                                  file, c.line or dt.line, witness=f"year={year} month={mo} day={d} {h}:{mi}:{se}: {ex.src[:80]}")
    if checks and not badc:
        rep.ok("R1", f"{len(checks)} Check member(s)", "accept every sampled valid date-time with a specified time of day (years 1..9999)")
    # ---------------------------------------------------------------- R1 (cont.): every Check / Computed member on whole parse contexts
    _members_on_contexts(rep, M, dt, file)
    # ---------------------------------------------------------------- R5 routes
    _routes(rep, w, dt, src)
    # ---------------------------------------------------------------- R6 normalisers
    _normalisers(rep, M, src)


def _computed(rep, le, comp, file, dt=None):
    lam = comp.a["expr"]
    if not (isinstance(lam, Expr) and isinstance(lam.node, (ast.Lambda, ast.FunctionDef))):
        raise Undecided("datetime member is not Computed(lambda / named function)")
    bad = 0
    n = 0
    for hund in (None, 0, 1, 50, 99):
        for dev in (None, 0, 60, -60, 120, 720, -720, 1, -1, 210, -210, 570, 719, -719):
            for dst in (0, 1):
                status = Ctx({"invalid_value": 0, "doubtful_value": 0, "different_clock_base": 0, "invalid_clock_status": 0, "daylight_saving_active": dst})
                ctx = Ctx({"year": 2021, "month": 7, "day_of_month": 15, "day_of_week": 4, "hour": 13, "minute": 37, "second": 58, "hundredths_of_second": hund, "deviation": dev,
                           "clock_status": status, "clock_status_byte": 0x80 if dst else 0})
                try:
                    # other Computed members declared before the datetime are part of the context it sees (construct evaluates members in order)
                    for m_ in (dt.a.get("subs", []) if dt is not None else []):
                        if m_ is comp:
                            break
                        if isinstance(m_, N) and m_.kind == "Computed" and m_.name and m_.name not in ctx and isinstance(m_.a.get("expr"), Expr) and isinstance(m_.a["expr"].node, (ast.Lambda, ast.FunctionDef)):
                            ctx[m_.name] = le.call_lambda(m_.a["expr"].node, [ctx], "cosem")
                    got = le.call_lambda(lam.node, [ctx], "cosem")
                except NotConstant as e:
                    # not a plain constructor expression (helpers, tables of time zones, replace()): evaluated with the datetime library itself on this cell
                    import datetime as _dt
                    RE = _RealEval(le.M)
                    try:
                        ctx2 = Ctx(dict(ctx))
                        real = RE.call_lambda(lam.node, [ctx2], "cosem", extra=dict(RE.module_env("cosem")))
                    except _MemberRaises as ex_:
                        if bad < 3:
                            bad += 1
                            rep.violation("R4", "cosem.DateTime", "computed:raises", f"building the datetime raises {ex_.cls} for a valid transmitted date-time", file, comp.line,
                                          witness=f"hundredths={hund} deviation={dev} daylight_flag={dst}: {ex_}")
                        n += 1
                        continue
                    except NotConstant as e2:
                        raise Undecided(f"datetime lambda outside the evaluable subset: {e}; with the datetime library: {e2}")
                    n += 1
                    want_real = _dt.datetime(2021, 7, 15, 13, 37, 58, 0 if hund is None else hund * 10000, tzinfo=None if dev is None else _dt.timezone(_dt.timedelta(minutes=-dev)))
                    same = isinstance(real, _dt.datetime) and (real.tzinfo is None) == (want_real.tzinfo is None) and real == want_real and real.utcoffset() == want_real.utcoffset()
                    if not same and bad < 3:
                        bad += 1
                        k_ = "microsecond" if isinstance(real, _dt.datetime) and real.microsecond != want_real.microsecond else "tzinfo" if isinstance(real, _dt.datetime) and real.utcoffset() != want_real.utcoffset() else "instant"
                        what_ = {"microsecond": "microseconds are not hundredths x 10000 (0 when unspecified)", "tzinfo": "the UTC offset is not minus the deviation / no time zone when the deviation is unspecified"}.get(
                            k_, "the civil fields are not the transmitted ones")
                        rep.violation("R4", "cosem.DateTime", f"computed:{k_}", f"the decoded datetime differs from the transmitted instant: {what_}", file, comp.line,
                                      witness=f"hundredths={hund} deviation={dev} daylight_flag={dst}: {real!r} expected {want_real!r}")
                    continue
                n += 1
                if isinstance(got, Sym) and got[1] != "datetime.datetime":
                    # built by date-time arithmetic (datetime + timedelta ...): the constructors are pure library functions, so the expression is
                    # evaluated with them on this cell's concrete fields and compared as an instant
                    import datetime as _dt
                    try:
                        real = _realize(got)
                    except (ValueError, OverflowError, TypeError) as ex_:
                        if bad < 3:
                            bad += 1
                            rep.violation("R4", "cosem.DateTime", "computed:raises", f"building the datetime raises {type(ex_).__name__} for a valid transmitted date-time", file, comp.line,
                                          witness=f"hundredths={hund} deviation={dev} daylight_flag={dst}: {ex_}")
                        continue
                    except NotConstant as ex_:
                        raise Undecided(f"datetime lambda does not build a datetime.datetime ({ex_})")
                    want_real = _dt.datetime(2021, 7, 15, 13, 37, 58, 0 if hund is None else hund * 10000, tzinfo=None if dev is None else _dt.timezone(_dt.timedelta(minutes=-dev)))
                    same = isinstance(real, _dt.datetime) and (real.tzinfo is None) == (want_real.tzinfo is None) and real == want_real and real.utcoffset() == want_real.utcoffset()
                    if not same and bad < 3:
                        bad += 1
                        rep.violation("R4", "cosem.DateTime", "computed:instant", "the decoded datetime differs from the transmitted instant", file, comp.line,
                                      witness=f"hundredths={hund} deviation={dev} daylight_flag={dst}: {real!r} expected {want_real!r}")
                    continue
                if not (isinstance(got, Sym) and got[1] == "datetime.datetime"):
                    raise Undecided("datetime lambda does not build a datetime.datetime")
                args = list(got[2])
                kw = dict(got[3])
                names = ["year", "month", "day", "hour", "minute", "second", "microsecond", "tzinfo"]
                full = {}
                for i, a in enumerate(args):
                    full[names[i]] = a
                full.update(kw)
                want_tz = None if dev is None else Sym("datetime.timezone", [Sym("datetime.timedelta", [], [("minutes", -dev)])])
                tz = full.get("tzinfo")
                if isinstance(tz, Sym) and tz[1] == "datetime.timezone" and tz[2] and isinstance(tz[2][0], Sym) and tz[2][0][1] == "datetime.timedelta":
                    td = tz[2][0]
                    mins = dict(td[3]).get("minutes")
                    secs = dict(td[3]).get("seconds")
                    hrs = dict(td[3]).get("hours")
                    total = (mins or 0) + (secs or 0) / 60 + (hrs or 0) * 60 if not td[2] else None
                    tz_norm = ("tz", total)
                else:
                    tz_norm = tz
                want_norm = None if dev is None else ("tz", -dev)
                want = {"year": 2021, "month": 7, "day": 15, "hour": 13, "minute": 37, "second": 58, "microsecond": 0 if hund is None else hund * 10000}
                diffs = [k for k, v in want.items() if full.get(k, 0 if k == "microsecond" else None) != v]
                if tz_norm != want_norm:
                    diffs.append("tzinfo")
                if diffs and bad < 3:
                    bad += 1
                    k = diffs[0]
                    what = {"microsecond": "microseconds are not hundredths x 10000 (0 when unspecified)", "tzinfo": "the UTC offset is not minus the deviation (or depends on the clock status) / no time zone when the deviation is unspecified"}.get(
                        k, f"constructor argument `{k}` is not the transmitted {k}")
                    rep.violation("R4", "cosem.DateTime", f"computed:{k}", f"the decoded datetime differs from the transmitted instant: {what}", file, comp.line,
                                  witness=f"hundredths={hund} deviation={dev} daylight_flag={dst}: {k} = {full.get(k) if k != 'tzinfo' else tz_norm} expected {want.get(k) if k != 'tzinfo' else want_norm}")
    rep.count("computed_cells", n)
    if not bad:
        rep.ok("R4", "computed datetime", f"{n} value-class cells: arguments are (year, month, day_of_month, hour, minute, second, hundredths*10000 or 0, timezone(timedelta(minutes=-deviation)) or None), independent of the clock status")


class _RealEval(LamEval):
    """LamEval in which the datetime library is the library itself: its constructors and methods are pure, so on concrete fields the members of the struct
    are evaluated exactly (including the exceptions they raise)"""

    def eval(self, e, env, mod):
        import datetime as _dt
        if isinstance(e, ast.Name) and e.id == "datetime" and e.id not in env:
            return _dt
        if isinstance(e, ast.Name):
            v_ = env.get(e.id)
            if v_ is None and e.id not in env and mod in self.M.mods:
                v_ = self.module_env(mod).get(e.id)
            if type(v_).__name__ == "Opaque" and getattr(v_, "what", "") == "external datetime":
                return _dt  # `import datetime`: the library itself
        if isinstance(e, ast.Attribute):
            base = self.eval(e.value, env, mod)
            if base is _dt or isinstance(base, (_dt.datetime, _dt.date, _dt.time, _dt.timedelta, _dt.timezone, type)) and getattr(base, "__module__", "datetime") == "datetime":
                try:
                    return getattr(base, e.attr)
                except AttributeError:
                    raise _MemberRaises("AttributeError", e.attr)
            if base is None:
                raise _MemberRaises("AttributeError", f"None.{e.attr}")
        if isinstance(e, ast.Call):
            import types
            f = None
            try:
                f = self.eval(e.func, env, mod)
            except NotConstant:
                f = None
            if f is not None and (getattr(f, "__module__", None) == "datetime" or (isinstance(f, (types.BuiltinMethodType, types.MethodDescriptorType, types.BuiltinFunctionType)) and
                                                                                 type(getattr(f, "__self__", None)).__module__ == "datetime")):
                args = [self.eval(a, env, mod) for a in e.args]
                kw = {k.arg: self.eval(k.value, env, mod) for k in e.keywords if k.arg}
                try:
                    return f(*args, **kw)
                except (ValueError, OverflowError, TypeError) as ex:
                    raise _MemberRaises(type(ex).__name__, str(ex))
        if isinstance(e, ast.BinOp):
            a, b = self.eval(e.left, env, mod), self.eval(e.right, env, mod)
            if type(a).__module__ == "datetime" or type(b).__module__ == "datetime":
                import operator
                try:
                    return {ast.Add: operator.add, ast.Sub: operator.sub, ast.Mult: operator.mul}[type(e.op)](a, b)
                except KeyError:
                    raise NotConstant("operator on a date-time value")
                except (ValueError, OverflowError, TypeError) as ex:
                    raise _MemberRaises(type(ex).__name__, str(ex))
        if isinstance(e, ast.Compare) and len(e.ops) == 1 and isinstance(e.ops[0], (ast.Is, ast.IsNot)):
            a, b = self.eval(e.left, env, mod), self.eval(e.comparators[0], env, mod)
            return (a is b) if isinstance(e.ops[0], ast.Is) else (a is not b)
        return super().eval(e, env, mod)


class _MemberRaises(Exception):
    def __init__(self, cls, msg=""):
        super().__init__(f"{cls}: {msg}")
        self.cls = cls


def _members_on_contexts(rep, M, dt, file):
    """whole parse contexts of the struct, built member by member from raw field values the way construct does (adapters applied, conditional members
    by their condition, bit fields MSB first); every Check must hold and every Computed member must evaluate for every valid date-time"""
    re_ = _RealEval(M)
    subs = [s for s in dt.a.get("subs", []) if isinstance(s, N)]
    n = 0
    bad = None
    years = ((1, 1, 1, 0, 0, 0), (1, 1, 1, 0, 30, 0), (9999, 12, 31, 23, 30, 59), (2021, 2, 28, 12, 0, 0), (2024, 2, 29, 23, 59, 59), (1970, 1, 1, 0, 0, 0),
             (2000, 2, 29, 0, 0, 0), (2400, 2, 29, 12, 0, 0), (1600, 2, 29, 6, 0, 0), (1900, 2, 28, 23, 59, 59), (2100, 3, 1, 0, 0, 0), (4, 2, 29, 0, 0, 0))
    for (y, mo, d, h, mi, se) in years:
        for dev in (None, 0, 60, -60, 720, -720):
            for status in (0x00, 0x01, 0x0F, 0x80, 0xC0, 0xFE, 0xFF):
                for hund in (None, 0, 99):
                    for dow in (1, 7, 0xFF):
                        raw = {"year": y, "month": mo, "day_of_month": d, "day_of_week": dow, "hour": h, "minute": mi, "second": se, "hundredths_of_second": 0xFF if hund is None else hund,
                               "deviation": -0x8000 if dev is None else dev}
                        ctx = Ctx()
                        try:
                            for s_ in subs:
                                k = s_.kind
                                if k == "ExprAdapter" and s_.name:
                                    decd = s_.a.get("decoder")
                                    rawv = raw.get(s_.name, 0)
                                    ctx[s_.name] = re_.call_lambda(decd.node, [rawv, ctx], decd.mod or "cosem") if isinstance(decd, Expr) else rawv
                                elif k == "Int" and s_.name:
                                    ctx[s_.name] = raw.get(s_.name, 0)
                                elif k == "Peek" and s_.name:
                                    ctx[s_.name] = status
                                elif k == "If" and s_.name and isinstance(s_.a.get("sub"), N) and s_.a["sub"].kind == "BitStruct":
                                    cond = s_.a.get("cond")
                                    take = re_.eval_this(cond.node, ctx, cond.mod or "cosem") if isinstance(cond, Expr) and not isinstance(cond.node, (ast.Lambda, ast.FunctionDef)) else \
                                        re_.call_lambda(cond.node, [ctx], cond.mod or "cosem") if isinstance(cond, Expr) else True
                                    if take:
                                        bits, pos = Ctx(), 8
                                        for b_ in s_.a["sub"].a.get("subs", []):
                                            if isinstance(b_, N) and b_.kind == "BitsInteger":
                                                wdt = b_.a.get("bits", 1)
                                                pos -= wdt
                                                if b_.name:
                                                    bits[b_.name] = (status >> pos) & ((1 << wdt) - 1)
                                        ctx[s_.name] = bits
                                    else:
                                        ctx[s_.name] = None
                                elif k == "Computed" and s_.name and isinstance(s_.a.get("expr"), Expr):
                                    ex_ = s_.a["expr"]
                                    ctx[s_.name] = re_.call_lambda(ex_.node, [ctx], ex_.mod or "cosem") if isinstance(ex_.node, (ast.Lambda, ast.FunctionDef)) else re_.eval_this(ex_.node, ctx, ex_.mod or "cosem")
                                elif k == "Check" and isinstance(s_.a.get("expr"), Expr):
                                    ex_ = s_.a["expr"]
                                    okc = re_.call_lambda(ex_.node, [ctx], ex_.mod or "cosem") if isinstance(ex_.node, (ast.Lambda, ast.FunctionDef)) else re_.eval_this(ex_.node, ctx, ex_.mod or "cosem")
                                    if not okc and hund != -1:
                                        # a Check may reject only an unspecified time of day (the datetime cannot be built then)
                                        bad = bad or ("check-rejects-valid", s_, f"a Check rejects the valid date-time {y}-{mo}-{d} {h}:{mi}:{se} (deviation {dev}, status {hex(status)}, day of week {dow})")
                            n += 1
                        except _MemberRaises as ex:
                            bad = bad or ("member-raises", s_, f"member `{s_.name or s_.kind}` raises {ex.cls} for the valid date-time {y}-{mo}-{d} {h}:{mi}:{se} (deviation {dev}, status {hex(status)}, "
                                          f"hundredths {hund}, day of week {dow}): the date-time (and with it the whole message) is not decoded")
                        except NotConstant as ex:
                            if "of None" in str(ex):
                                bad = bad or ("member-raises", s_, f"member `{s_.name or s_.kind}` fails for the valid date-time {y}-{mo}-{d} {h}:{mi}:{se} (status {hex(status)}, deviation {dev}): {ex}")
                            else:
                                rep.undecide(f"R1 member {s_.name or s_.kind} of DateTime outside the evaluable subset: {ex}")
                                return
                        if bad:
                            break
                    if bad:
                        break
                if bad:
                    break
            if bad:
                break
        if bad:
            break
    rep.count("datetime_contexts", n)
    if bad:
        rep.violation("R1", "cosem.DateTime", bad[0], bad[2], file, bad[1].line or dt.line or 1)
    else:
        rep.ok("R1", f"{n} parse contexts", "every Check holds and every Computed member evaluates for valid date-times at the ends of the calendar, every deviation class, clock-status octets "
               "0x00..0xFF classes, specified / unspecified hundredths and day of week")


def _realize(v):
    """a symbolic record of calls to datetime constructors / date-time arithmetic, evaluated with the library itself"""
    import datetime as _dt
    if isinstance(v, Sym):
        name, args, kw = v[1], [_realize(a) for a in v[2]], {k: _realize(x) for k, x in v[3]}
        table = {"datetime.datetime": _dt.datetime, "datetime.timezone": _dt.timezone, "datetime.timedelta": _dt.timedelta, "datetime.date": _dt.date, "datetime.time": _dt.time}
        if name in table:
            return table[name](*args, **kw)
        if name == "datetime.timezone.utc":
            return _dt.timezone.utc
        if name in ("op:Add", "op:Sub") and len(args) == 2:
            return args[0] + args[1] if name == "op:Add" else args[0] - args[1]
        raise NotConstant(f"no library summary for {name}")
    if isinstance(v, (int, float, str, type(None), bool)):
        return v
    raise NotConstant(f"value {v!r} in a date-time expression")


def _routes(rep, w, dt, src):
    n_routes = 0
    bad = 0
    seen_pos = set()
    for mod, names in (("aidon", ["LlcPdu", "NotificationBody"]), ("kaifa", ["LlcPdu", "NotificationBody"]), ("kamstrup", ["LlcPdu", "NotificationBody"])):
        m = w.module(mod)
        for nm in names:
            g = m.env.get(nm)
            if not isinstance(g, N):
                raise Undecided(f"grammar {mod}.{nm} could not be extracted")
            rs = list(routes(g, dt))
            if not rs:
                bad += 1
                rep.violation("R5", f"{mod}.{nm}", "no-route", "this grammar no longer reaches cosem.DateTime (clock element / APDU date-time decoded by something else)", src.file(mod), g.line or 1)
            for r in rs:
                n_routes += 1
                is_apdu_default = any(n.kind == "Switch" and l == ("default",) and n.name == "DateTime" for n, l in r)
                cnt, notes = consumed_tag_on_route(r, None)
                if cnt is None:
                    rep.undecide(f"R5 route in {mod}.{nm}: {notes}")
                    continue
                want = 0 if is_apdu_default else 1
                pos = (mod, "apdu-untagged" if is_apdu_default else "apdu-tagged" if any(n.name == "DateTime" and n.kind == "Switch" for n, l in r) else "element")
                seen_pos.add(pos)
                if cnt != want:
                    bad += 1
                    rep.violation("R5", f"{mod}.{nm}", f"tag-discipline:{pos[1]}", f"on this route the octet-string tag is consumed {cnt} time(s) before the date-time length octet instead of {want}",
                                  src.file(mod), g.line or 1, witness="; ".join(notes) or "no tag consumed")
                # Select shadowing: where DateTime is a direct alternative of a Select it must be tried first
                if r and r[-1][0].kind == "Select" and r[-1][1][0] == "alt" and r[-1][1][1] > 0:
                    sel = r[-1][0]
                    bad += 1
                    rep.violation("R5", f"{mod}.{nm}", "select-shadowing", "another alternative is tried before the date-time struct: a date-time whose octets are all ASCII is decoded as text instead of a clock",
                                  src.file("cosem"), sel.line or 1, witness=f"DateTime is alternative #{r[-1][1][1]} of the Select")
    # null-date branch of the APDU switch consumes exactly the null tag
    apdu_sw = None
    for mod in ("aidon",):
        g = w.module(mod).env.get("LlcPdu")
        for n in all_nodes(g):
            if n.kind == "Switch" and n.name == "DateTime":
                apdu_sw = n
    if apdu_sw is not None:
        for key, sub in apdu_sw.a["cases"].items():
            if isinstance(key, EnumVal) and key.value == NULL_DATA and consumption(sub) != (1, 1):
                bad += 1
                rep.violation("R5", "cosem._get_apdu_struct", "null-date", "a null APDU date-time does not consume exactly its one tag octet", src.file("cosem"), apdu_sw.line or 1)
    rep.count("routes", n_routes)
    if not bad:
        rep.ok("R5", f"{n_routes} routes / {len(seen_pos)} positions", "every position reaches the same DateTime node; tag consumed exactly once (never for the untagged APDU form); DateTime is the first Select alternative")
    rep.floor("routes to DateTime", n_routes, 12)


def _normalisers(rep, M, src):
    """every normaliser stores the struct's datetime member unchanged: decided by the decoders' own abstract evaluation (E-ABS), where the clock is a symbolic value"""
    from sa.cross import include
    include(rep, src, "C07", {"R5"}, "R6", "the Aidon normaliser stores the clock element's datetime unchanged")
    include(rep, src, "C08", {"R1", "R4"}, "R6", "the Kaifa normalisers store the list clock / APDU date-time unchanged, in every documented layout")
    include(rep, src, "C09", {"R2", "R5"}, "R6", "the Kamstrup normalisers store the list clock / APDU date-time unchanged (for every clock status)")


def thorough(src, rep):
    from sa.selfval.harness import run_selfval
    run_selfval("C10", src, rep)
