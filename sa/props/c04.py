"""C04 - P1: a readout is reported valid only if its CRC16 and identification check out (level: other).

R1 CRC definition (E-BITLIN: per-octet body = CRC-16/ARC step, fold from 0, no final xor); R2 CRC window = [0 : pos('!')+1] of the stored
readout, which starts with '/'; R3 a present checksum is always compared (presence decided by `is None`, never by truthiness) with the
computed CRC as integers; R4 the parsed checksum is int(text after '!', 16), absent only when that text is empty; R5 identification:
is_valid is False when the identification line does not parse, and L(strict spec) <= L(pattern) <= L(lenient spec) (DFA inclusion);
R6 payload slice; only non-ASCII data can make an otherwise good readout invalid.
"""
from __future__ import annotations

import ast

from sa.bitlin import BV, SymExec, Top, Vars, ref_crc_reflected_step
from sa.consteval import ConstEval, NotConstant
from sa.model import Model
from sa.paths import Engine, loop_paths_at, show_sv, strip_epoch
from sa.regexa import Unsupported, to_dfa, witness_not_included
from sa.report import Undecided

LEVEL = "other"
MOD = "dlde"
CLS = (MOD, "DataReadout")
SELF = ("self0",)
POLY = 0xA001
STRICT = r"^/[A-Z][A-Z][a-zA-Z][0-9](\\[a-zA-Z0-9_])*[ -~]{1,16}(\r\n)?$"
LENIENT = r"^/[A-Z][A-Z][a-zA-Z][0-9](\\[a-zA-Z0-9_])*[ -~]{0,16}(\r\n)?\n?$"
SLASH, BANG, LF = 0x2F, 0x21, 0x0A


def F(n):
    return ("f0", SELF, n)


def check(src, rep):
    M = Model(src)
    ce = ConstEval(M)
    file = src.file(MOD)
    rep.count("modules", len(src.text))
    C = M.classes.get(CLS)
    rep.require(C is not None, "anchor vanished: dlde.DataReadout")
    for n in ("__init__", "is_valid", "payload", "expected_checksum"):
        rep.require(n in C.methods, f"anchor vanished: DataReadout.{n}")
    rep.assumptions += ["CRC-16/ARC = reflected polynomial 0xA001, initial value 0, no final xor (IEC 62056-21 mode D / DSMR P1)",
                        "Python re, int(text, 16), bytes.find and slicing semantics"]
    rep.explanation = ("Decided: the CRC loop body equals the CRC-16/ARC octet step for symbolic register and octet, folded from 0 over exactly readout[0 : pos('!')+1] of a stored readout that "
                       "starts with '/'; is_valid decides presence of the transmitted checksum with `is None` (so 0000 is compared like any other value) and compares it as an integer with the "
                       "computed CRC on every path that returns True; the transmitted checksum is int(text after '!', 16) and absent only for empty text; a failing identification line gives False; "
                       "the identification pattern lies between the strict and the lenient form of the standard's syntax (DFA inclusion both ways); payload = bytes between the first LF and '!'. "
                       "NOT decided: the composition into 'valid iff ...' over all readouts.")
    init = C.methods["__init__"]
    _history_independence(rep, M, C, file)
    _correct_catalogue(rep, M, C, file)
    E0 = Engine(M, split_ifexp=True)
    pi = [p for p in E0.run(init) if p.status == "run"]
    rep.require(len(pi) == 1, "DataReadout.__init__ has no unique non-raising path")
    p0 = pi[0]
    writes = {e[2]: e[3] for e in p0.effects if e[0] == "write" and e[1] == SELF}
    # roles
    RO = next((k for k, v in writes.items() if _mentions(v, lambda s: s == ("p", init.params[0])) and not _mentions(v, lambda s: s[0] == "call" and ".find" in str(s[1]))), None)
    rep.require(RO is not None, "cannot bind the stored-readout field")
    stored = writes[RO]
    END = next((k for k, v in writes.items() if _is_find(v, stored, BANG)), None)
    DATA = next((k for k, v in writes.items() if v[0] == "op" and v[1] == "Add" and _is_find(v[2], stored, LF) and v[3] == ("c", 1)), None)
    rep.require(END is not None and DATA is not None, f"cannot bind end-position / data-position fields (writes: {sorted(writes)})")
    # the CRC fold: the single loop executed on the constructor's path (in __init__ itself or in a helper it calls, however the window is passed);
    # the CRC field is the one that receives the value the fold leaves in its accumulator
    folds = [le for le in E0.loop_entries if isinstance(le[1], ast.For)]
    seen_nodes = []
    folds = [le for le in folds if not (le[1] in seen_nodes or seen_nodes.append(le[1]))]
    CRCF = None
    if len(folds) == 1:
        crcfn, foldnode, foldfr, foldentry = folds[0]
        CRCF = next((k for k, v in writes.items() if v[0] == "havoc" and v[2] == foldnode.lineno), None)
    if CRCF is None:
        # the checksum is not computed in the constructor and stored in a field (e.g. computed lazily, on first use): the structural rules R1-R3 have nothing to bind to.
        # The same clauses are then decided on concrete readouts through the public API (E-ABS): correct ones must be valid (above), damaged ones must not be.
        und_ = _damaged_catalogue(rep, M, C, file)
        if und_:
            rep.undecide(f"cannot find the CRC fold reached from DataReadout.__init__ ({len(folds)} loops), and the concrete catalogue is outside the interpreted subset: {und_}"[:300])
        _expected(rep, M, C, RO, END, file)
        _ident(rep, M, ce, file)
        _ident_line_strict(rep, M, C, RO, DATA, file)
        _payload(rep, M, C, RO, DATA, END, file, src)
        return
    # ---------------------------------------------------------------- R2: readout starts with '/', end found
    raises = [p for p in Engine(M).run(init) if p.status == "raise"]
    def _canon(g, pol):
        """comparison guard with the constant on the right and NotEq folded into the polarity"""
        if g[0] != "cmp":
            return None
        op, a, b = g[1], g[2], g[3]
        if a[0] == "c" and b[0] != "c":
            a, b = b, a
            op = {"Lt": "Gt", "Gt": "Lt", "LtE": "GtE", "GtE": "LtE"}.get(op, op)
        if op == "NotEq":
            op, pol = "Eq", not pol
        return op, a, b, pol

    def _first_is_slash(g, pol):
        c = _canon(g, pol)
        return c is not None and c[0] == "Eq" and c[1] == ("sub", stored, ("c", 0)) and c[2] == ("c", SLASH) and c[3]

    def _found(g, pol):
        """the guard says find('!') gave a position (find returns -1 or a position >= 0)"""
        c = _canon(g, pol)
        if c is None or not _is_find(c[1], stored, BANG) or c[2][0] != "c":
            return False
        op, k, pl = c[0], c[2][1], c[3]
        return (op, k, pl) in (("Eq", -1, False), ("Lt", 0, False), ("LtE", -1, False), ("GtE", 0, True), ("Gt", -1, True))
    starts_slash = any(_first_is_slash(g, pol) for g, pol, _ in p0.guards)
    has_end = any(_found(g, pol) for g, pol, _ in p0.guards)
    if starts_slash and has_end and all(any(e[0] == "raise" and str(e[1]).startswith("ValueError") for e in p.effects) for p in raises):
        rep.ok("R2", "constructor", "stores the readout only if it starts with '/' and contains '!' (ValueError otherwise)")
    else:
        # the tests are not in a recognised form: the constructor is interpreted on representative byte strings (E-ABS)
        from sa.abseval import AbsEval, AbsRaise
        outcome = {}
        for tag_, sample in (("no-slash", b"X/ABC5x\r\n1-0:1.8.0(1*kWh)\r\n!\r\n"), ("no-end", b"/ABC5x\r\n1-0:1.8.0(1*kWh)\r\n"), ("good", b"/ABC5x\r\n1-0:1.8.0(1*kWh)\r\n!\r\n"),
                             ("good-leading-space", b"\r\n /ABC5x\r\n1-0:1.8.0(1*kWh)\r\n!AB12\r\n")):
            try:
                AbsEval(M).instantiate(CLS, [sample])
                outcome[tag_] = "constructed"
            except AbsRaise as ex_:
                outcome[tag_] = ex_.cls
            except Exception as ex_:  # noqa
                outcome[tag_] = f"?{type(ex_).__name__}"
        if outcome["no-slash"] == "constructed" or outcome["no-end"] == "constructed":
            rep.violation("R2", f"{MOD}.DataReadout.__init__", "constructor-checks", "a DataReadout can be constructed from bytes that do not start with '/' or have no '!'", file, init.node.lineno,
                          witness=str(outcome))
        elif outcome["good"] != "constructed" or outcome["good-leading-space"] != "constructed":
            if str(outcome["good"]).startswith("?") or str(outcome["good-leading-space"]).startswith("?"):
                rep.undecide(f"R2 the constructor's tests are not in a recognised form and it is outside the interpreted subset ({outcome})")
            else:
                rep.violation("R2", f"{MOD}.DataReadout.__init__", "constructor-rejects", "the constructor refuses a well-formed readout", file, init.node.lineno, witness=str(outcome))
        else:
            # the tests are written in a form the path rule does not read: more representatives, through the interpreter
            more = {}
            for tag_, sample, want_ in (("empty", b"", "raise"), ("only-end", b"!\r\n", "raise"), ("slash-later", b"X\r\n/ABC5x\r\n!\r\n", "raise"), ("only-slash", b"/", "raise"),
                                        ("minimal", b"/!", "constructed"), ("blank-then-good", b" \t\r\n/ABC5x\r\n!\r\n", "constructed")):
                try:
                    AbsEval(M).instantiate(CLS, [sample])
                    got_ = "constructed"
                except AbsRaise:
                    got_ = "raise"
                except Exception as ex_:  # noqa
                    got_ = f"?{type(ex_).__name__}"
                more[tag_] = (got_, want_)
            if all(g_ == w_ for g_, w_ in more.values()):
                rep.ok("R2", "constructor (representatives)", f"its '/' and '!' tests are not in a form the path rule reads; on {len(outcome) + len(more)} representative byte strings it accepts "
                       "exactly those that start with '/' (after leading white space) and contain '!' (E-ABS)")
            elif any(g_.startswith("?") for g_, _ in more.values()):
                rep.undecide(f"R2 the constructor's '/' and '!' tests are not in a recognised form and some representatives are outside the interpreted subset ({more})")
            else:
                bad_ = {k_: v_ for k_, v_ in more.items() if v_[0] != v_[1]}
                rep.violation("R2", f"{MOD}.DataReadout.__init__", "constructor-checks", "the constructor does not accept exactly the byte strings that start with '/' and contain '!'", file, init.node.lineno,
                              witness=str(bad_)[:200])
    # ---------------------------------------------------------------- R1 + R2: CRC fold
    window = E0.ev(foldnode.iter, foldentry.clone(), foldfr)
    _crc(rep, M, ce, crcfn, RO, END, file, window, stored, foldnode)
    # ---------------------------------------------------------------- R3: is_valid
    _is_valid(rep, M, C, CRCF, RO, DATA, END, file)
    # ---------------------------------------------------------------- R4: expected checksum
    _expected(rep, M, C, RO, END, file)
    # ---------------------------------------------------------------- R5: identification pattern
    _ident(rep, M, ce, file)
    _ident_line_strict(rep, M, C, RO, DATA, file)
    # ---------------------------------------------------------------- R6: payload
    _payload(rep, M, C, RO, DATA, END, file, src)


def _ref_crc16(b):
    crc = 0
    for x in b:
        crc ^= x
        for _ in range(8):
            crc = (crc >> 1) ^ 0xA001 if crc & 1 else crc >> 1
    return crc


def _payload(rep, M, C, RO, DATA, END, file, src):
    fn = C.methods["payload"]
    ps = Engine(M).run(fn)
    okp = len(ps) == 1 and ps[0].ret is not None
    if okp:
        r = ps[0].ret
        if r[0] == "call" and r[1] == "bytes" and len(r[2]) == 1:
            r = r[2][0]
        okp = r == ("slice", F(RO), F(DATA), F(END))
    _reader_clause(rep, src)
    if okp:
        rep.ok("R6", "payload", "readout[first LF + 1 : position of '!'] - exactly the bytes between the identification line and '!'")
    else:
        rep.violation("R6", f"{MOD}.DataReadout.payload", "payload-slice", "payload is not the bytes between the identification line and '!'", file, fn.node.lineno,
                      witness=show_sv(ps[0].ret)[:100] if ps and ps[0].ret else None)


def _damaged_catalogue(rep, M, C, file):
    """readouts whose transmitted checksum differs from the CRC-16 of '/'..'!' are never valid: one-octet changes of the data block and of the identification text of a correct
    readout (CRC-16 detects every single-octet error), every checksum digit changed, the checksum replaced by 0000 / FFFF / its byte swap / its decimal spelling - constructor and
    is_valid interpreted (E-ABS).  Returns a text when a sample is outside the interpreted subset, else None (findings are reported)."""
    from sa.abseval import AbsEval, AbsRaise
    fnv = C.methods["is_valid"]
    body = b"/LGF5E360\r\n\r\n1-0:1.8.0(000123.456*kWh)\r\n0-0:1.0.0(210222161900W)\r\n!"
    crc = _ref_crc16(body)
    good = body + b"%04X\r\n" % crc
    variants = []
    lo = body.index(b"\n") + 1
    for pos in list(range(lo, len(body) - 1, 3)) + [5, 8]:
        for bit in (0x01, 0x10):
            v = body[pos] ^ bit
            if v in (0x21, 0x0A, 0x0D, 0x2F) or v >= 0x80 or body[pos] in (0x0A, 0x0D):
                continue
            variants.append((f"octet {pos} changed to 0x{v:02x}", body[:pos] + bytes([v]) + body[pos + 1:] + b"%04X\r\n" % crc))
    for k in range(4):
        d = b"%04X" % crc
        d2 = d[:k] + (b"0" if d[k:k + 1] != b"0" else b"1") + d[k + 1:]
        variants.append((f"checksum digit {k} changed", body + d2 + b"\r\n"))
    for name, cs in (("0000", b"0000"), ("FFFF", b"FFFF"), ("byte-swapped", b"%04X" % (((crc & 0xFF) << 8) | (crc >> 8))), ("complemented", b"%04X" % (crc ^ 0xFFFF)), ("in lower case but different", (b"%04x" % ((crc + 1) & 0xFFFF)))):
        if cs.upper() != b"%04X" % crc:
            variants.append((f"checksum replaced by {name}", body + cs + b"\r\n"))
    n = 0
    for what, raw in [("the correct readout", good)] + variants:
        A = AbsEval(M)
        try:
            obj = A.instantiate(CLS, [raw])
            r = A.apply(fnv, [obj])
        except AbsRaise as ex:
            r = ("raise", ex.cls)
        except Exception as ex:  # noqa
            r = ("undecided", f"{type(ex).__name__}: {ex}")
        if r[0] in ("undecided", "branch"):
            return f"{what}: {r[1]}"
        n += 1
        want = what == "the correct readout"
        if r[0] == "raise" or r[1] is not want:
            if want:
                rep.violation("R3", f"{MOD}.DataReadout.is_valid", "rejects-correct", "a readout whose checksum is the CRC-16 of '/'..'!' is not reported valid", file, fnv.node.lineno, witness=f"{raw!r}: {r}"[:240])
            else:
                rep.violation("R3", f"{MOD}.DataReadout.is_valid", "accepts-damaged", "a readout whose transmitted checksum differs from the CRC-16 (polynomial 0xA001 reflected, initial value 0) of '/'..'!' is "
                              "reported valid" if r[0] == "value" else f"is_valid raises {r[1]} on a damaged readout", file, fnv.node.lineno, witness=f"{what}: {raw!r}"[:240])
            return None
    for rule, text in (("R1", "CRC-16 parameters"), ("R2", "CRC window"), ("R3", "is_valid")):
        rep.ok(rule, text + " (concrete catalogue)", f"the checksum is not kept in a field filled by the constructor; decided on {n} concrete readouts through the public API instead: the correct ones are valid, "
               "every one-octet change of the checked region and every changed / replaced checksum is refused (constructor and is_valid interpreted, E-ABS)")
    rep.count("damaged_catalogue", n)
    return None


def _correct_catalogue(rep, M, C, file):
    """correct readouts of every shape the format allows are reported valid: the constructor and is_valid interpreted (E-ABS) on concrete readouts whose
    checksum is computed by the checker's own CRC-16 (data blocks shrinking down to nothing, upper and lower case checksum digits)"""
    from sa.abseval import AbsEval, AbsRaise
    fnv = C.methods["is_valid"]
    n = 0
    for ident in (b"/LGF5E360", b"/ABC5x"):
        for data in (b"\r\n0-0:1.0.0(210222161900W)\r\n1-0:1.7.0(0000.350*kW)\r\n", b"\r\n1-0:1.7.0(0)\r\n", b"1-0:1.7.0(0)\r\n", b"\r\n", b""):
            for lower in (False, True):
                body = ident + b"\r\n" + data + b"!"
                text = b"%04X" % _ref_crc16(body)
                raw = body + (text.lower() if lower else text) + b"\r\n"
                A = AbsEval(M)
                try:
                    obj = A.instantiate(CLS, [raw])
                    r = A.apply(fnv, [obj])
                except AbsRaise as ex:
                    r = ("raise", ex.cls)
                except Exception as ex:  # noqa
                    r = ("undecided", f"{type(ex).__name__}: {ex}")
                if r[0] in ("undecided", "branch"):
                    rep.undecide(f"R3 correct readouts: DataReadout / is_valid outside the interpreted subset on {raw!r}: {r[1]}"[:300])
                    return
                n += 1
                if r != ("value", True):
                    rep.violation("R3", f"{MOD}.DataReadout.is_valid", "rejects-correct", "a well-formed readout whose checksum is the CRC-16 of '/'..'!' is not reported valid", file, fnv.node.lineno,
                                  witness=f"{raw!r}: {r[0]} {r[1]!r}"[:240])
                    return
    rep.ok("R3", "correct readouts", f"{n} concrete well-formed readouts (data block from two lines down to nothing, checksum digits in both cases) are reported valid (constructor and is_valid interpreted, E-ABS)")


def _history_independence(rep, M, C, file):
    """whether a readout is valid does not depend on the readouts seen before: the constructor and is_valid are interpreted (E-ABS) on a readout and on every
    one-octet variant of it, once in a fresh interpreter state and once after the original has been processed (same module-level state)"""
    from sa.abseval import AbsEval, AbsRaise
    state = M.module_state(MOD)
    if not state:
        rep.ok("R3", "history independence", f"module {MOD} keeps nothing between calls: no function modifies a module-level container or rebinds a global, nothing is memoised, no mutable class "
               "attribute is modified through instances - a readout's verdict cannot depend on earlier readouts")
        return
    body = b"/ABC5x\r\n1-0:1.8.0(000123.456*kWh)\r\n!"
    base = body + b"%04X\r\n" % _ref_crc16(body)
    fnv = C.methods["is_valid"]

    def verdict(A, raw):
        try:
            obj = A.instantiate(CLS, [raw])
        except AbsRaise as ex:
            return ("raise", ex.cls)
        except Exception as ex:  # noqa
            return ("undecided", f"{type(ex).__name__}: {ex}")
        r = A.apply(fnv, [obj])
        return (r[0], r[1] if r[0] != "undecided" else str(r[1]))
    n = 0
    v0 = verdict(AbsEval(M), base)
    if v0[0] in ("undecided", "branch"):
        rep.undecide(f"R3 history independence: DataReadout / is_valid outside the interpreted subset on a concrete readout: {v0[1]}"[:300])
        return
    if v0 != ("value", True):
        rep.violation("R3", f"{MOD}.DataReadout.is_valid", "rejects-correct", "a readout whose checksum is the CRC-16 of '/'..'!' is not reported valid", file, fnv.node.lineno, witness=f"{base!r}: {v0}")
        return
    for pos in range(len(base)):
        for bit in (0x01, 0x04):
            var = base[:pos] + bytes([base[pos] ^ bit]) + base[pos + 1:]
            fresh = verdict(AbsEval(M), var)
            A = AbsEval(M)
            verdict(A, base)
            after = verdict(A, var)
            n += 1
            if "undecided" in (fresh[0], after[0]) or "branch" in (fresh[0], after[0]):
                rep.undecide(f"R3 history independence: outside the interpreted subset for octet {pos} changed: {fresh[1] if fresh[0] in ('undecided', 'branch') else after[1]}"[:300])
                return
            if fresh != after:
                rep.violation("R3", f"{MOD}.DataReadout.is_valid", "history-dependent", "whether a readout is reported valid depends on the readouts processed before it (module-level state): "
                              "a damaged readout is accepted, or a correct one refused, after another readout has been seen", file, fnv.node.lineno,
                              witness=f"octet {pos} of {base!r} changed to 0x{base[pos] ^ bit:02x}: alone {fresh}, after the original readout {after}")
                return
    rep.ok("R3", "history independence", f"{n} one-octet variants of a readout get the same verdict in a fresh state and after the original readout was processed (constructor and is_valid interpreted, E-ABS)")
    rep.count("history_variants", n)


def _reader_clause(rep, src):
    from sa.cross import include
    include(rep, src, "C05", {"R1", "R2", "R3", "R4"}, "R7", "readouts obtained from the reader under every splitting are built from exactly the transmitted lines")
    include(rep, src, "C14", {"R1"}, "R3", "is_valid (and the other accessors of a readout) answer instead of raising", at_prefix="dlde.DataReadout")


def _mentions(sv, pred):
    if isinstance(sv, tuple):
        if pred(sv):
            return True
        return any(_mentions(x, pred) for x in sv if isinstance(x, tuple))
    return False


def _is_find(v, stored, ch):
    """v = <stored readout>.find(ch)"""
    return isinstance(v, tuple) and v and v[0] == "call" and str(v[1]).endswith(".find") and v[2][-1:] == (("c", ch),) and (len(v[2]) == 1 or v[2][0] in (stored,) or v[2][0][0] == "f0")


def _crc(rep, M, ce, fn, RO, END, file, window_sv, stored, loop):
    at = f"{MOD}.DataReadout.{fn.name}"
    body = [s for s in fn.node.body if not (isinstance(s, ast.Expr) and isinstance(s.value, ast.Constant))]
    if loop not in body:
        raise Undecided("CRC fold loop is nested inside another statement")
    i = body.index(loop)
    vars = Vars()
    ex = SymExec(M, ce, vars, MOD, CLS)
    env = {}
    for s in body[:i]:
        # statements that only prepare the window (slices / attribute reads) are covered by the window value computed by E-PATH: an assignment of a
        # value outside the bit-vector domain is one of those; everything else (the initial register, however it is named) is executed
        try:
            ex.run_body([s], env)
        except Top as e:
            if isinstance(s, (ast.Assign, ast.AnnAssign)) and isinstance(s.targets[0] if isinstance(s, ast.Assign) else s.target, ast.Name):
                env.pop((s.targets[0] if isinstance(s, ast.Assign) else s.target).id, None)
                continue
            raise Undecided(f"CRC prologue: {e}")
    assigned = {n.id for s in loop.body for n in ast.walk(s) if isinstance(n, ast.Name) and isinstance(n.ctx, ast.Store)}
    acc = [k for k in env if k in assigned]
    if len(acc) != 1:
        raise Undecided("CRC accumulator not unique")
    acc = acc[0]
    if isinstance(env[acc], BV) and env[acc].is_const() and env[acc].value() == 0:
        rep.ok("R1", "CRC initial value", "fold starts from 0x0000")
    else:
        rep.violation("R1", at, "crc-init", "CRC fold does not start from 0", file, fn.node.lineno)
    # window: for byte in <self._readout[0 : self._end_pos + 1]>
    w = _nolines(window_sv)
    wtxt = show_sv(window_sv)[:120]
    okw = False
    if w[0] == "call" and str(w[1]).split(".")[-1] == "islice" and len(w[2]) in (2, 3):
        # itertools.islice(seq, stop) / islice(seq, start, stop) visits the same items as seq[start:stop]
        w = ("slice", w[2][0], None if len(w[2]) == 2 else w[2][1], w[2][-1])
    if w[0] == "slice" and w[1] == _nolines(stored) and w[2] in (None, ("c", 0)) and w[3] is not None and w[3][0] == "op" and w[3][1] == "Add":
        a, b = w[3][2], w[3][3]
        if a == ("c", 1):
            a, b = b, a
        okw = b == ("c", 1) and _is_find(a, _nolines(stored), BANG)
    if okw:
        rep.ok("R2", "CRC window", f"every byte from '/' (offset 0) through '!' inclusive: {wtxt}")
    elif w[0] == "slice" and w[1] == _nolines(stored):
        rep.violation("R2", at, "crc-window", "the CRC is not computed over readout[0 : position of '!' + 1]", file, loop.lineno, witness=wtxt)
    else:
        rep.undecide(f"R2 the octets the CRC loop visits are not written as a slice of the stored readout: {wtxt}")
    if not isinstance(loop.target, ast.Name):
        raise Undecided("CRC loop target")
    c16 = vars.fresh("crc", 16)
    b8 = vars.fresh("octet", 8)
    env2 = dict(env)  # (locals the prologue bound - e.g. an alias of a constant table - stay visible in the loop body)
    env2.update({acc: c16, loop.target.id: b8})
    try:
        r = SymExec(M, ce, vars, MOD, CLS).run_body(loop.body, env2)
    except Top as e:
        raise Undecided(f"CRC loop body left the affine domain: {e}")
    ref = ref_crc_reflected_step(c16, b8, POLY)
    if r is None and env2[acc] == ref:
        rep.ok("R1", "CRC step", "loop body equals the CRC-16/ARC octet step (reflected 0xA001) for symbolic 16-bit register and octet: all 2^24 inputs")
    else:
        rep.violation("R1", at, "crc-step", "the per-octet CRC step is not CRC-16 with polynomial 0xA001 (reflected)", file, loop.lineno)
    g16 = vars.fresh("final", 16)
    env3 = dict(env2)
    env3[acc] = g16
    try:
        rv = SymExec(M, ce, vars, MOD, CLS).run_body(body[i + 1:], env3)
    except Top as e:
        raise Undecided(f"CRC epilogue: {e}")
    if rv is not None and rv == g16:
        rep.ok("R1", "CRC result", "returns the register unchanged (no final xor)")
    else:
        rep.violation("R1", at, "crc-final", "the CRC result is transformed after the fold", file, fn.node.lineno)


def _is_valid(rep, M, C, CRCF, RO, DATA, END, file):
    fn = C.methods["is_valid"]
    at = f"{MOD}.DataReadout.is_valid"
    E = Engine(M, keep_props={"expected_checksum", "identification_line", "end_line"}, split_ifexp=True)
    E.record_eval = True
    ps = E.run(fn)
    EXP = lambda g: isinstance(g, tuple) and g[0] == "prop" and g[1] == SELF and g[2] == "expected_checksum"
    CALC = F(CRCF)
    n_true = 0
    bad = 0
    for p in ps:
        truthy = [(g, pol) for g, pol, _ in p.guards if EXP(strip_epoch(g))]
        isnone = [(g, pol) for g, pol, _ in p.guards if g[0] == "cmp" and g[1] == "Is" and EXP(strip_epoch(g[2])) and g[3] == ("c", None)]
        cmps = [(g, pol) for g, pol, _ in p.guards if g[0] == "cmp" and g[1] in ("Eq",) and ((strip_epoch(g[2]) == CALC and EXP(strip_epoch(g[3]))) or (strip_epoch(g[3]) == CALC and EXP(strip_epoch(g[2]))))]
        other_cmp = [(g, pol) for g, pol, _ in p.guards if g[0] == "cmp" and _mentions(g, lambda s: s == CALC) and (g, pol) not in cmps]
        if truthy:
            bad += 1
            rep.violation("R3", at, "checksum-truthiness", "presence of the transmitted checksum is decided by truthiness: a transmitted 0000 is treated as 'no checksum' and never compared", file, fn.node.lineno,
                          witness="abstract witness: expected_checksum = Zero; condition " + show_sv(truthy[0][0])[:60])
            continue
        if other_cmp:
            g, pol = other_cmp[0]
            verdict = _textual_compare(g)
            if g[1] in ("In", "NotIn") and g[3][0] == "tuple" and len(g[3][1]) > 1 and any(strip_epoch(x) == CALC for x in g[3][1]) and EXP(strip_epoch(g[2])):
                others_ = [x for x in g[3][1] if strip_epoch(x) != CALC]
                verdict = (f"the transmitted checksum is accepted when it equals any of {len(g[3][1])} values (the computed CRC or {show_sv(others_[0])[:50]}): a checksum that differs from the "
                           "computed CRC-16 can be reported valid")
            if g[1] in ("Lt", "LtE", "Gt", "GtE") and {strip_epoch(g[2]), strip_epoch(g[3])} & {CALC} and (EXP(strip_epoch(g[2])) or EXP(strip_epoch(g[3]))):
                verdict = "the transmitted checksum is compared with the computed CRC by an ordering test instead of equality: some differing checksums are accepted"
            if verdict is not None:
                bad += 1
                rep.violation("R3", at, "checksum-compare-form", verdict, file, fn.node.lineno, witness=show_sv(g)[:120])
            else:
                rep.undecide(f"R3 is_valid compares the computed CRC in an unrecognised way: {show_sv(g)[:100]}")
            continue
        if p.status == "return" and p.ret == ("c", True):
            n_true += 1
            present = any(not pol for g, pol in isnone)
            absent = any(pol for g, pol in isnone)
            if not isnone:
                bad += 1
                rep.violation("R3", at, "returns-true-without-presence-test", "is_valid can return True without looking at the transmitted checksum", file, fn.node.lineno)
            elif present and not any(pol for g, pol in cmps):
                bad += 1
                rep.violation("R3", at, "present-not-compared", "a path returns True with a checksum present but without the test `calculated == expected` on its true side", file, fn.node.lineno,
                              witness="; ".join(("" if pol else "not ") + show_sv(g)[:60] for g, pol, _ in p.guards))
            # identification must have been evaluated on the way (no exception)
            if not any(e[0] in ("write", "eval") and _mentions(e[3] if e[0] == "write" else e[1], lambda s: s[0] == "prop" and s[2] == "identification_line") for e in p.effects) and \
                    not any(_mentions(g, lambda s: s[0] == "prop" and s[2] == "identification_line") for g, _, _ in p.guards):
                bad += 1
                rep.violation("R5", at, "ident-not-evaluated", "a path returns True without constructing the identification line", file, fn.node.lineno)
        if p.status == "raise":
            bad += 1
            rep.violation("R3", at, "raises", "is_valid can raise", file, fn.node.lineno)
    # ident failure -> False
    exc_paths = [p for p in ps if any(g[0] == "exc" for g, _, _ in p.guards)]
    if not exc_paths or any(p.ret != ("c", False) for p in exc_paths if p.status == "return"):
        bad += 1
        rep.violation("R5", at, "ident-failure-not-false", "a failing identification line (ValueError) does not make is_valid return False", file, fn.node.lineno)
    # data loop: only non-ASCII characters may invalidate
    seen_l = []
    for lfn, lp, lfr, lentry in list(E.loop_entries):
        if lp in seen_l or not isinstance(lp, ast.For):
            continue
        seen_l.append(lp)
        body, _ = loop_paths_at(E, lfn, lp, lentry, lfr)
        for p in body:
            if p.status == "return" and p.ret == ("c", False):
                okg = False
                for g, pol, _ in p.guards:
                    if g[0] == "cmp" and g[2][0] == "iter" and g[3][0] == "c" and isinstance(g[3][1], int):
                        k = g[3][1]
                        if (g[1] == "LtE" and not pol and k >= 0x7F) or (g[1] == "Lt" and not pol and k >= 0x80):
                            okg = True
                    if g[0] == "cmp" and g[1] == "Eq" and g[2][0] == "iter" and g[3][0] == "c" and isinstance(g[3][1], (bytes, str)) and pol:
                        okg = True  # int == bytes is never true: dead branch
                if not okg:
                    bad += 1
                    rep.violation("R3", at, "ascii-data-rejected", "an all-ASCII readout with correct checksum and identification line can be reported invalid because of a data character", file, lp.lineno,
                                  witness="; ".join(("" if pol else "not ") + show_sv(g)[:60] for g, pol, _ in p.guards))
    rep.count("is_valid_paths", len(ps))
    if not bad and n_true:
        rep.ok("R3", "is_valid", f"{len(ps)} paths, {n_true} return True: presence of the checksum is tested with `is None`; with a checksum present the integer comparison `calculated == expected` "
               "is on the path; the identification line is constructed; its ValueError gives False; only non-ASCII data characters invalidate")
    rep.floor("is_valid paths returning True", n_true, 2)


def _textual_compare(g):
    """comparison of the computed CRC as text: right only when zero-padded to 4 digits and case-normalised"""
    txt = show_sv(g)
    fmts = []

    def rec(s):
        if isinstance(s, tuple):
            if s and s[0] == "fstr":
                for part in s[1]:
                    if part[0] == "val":
                        fmts.append(part[3])
            if s and s[0] == "call" and s[1] in ("format", "hex", "str") :
                fmts.append("call:" + s[1])
            for x in s:
                rec(x)
    rec(g)
    if fmts:
        if all(f in ("04X", "04x") for f in fmts) and (".upper" in txt or ".lower" in txt or ".casefold" in txt):
            return None
        return ("the computed CRC is compared as text without zero padding to four digits / case normalisation: a correct checksum with a leading zero "
                "(CRC < 0x1000) or in the other letter case is rejected")
    return None


def _expected(rep, M, C, RO, END, file):
    fn = C.methods["expected_checksum"]
    at = f"{MOD}.DataReadout.expected_checksum"
    ps = Engine(M, keep_props={"end_line"}).run(fn)
    EL = ("prop", SELF, "end_line", 0)
    ok = len(ps) == 2
    for p in ps:
        if p.status != "return":
            ok = False
            continue
        lits = [(g, pol) for g, pol, _ in p.guards if g[0] == "cmp" and g[2] == ("len", EL, 0) and g[3][0] == "c"]
        if len(lits) != 1:
            ok = False
            continue
        g, pol = lits[0]
        longer = (g[1] == "LtE" and g[3][1] == 1 and not pol) or (g[1] == "Lt" and g[3][1] == 2 and not pol)
        if longer:
            r = p.ret
            good = r[0] == "call" and r[1] == "int" and len(r[2]) == 2 and r[2][1] in (("kw", "base", ("c", 16)), ("c", 16))
            if good:
                a = r[2][0]
                if a[0] == "call" and a[1] == ".strip":
                    a = a[2][0]
                good = a == ("slice", EL, ("c", 1), None)
            ok = ok and good
        else:
            ok = ok and p.ret == ("c", None)
    el = C.methods.get("end_line")
    ok_el = False
    if el is not None:
        pe = Engine(M).run(el)
        if len(pe) == 1 and pe[0].ret is not None:
            r = pe[0].ret
            r0 = _nolines(r)
            sl = ("slice", F(RO), F(END), None)
            ok_el = r0[0] == "call" and str(r0[1]).endswith(".strip") and len(r0[2]) == 1 and r0[2][0][0] == "call" and str(r0[2][0][1]).endswith(".decode") \
                and r0[2][0][2][0] == sl and all(a == ("c", "ascii") or a == ("kw", "errors", ("c", "strict")) for a in r0[2][0][2][1:])
    if ok and ok_el:
        rep.ok("R4", "expected_checksum", "int(text after '!', 16) where the end line is readout[pos('!'):] decoded and stripped; None exactly when nothing follows '!'")
        return
    # not in the recognised form: the accessor is interpreted (E-ABS) on readouts whose end lines cover both sides of every test the reference makes
    from sa.abseval import AbsEval, AbsRaise
    texts = [b"", b"0", b"0000", b"ABCD", b"abcd", b"00ff", b"1", b"12345", b" 12AB", b"12AB  ", b"\t7f", b"G123", b"12 34", b"0x1F", b"-1", b"+1f", b"1_0", b"\xff\xfe", b"12\xe9", b" ", b"12AB\r", b"\r\n12AB", b"12\r\nAB", b"12AB\r\n1-0:1.8.0(1*kWh)"]
    bad_w = und_w = None
    for t in texts:
        raw = b"/ABC5x\r\n1-0:1.8.0(1*kWh)\r\n!" + t + b"\r\n"
        try:
            e_ = raw[raw.find(b"!"):].decode("ascii").strip()
            want = ("value", None if len(e_) <= 1 else int(e_[1:].strip(), 16))
        except UnicodeDecodeError:
            want = ("raise", "UnicodeDecodeError")
        except ValueError:
            want = ("raise", "ValueError")
        A = AbsEval(M)
        try:
            obj = A.instantiate(CLS, [raw])
        except Exception as ex_:  # noqa
            und_w = f"DataReadout({raw[-12:]!r}) outside the interpreted subset: {type(ex_).__name__}"
            break
        got = A.apply(fn, [obj])
        if got[0] in ("undecided", "branch"):
            und_w = f"expected_checksum outside the interpreted subset for the end line {b'!' + t!r}: {got[1]!r}"
            break
        if tuple(got[:2]) != want:
            bad_w = f"end line {b'!' + t!r}: {got[0]} {got[1]!r}, expected {want[0]} {want[1]!r}"
            break
    if und_w:
        rep.undecide(f"R4 {und_w}")
    elif bad_w is None:
        rep.ok("R4", "expected_checksum", f"interpreted on {len(texts)} end lines (empty, one to five digits, both letter cases, surrounding white space, non-hexadecimal and non-ASCII text, text continuing on further lines): "
               "int(text after '!', 16), None exactly when nothing follows '!', ValueError otherwise")
    else:
        rep.violation("R4", at, "checksum-parse", "the transmitted checksum is not `int(text after '!', base 16)`, absent only when that text is empty", file, fn.node.lineno,
                      witness=bad_w)


def _nolines(sv):
    if isinstance(sv, tuple) and len(sv) >= 3 and sv[0] == "call" and sv[1] in ("memoryview", "bytes", "bytearray") and len(sv[2]) == 1:
        return _nolines(sv[2][0])  # a (read-only) view / copy of an octet string has the same octets
    if isinstance(sv, tuple):
        if sv and sv[0] == "call" and len(sv) == 4 and isinstance(sv[3], int):
            return ("call", sv[1], tuple(_nolines(x) for x in sv[2]))
        return tuple(_nolines(x) for x in sv)
    return sv


def _ident_line_strict(rep, M, C, RO, DATA, file):
    """the text handed to Ident is the strict ASCII decoding of the first line (non-ASCII bytes must not be dropped or replaced silently)"""
    fn = C.methods.get("identification_line")
    if fn is None:
        raise Undecided("anchor vanished: DataReadout.identification_line")
    ps = Engine(M).run(fn)
    news = []
    for p in ps:
        for e in p.effects:
            if e[0] == "write" and e[3][0] == "new" and e[3][1] == (MOD, "Ident"):
                news.append(e[3])
        if p.ret is not None and p.ret[0] == "new" and p.ret[1] == (MOD, "Ident"):
            news.append(p.ret)
    if not news:
        raise Undecided("identification_line does not construct an Ident")
    for nv in news:
        arg = _nolines(nv[3][0]) if len(nv) > 3 and nv[3] else None
        ok = False
        if arg is not None and arg[0] == "call" and str(arg[1]).endswith(".strip") and len(arg[2]) == 1:
            d = arg[2][0]
            if d[0] == "call" and str(d[1]).endswith(".decode") and d[2][0] == ("slice", F(RO), None, F(DATA)):
                ok = all(a == ("c", "ascii") or a == ("kw", "errors", ("c", "strict")) for a in d[2][1:])
        if ok:
            rep.ok("R5", "identification line text", "Ident() receives the strict ASCII decoding of readout[:data position], stripped")
        else:
            rep.violation("R5", f"{MOD}.DataReadout.identification_line", "ident-text", "the identification line handed to the pattern is not the strict ASCII decoding of the readout's first line "
                          "(bytes are dropped/replaced before matching, so a malformed first line can pass)", file, fn.node.lineno, witness=show_sv(nv)[:140])
        break


def _ident(rep, M, ce, file):
    I = M.classes.get((MOD, "Ident"))
    if I is None or "__init__" not in I.methods:
        raise Undecided("anchor vanished: dlde.Ident")
    from sa.decoders import ident_findings, ident_pattern
    pm = ident_pattern(M, ce, MOD)
    if pm is None:
        raise Undecided("cannot resolve the identification pattern")
    pat, method = pm
    # the constructor accepts exactly what the pattern matches (ValueError otherwise): sample lines through the class itself (E-ABS)
    for tag, text in ident_findings(M, MOD):
        if tag in ("no-raise", "ident-rejects", "is-ident-line"):
            rep.violation("R5", f"{MOD}.Ident.__init__", tag if tag != "ident-rejects" else "rejects-wellformed", text, file, I.node.lineno)
    try:
        P = to_dfa(pat, method)
        S = to_dfa(STRICT, "match")
        L = to_dfa(LENIENT, "match")
    except Unsupported as e:
        raise Undecided(f"identification pattern outside the supported regex subset: {e}")
    rep.count("dfa_states", len(P[0]))
    w1 = witness_not_included(S, P)
    w2 = witness_not_included(P, L)
    if w1 is None and w2 is None:
        rep.ok("R5", "identification pattern", f"L(strict standard form) <= L(pattern) <= L(lenient form) by DFA inclusion ({len(P[0])} states)")
    if w1 is not None:
        rep.violation("R5", f"{MOD}._ident_pattern", "rejects-wellformed", "a well-formed identification line is rejected by the pattern", file, 1, witness=repr(w1))
    if w2 is not None:
        rep.violation("R5", f"{MOD}._ident_pattern", "accepts-malformed", "the pattern accepts a line that is not a well-formed identification line (so a readout with a malformed identification line can be reported valid)",
                      file, 1, witness=repr(w2))


def thorough(src, rep):
    from sa.selfval.harness import run_selfval
    run_selfval("C04", src, rep)
