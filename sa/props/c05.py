"""C05 - P1: every readout on a clean stream is delivered once, however it is chunked (level: other).

R1 the buffer guard counts only unconsumed input (+ the collected lines); R2 the per-line step refines the reference line
automaton; R3 pop/extend/trim contracts, chunk only extends, no cross-iteration locals; R4 guard limit >= 8191.
"""
from __future__ import annotations

from sa.p1model import P1Model, buffer_contracts, conformance, exit_and_guard, skeleton

LEVEL = "other"
RULE = {"unconsumed": "R1", "row": "R2", "exit": "R2", "buffer": "R3", "chunk-flow": "R3", "locals": "R3", "skeleton": "R3", "hunt-trim": "R3", "limit": "R4", "trip": "R1"}


def emit(rep, m, results, rules, at="dlde.ModeDReader.read", only=None):
    for r in results:
        tag = r.tag.split(":")[0]
        if tag not in rules or (only and not only(r)):
            continue
        rule = rules[tag]
        if r.kind == "ok":
            rep.ok(rule, r.instance, r.text)
        elif r.kind == "bad":
            rep.violation(rule, at, f"{r.tag}:{r.instance}" if tag != "row" else r.tag, r.text, m.file, r.line, r.witness)
        else:
            rep.undecide(f"{rule} {r.instance}: {r.text}")


def check(src, rep):
    m = P1Model(src)
    rep.count("modules", len(src.text))
    rep.count("step_paths", len(m.paths))
    rep.assumptions += ["reference line automaton of sa/p1model.py ROWS (IEC 62056-21 mode D: '/' identification line ... '!' end line)",
                        "each readout of the property's domain is shorter than the guard limit"]
    rep.explanation = ("Decided: the per-line step of ModeDReader.read refines the reference automaton (identification line starts collecting, other lines ignored while hunting, "
                       "data lines kept, end line emits a readout built from exactly the kept lines and returns to hunt mode); the length guard is evaluated where the buffer position "
                       "is zero, so it never counts consumed lines, and its limit is >= 8191; pop returns LF-terminated lines and advances by their length; the chunk only extends the "
                       "buffer. NOT decided: delivery over all clean streams (argument from R1-R4) and byte identity beyond 'emitted from exactly the kept lines'.")
    conf = conformance(m)
    emit(rep, m, conf, RULE)
    eg = exit_and_guard(m)
    emit(rep, m, eg, RULE, only=lambda r: r.tag != "trip" or r.instance in ("no-hunt", "lines-kept") or r.kind == "ok")
    emit(rep, m, skeleton(m), RULE)
    # the collected lines grow by the popped line only: anything else put there (an incomplete line taken out of the buffer early, a transformed copy) is not a transmitted line
    from sa.p1model import ploc as _ploc
    for pp in m.paths:
        for op in pp.post.raw_ops:
            if isinstance(op, tuple) and op[0] == "other" and ("extend" in str(op[1]) or "append" in str(op[1]) or "+=" in str(op[1])):
                rep.violation("R2", "dlde.ModeDReader.read", "lines-other-growth", f"the collected lines are extended by something other than the line popped in this step: {op[1]}", m.file, _ploc(m, pp))
                break
    emit(rep, m, buffer_contracts(m), RULE)
    _initial_state(rep, m)
    from sa.cross import include
    include(rep, src, "C04", {"R1", "R2", "R3", "R4", "R5"}, "R5", "every delivered well-formed readout is reported valid")
    include(rep, src, "C14", {"R1"}, "R6", "read() returns the readouts of a clean stream instead of raising", at_prefix=("dlde.",))
    rep.floor("reference rows", sum(1 for r in conf if r.tag.startswith("row:")), 5)
    rep.floor("line step paths", len(m.paths), 6)


def _initial_state(rep, m):
    """a reader constructed the way the library constructs it (no arguments) hunts for a start line: what precedes the first '/' is the tail of a readout it joined half-way"""
    from sa.abseval import AbsEval, AbsRaise, SymbolicBranch
    from sa.consteval import NotConstant
    A = AbsEval(m.M)
    prop = m.reader.methods.get("is_in_hunt_mode")
    if prop is None:
        rep.undecide("R1 initial state: ModeDReader.is_in_hunt_mode vanished")
        return
    try:
        obj = A.instantiate((m.reader.mod, m.reader.name), [])
    except (AbsRaise, NotConstant, SymbolicBranch, RecursionError) as ex:
        rep.undecide(f"R1 initial state: ModeDReader() is outside the interpreted subset: {ex}")
        return
    r = A.apply(prop, [obj])
    if r[0] != "value" or not isinstance(r[1], bool):
        rep.undecide(f"R1 initial state: is_in_hunt_mode of a new reader is not a constant: {r[1]!r}")
    elif r[1] is not True:
        init = m.M.find_method((m.reader.mod, m.reader.name), "__init__")
        rep.violation("R1", "dlde.ModeDReader.__init__", "initial-state", "a new reader does not hunt for a start line: lines received before the first '/' (the tail of a readout the reader joined half-way) "
                      "are collected as the beginning of a readout", m.file, init.node.lineno if init else m.reader.node.lineno, witness="ModeDReader().is_in_hunt_mode is False")
    else:
        rep.ok("R1", "initial state", "ModeDReader() starts in hunt mode (constructor interpreted, is_in_hunt_mode read through the public property)")


def thorough(src, rep):
    from sa.selfval.harness import run_selfval
    run_selfval("C05", src, rep)
