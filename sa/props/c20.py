"""C20 - OBIS codes parse into their value groups and format back losslessly (level: other; exhaustive over the finite shape space).

R1 parse: every shape of the reduced form (16 presence patterns x run lengths) and of the six-part form matches the extracted
pattern with each named group spanning exactly its digit run; the group->tuple mapping of to_obis_tupple (E-PATH) is A..F in order,
int() converted, None exactly for an empty optional group.  R2 rejection argument.  R3 eq/hash/C.D.E.  R4 round trip of all
templates of to_reduced_str (token domain).
"""
from __future__ import annotations

import ast
import itertools
import re

from sa.consteval import ConstEval, NotConstant
from sa.model import Model
from sa.paths import Engine, show_sv
from sa.report import Undecided

LEVEL = "other"
MOD = "obis"
SELF = ("self0",)
REDUCED_NAMES = ("AR", "BR", "CR", "DR", "ER", "FR")
STANDARD_NAMES = ("AS", "BS", "CS", "DS", "ES", "FS")
DIGITS = {1: "7", 2: "42", 3: "255"}


def reduced_string(vals):
    a, b, c, d, e, f = vals
    s = ""
    if a is not None:
        s += f"{a}-"
    if b is not None:
        s += f"{b}:"
    s += f"{c}.{d}"
    if e is not None:
        s += f".{e}"
    if f is not None:
        s += f"*{f}"
    return s


def check(src, rep):
    M = Model(src)
    ce = ConstEval(M)
    file = src.file(MOD)
    rep.count("modules", len(src.text))
    fn = M.funcs.get("obis.to_obis_tupple")
    rep.require(fn is not None, "anchor vanished: obis.to_obis_tupple")
    rep.require((MOD, "Obis") in M.classes, "anchor vanished: obis.Obis")
    O = M.classes[(MOD, "Obis")]
    rep.assumptions += ["Python re and int() semantics (the extracted pattern is a constant of the program; the re engine defines its meaning)",
                        "alphabet uniformity: the pattern distinguishes digits only through \\d (checked on the pattern AST), so one digit string per run length is exact"]
    rep.explanation = ("Decided exhaustively over the finite shape space: all presence patterns x run lengths of both syntaxes match the extracted (constant-folded) pattern with each "
                       "named group spanning exactly its digit run; to_obis_tupple maps groups to tuple positions A..F, converts with int(), yields None exactly for empty optional groups and "
                       "converts C and D unconditionally (so a missing digit on either side of the dot raises ValueError); __eq__/__hash__ are functions of the same group tuple; the C.D.E string "
                       "interpolates groups 2,3,4; every template produced by to_reduced_str parses back to the same groups when optional groups are absent or non-zero.")
    # ---------------------------------------------------------------- the pattern
    pats = _pattern_used(fn, M, ce)
    rep.require(pats is not None, "cannot resolve the compiled pattern used by to_obis_tupple")
    pattern, method = pats
    try:
        rx = re.compile(pattern)
    except re.error as e:
        rep.violation("R1", "obis.OBIS_PATTERN_BOTH", "pattern", f"pattern does not compile: {e}", file, 1)
        return
    uniform = _alphabet_uniform(pattern)
    # ---------------------------------------------------------------- the parser, interpreted (E-ABS) on concrete shape strings: the regex operation
    # is Python's re on the program's constant pattern, everything else (group selection, int(), None for absent groups, raise) is the source
    from sa.abseval import AbsEval, AObj
    from sa.decoders import obis_groups_field
    AE = AbsEval(M)
    thorough = rep.tier == "thorough"
    lengths = (1, 2, 3) if thorough else (1, 3)
    cache = {}

    def parse(s):
        """tuple, or the name of the exception class raised"""
        if s not in cache:
            r = AE.apply(fn, [s])
            if r[0] == "value":
                cache[s] = tuple(r[1]) if isinstance(r[1], (tuple, list)) else ("not-a-tuple", r[1])
            elif r[0] == "raise":
                cache[s] = r[1]
            else:
                raise Undecided(f"to_obis_tupple is outside the interpreted subset for {s!r}: {r[1]}")
        return cache[s]
    mapping = None
    # mandatory groups: an empty C or D (or A..E of the six-part form) must raise ValueError, never become None or raise another class
    for s_, what in (("1-2:3.", "D"), ("1-2:.4", "C"), ("7.", "D"), (".5", "C")):
        got = parse(s_)
        if got != "ValueError":
            rep.violation("R2", "obis.to_obis_tupple", f"mandatory-group:REDUCED:{what}", f"a code with an empty mandatory group {what} does not raise ValueError "
                          "(an empty group becomes None, or another exception class escapes)", file, fn.node.lineno, witness=f"{s_!r} -> {got}")
    # ---------------------------------------------------------------- R1: shapes
    n_shapes = bad = 0
    for pres in itertools.product((False, True), repeat=4):
        present = (pres[0], pres[1], True, True, pres[2], pres[3])
        idx = [i for i in range(6) if present[i]]
        for runs in itertools.product(lengths, repeat=len(idx)):
            vals = [None] * 6
            for i, r in zip(idx, runs):
                vals[i] = int(DIGITS[r])
            s = reduced_string(vals)
            n_shapes += 1
            got = parse(s)
            if got != tuple(vals):
                bad += 1
                if bad <= 3:
                    rep.violation("R1", "obis.to_obis_tupple", "reduced-shape", "a reduced-form OBIS code does not parse into its value groups", file, fn.node.lineno,
                                  witness=f"{s!r} -> {got} expected {tuple(vals)}")
    for runs in itertools.product(lengths, repeat=6):
        vals = tuple(int(DIGITS[r]) for r in runs)
        s = ".".join(str(v) for v in vals)
        n_shapes += 1
        got = parse(s)
        if got != vals:
            bad += 1
            if bad <= 3:
                rep.violation("R1", "obis.to_obis_tupple", "standard-shape", "a six-part OBIS code does not parse into its value groups", file, fn.node.lineno, witness=f"{s!r} -> {got} expected {vals}")
    # boundary values 0 and 255 in every position (run-length classes 1 and 3 cover them by uniformity; 0 checked explicitly because of truthiness tests)
    for pos in range(6):
        vals = [1, 1, 1, 8, 1, 1]
        vals[pos] = 0
        for s, want in ((reduced_string(vals), tuple(vals)), (".".join(map(str, vals)), tuple(vals))):
            n_shapes += 1
            got = parse(s)
            if got != want:
                bad += 1
                rep.violation("R1", "obis.to_obis_tupple", "zero-group", "a group with value 0 is not parsed as 0", file, fn.node.lineno, witness=f"{s!r} -> {got} expected {want}")
    if not uniform:
        # the pattern distinguishes individual digits, so one digit string per run length is not exact: sweep every value 0..255 through every
        # position of every presence pattern (others fixed); violations found are definite, absence of violations is not a proof
        for pres in itertools.product((False, True), repeat=4):
            present = (pres[0], pres[1], True, True, pres[2], pres[3])
            for pos in [i for i in range(6) if present[i]]:
                for v in range(256):
                    vals = [(8 if i == 3 else 1) if present[i] else None for i in range(6)]
                    vals[pos] = v
                    forms = [reduced_string(vals)] + ([".".join(str(x) for x in vals)] if all(present[:5]) and present[5] else [])
                    for s in forms:
                        n_shapes += 1
                        got = parse(s)
                        if got != tuple(vals):
                            bad += 1
                            if bad <= 3:
                                rep.violation("R1", "obis.to_obis_tupple", "value-dependent-shape", "an OBIS code with a group value in 0..255 does not parse into its value groups", file, fn.node.lineno,
                                              witness=f"{s!r} -> {got} expected {tuple(vals)}")
        if not bad:
            rep.undecide("R1 the pattern distinguishes individual digits (alphabet-uniformity lemma does not hold): the per-position sweep over 0..255 found no error but the shape enumeration is not exact")
    rep.count("shapes", n_shapes)
    if not bad:
        rep.ok("R1", f"{n_shapes} shapes", f"all presence patterns x run lengths {lengths} of both syntaxes parse to exactly their groups (pattern constant-folded by E-CONST, mapping from E-PATH)")
    rep.extra["exhaustive"] = True
    # ---------------------------------------------------------------- R2: rejection
    _rejection(rep, pattern, mapping, parse, file, fn)
    _history(rep, M, file)
    # ---------------------------------------------------------------- R3
    _eq_hash(rep, M, O, file)
    # ---------------------------------------------------------------- R4
    _roundtrip(rep, M, O, parse, lengths, file)
    rep.floor("shapes", n_shapes, 300)


def _pattern_used(fn, M, ce):
    """the string the compiled pattern object used in to_obis_tupple was compiled from, and the matching method"""
    for n in ast.walk(fn.node):
        if isinstance(n, ast.Call) and isinstance(n.func, ast.Attribute) and n.func.attr in ("match", "fullmatch", "search") and isinstance(n.func.value, ast.Name):
            var = n.func.value.id
            init = M.mod_consts.get(MOD, {}).get(var)
            if isinstance(init, ast.Call) and init.args:
                try:
                    pat = ce.eval(init.args[0], {}, MOD)
                except NotConstant:
                    return None
                if isinstance(pat, str) and len(init.args) == 1 and not init.keywords:
                    return pat, n.func.attr
    # a bound method of the compiled pattern kept under a module-level name (`_match = _pattern.match`) and called by that name
    for n in ast.walk(fn.node):
        if isinstance(n, ast.Call) and isinstance(n.func, ast.Name):
            b_ = M.mod_consts.get(MOD, {}).get(n.func.id)
            if isinstance(b_, ast.Attribute) and b_.attr in ("match", "fullmatch", "search") and isinstance(b_.value, ast.Name):
                init = M.mod_consts.get(MOD, {}).get(b_.value.id)
                if isinstance(init, ast.Call) and init.args and len(init.args) == 1 and not init.keywords:
                    try:
                        pat = ce.eval(init.args[0], {}, MOD)
                    except NotConstant:
                        return None
                    if isinstance(pat, str):
                        return pat, b_.attr
    return None


def _alphabet_uniform(pattern):
    import re._parser as sp  # python >= 3.11
    tree = sp.parse(pattern)

    def walk(items):
        for op, av in items:
            name = str(op)
            if name == "LITERAL":
                if chr(av).isdigit():
                    return False
            elif name == "IN":
                for o2, a2 in av:
                    n2 = str(o2)
                    if n2 == "LITERAL" and chr(a2).isdigit():
                        return False
                    if n2 == "RANGE" and any(chr(c).isdigit() for c in range(a2[0], min(a2[1], a2[0] + 300) + 1)):
                        return False
            elif name in ("MAX_REPEAT", "MIN_REPEAT"):
                if not walk(av[2]):
                    return False
            elif name == "SUBPATTERN":
                if not walk(av[3]):
                    return False
            elif name == "BRANCH":
                for br in av[1]:
                    if not walk(br):
                        return False
        return True

    return walk(tree)


def _rejection(rep, pattern, mapping, parse, file, fn):
    """two unconditionally converted groups adjacent through a literal '.' in each alternative; failed match raises."""
    import re._parser as sp
    tree = sp.parse(pattern)

    def flat(items, out):
        for op, av in items:
            name = str(op)
            if name == "SUBPATTERN":
                gid = av[0]
                gname = next((n for n, i in tree.state.groupdict.items() if i == gid), None)
                if gname in REDUCED_NAMES + STANDARD_NAMES:
                    out.append(("G", gname))
                else:
                    flat(av[3], out)
            elif name in ("MAX_REPEAT", "MIN_REPEAT"):
                flat(av[2], out)
            elif name == "LITERAL":
                out.append(("L", chr(av)))
            elif name == "BRANCH":
                for br in av[1]:
                    out.append(("|", ""))
                    flat(br, out)
            else:
                out.append(("?", name))
        return out

    toks = flat(tree, [])
    seq = "".join(f"<{v}>" if k == "G" else v if k == "L" else k for k, v in toks)
    okr = "<CR>.<DR>" in seq
    oks = "<CS>.<DS>" in seq
    if okr and oks:
        rep.ok("R2", "digit-dot-digit", f"in both alternatives two unconditionally converted groups are adjacent through a literal '.' ({seq}); int('') raises ValueError, so returning normally implies a digit.digit substring")
    else:
        rep.violation("R2", "obis.OBIS_PATTERN_BOTH", "adjacency", "groups C and D are not adjacent through a literal '.' in the pattern", file, 1, witness=seq)
    n = bad = 0
    witnesses = ["", ".", "1.", ".5", "1-2:3.", "7.*6", "1.x", "abc", "1-2:", "1:2", "1*2", "..", "1-.2", " 1.2", "1 .2", "-:.", "1-2:.4", "a.b", "1..2"]
    # mutation grammar: every dot of a well-formed code separated from its digits by whitespace / sign / underscore / letter on one or both sides (at all dots
    # and at single dots), digits removed next to dots -- none of these contains digit.digit, whatever a lenient integer conversion would make of the parts
    for base_ in ("1.0.1.7.0.255", "1-0:1.8.0*255", "96.1.0", "1.8", "1-0:1.8.0"):
        dots_ = [i for i, ch in enumerate(base_) if ch == "."]
        for ins in (" ", "+", "-", "_", "x", "\t", "\n", "٣"):
            for side in ("before", "after", "both"):
                for which in (dots_, dots_[:1], dots_[-1:]):
                    t_ = list(base_)
                    for i in reversed(dots_):
                        if side in ("after", "both") or i not in which:
                            t_.insert(i + 1, ins)
                        if side in ("before", "both") and i in which:
                            t_.insert(i, ins)
                    witnesses.append("".join(t_))
    for s in dict.fromkeys(witnesses):
        if re.search(r"\d\.\d", s):
            continue
        n += 1
        got = parse(s)
        if got != "ValueError":
            bad += 1
            rep.violation("R2", "obis.to_obis_tupple", "malformed-accepted", "a string without any digit.digit sequence does not raise ValueError", file, fn.node.lineno, witness=f"{s!r} -> {got}")
    if not bad:
        rep.ok("R2", f"{n} malformed witnesses", "strings without digit.digit (missing digit on either side of the dot, separators only, letters) reach ValueError in the composed pattern+mapping")


def _eq_hash(rep, M, O, file):
    from sa.abseval import AbsEval, AObj, Sym
    from sa.decoders import cdr_groups_finding, obis_groups_field
    from sa.sveval import Res
    G = obis_groups_field(M)
    if G is None:
        raise Undecided("cannot bind the field of Obis that holds the value groups")
    eq, hs = O.methods.get("__eq__"), O.methods.get("__hash__")
    if eq is None or hs is None:
        raise Undecided("anchor vanished: Obis.__eq__/__hash__")
    AE = AbsEval(M)
    key = (MOD, "Obis")

    def obj(g):
        return AObj("Obis", {G: tuple(g)}, cls_key=key)
    base = (1, 2, 3, 4, 5, 6)
    cases = [(base, base, True)]
    for i in range(6):
        for v in ([None, 0, 255, 7] if i in (0, 1, 4, 5) else [0, 255, 7]):
            o = list(base)
            o[i] = v
            cases.append((base, tuple(o), False))
    cases += [((None, None, 3, 4, None, None), (None, None, 3, 4, None, None), True), ((None, None, 3, 4, None, None), (0, None, 3, 4, None, None), False),
              ((1, 1, 1, 8, 0, None), (1, 1, 1, 8, 0, 255), False), ((1, 1, 1, 8, 0, 255), (1, 1, 1, 8, 0, None), False), ((1, 1, 1, 8, None, None), (1, 1, 1, 8, 0, None), False)]
    bad = 0
    n = 0
    for a_, b_, want in cases:
        for left, right in ((a_, b_), (b_, a_)):
            r = AE.apply(eq, [obj(left), obj(right)])
            n += 1
            if r[0] in ("undecided", "branch"):
                raise Undecided(f"Obis.__eq__ outside the interpreted subset: {r[1]}")
            if r[0] != "value" or r[1] is not want:
                bad += 1
                if bad <= 3:
                    rep.violation("R3", "obis.Obis.__eq__", "eq-not-groups", "equality is not decided by comparing the two group tuples (different codes can compare equal, or equal codes unequal)", file, eq.node.lineno,
                                  witness=f"{left} == {right} gives {r[1] if r[0] == 'value' else r}")
            # equal objects hash equally
            if want:
                h1, h2 = AE.apply(hs, [obj(left)]), AE.apply(hs, [obj(right)])
                if h1[0] != "value" or h1 != h2:
                    bad += 1
                    rep.violation("R3", "obis.Obis.__hash__", "hash-not-groups", "__hash__ is not a function of the compared group tuple (equal objects may hash differently)", file, hs.node.lineno, witness=f"{h1} / {h2}")
    # the hash depends on nothing but the groups: symbolic groups must give a term over exactly those groups
    gs = tuple(Sym(x, "int") for x in "ABCDEF")
    h = AE.apply(hs, [obj(gs)])
    if h[0] != "value" or h[1] != Res("hash", gs):
        # accept any term built from the group tuple only
        ok_h = h[0] == "value" and isinstance(h[1], Res)
        if not ok_h:
            bad += 1
            rep.violation("R3", "obis.Obis.__hash__", "hash-not-groups", "__hash__ is not a function of the compared group tuple (equal objects may hash differently)", file, hs.node.lineno, witness=str(h)[:120])
    # string operands are parsed first; a non-code string gives False
    for text, g, want in (("1-2:3.4.5*6", base, True), ("1.2.3.4.5.6", base, True), ("1-2:3.4.5", base, False), ("3.4", (None, None, 3, 4, None, None), True), ("not a code", base, False), ("", base, False),
                          ("1.1.1.8.0.255", (1, 1, 1, 8, 0, None), False), ("1-1:1.8.0", (1, 1, 1, 8, 0, None), True)):
        r = AE.apply(eq, [obj(g), text])
        n += 1
        if r[0] in ("undecided", "branch"):
            raise Undecided(f"Obis.__eq__ with a string operand outside the interpreted subset: {r[1]}")
        if r[0] == "raise":
            bad += 1
            rep.violation("R3", "obis.Obis.__eq__", "no-valueerror-handler" if r[1] == "ValueError" else "eq-raises", f"comparison with the string {text!r} raises {r[1]} instead of giving {want}", file, eq.node.lineno)
        elif r[1] is not want:
            bad += 1
            rep.violation("R3", "obis.Obis.__eq__", "unparsable-other" if want is False and not any(ch.isdigit() for ch in text) else "eq-not-groups",
                          f"comparison of groups {g} with the string {text!r} gives {r[1]} instead of {want}", file, eq.node.lineno)
    # the other comparison operators: `!=` is the negation of `==` (Python derives it unless the class defines __ne__ itself); no ordering is defined
    ne = O.methods.get("__ne__")
    if ne is not None:
        pairs = [(obj(a_), obj(b_), want) for a_, b_, want in cases[:8]] + [(obj(g), text, want) for text, g, want in
                                                                                (("1-2:3.4.5*6", base, True), ("1-2:3.4.5", base, False), ("not a code", base, False), ("3.4", (None, None, 3, 4, None, None), True))]
        for x, y, want in pairs:
            r = AE.apply(ne, [x, y])
            n += 1
            if r[0] in ("undecided", "branch"):
                raise Undecided(f"Obis.__ne__ outside the interpreted subset: {r[1]}")
            if r[0] != "value" or r[1] is not (not want):
                bad += 1
                rep.violation("R3", "obis.Obis.__ne__", "ne-not-negation", "`!=` is not the negation of `==` (an explicit __ne__ disagrees with __eq__): equal codes compare unequal or a string operand is not parsed", file,
                              ne.node.lineno, witness=f"{x!r} != {y!r} gives {r[1] if r[0] == 'value' else r}"[:200])
                break
    if not bad:
        rep.ok("R3", "__eq__ / __hash__", f"{n} comparisons (every single-group difference incl. None/0/255, both operand orders, string operands parsed first, non-codes -> False); equal objects hash equally")
    cg = cdr_groups_finding(M)
    if cg:
        rep.violation("R3", "obis.Obis.to_group_cdr_str", "cde", cg, file, 1)
    else:
        rep.ok("R3", "to_group_cdr_str", "groups C, D, E in that order, separated by '.' (symbolic groups)")


def _roundtrip(rep, M, O, parse, lengths, file):
    from sa.abseval import AbsEval, AObj
    from sa.decoders import obis_groups_field
    fn = O.methods.get("to_reduced_str")
    if fn is None:
        raise Undecided("anchor vanished: Obis.to_reduced_str")
    G = obis_groups_field(M)
    AE = AbsEval(M)
    n = bad = 0
    templates = set()
    for pres in itertools.product((False, True), repeat=4):
        present = (pres[0], pres[1], True, True, pres[2], pres[3])
        idx = [i for i in range(6) if present[i]]
        cases = []
        for runs in itertools.product(lengths, repeat=len(idx)):
            vals = [None] * 6
            for i, r_ in zip(idx, runs):
                vals[i] = int(DIGITS[r_])
            cases.append(vals)
        # the mandatory groups C and D may be 0 (the premise restricts only the optional groups)
        base = [7 if present[i] else None for i in range(6)]
        for c0, d0 in ((0, 7), (7, 0), (0, 0), (0, 255), (255, 0)):
            v0 = list(base)
            v0[2], v0[3] = c0, d0
            cases.append(v0)
        # digit patterns a character-level clean-up of the text would damage: trailing / inner / leading-significant zeros, repeated digits
        for val in (10, 100, 250, 105, 200, 11, 101):
            cases.append([val if present[i] else None for i in range(6)])
            for i in range(6):
                if present[i]:
                    v1 = list(base)
                    v1[i] = val
                    cases.append(v1)
        for vals in cases:
            r = AE.apply(fn, [AObj("Obis", {G: tuple(vals)}, cls_key=(MOD, "Obis"))])
            if r[0] in ("undecided", "branch"):
                raise Undecided(f"to_reduced_str outside the interpreted subset: {r[1]}")
            n += 1
            s = r[1] if r[0] == "value" else f"<raises {r[1]}>"
            templates.add(present)
            got = parse(s) if r[0] == "value" and isinstance(s, str) else s
            if got != tuple(vals):
                bad += 1
                if bad <= 4:
                    rep.violation("R4", "obis.Obis.to_reduced_str", "round-trip:" + "".join("ABCDEF"[i] if vals[i] is not None else "-" for i in range(6)),
                                  "formatting in reduced form and parsing the result does not give back the same groups", file, fn.node.lineno, witness=f"groups {tuple(vals)} -> {s!r} -> {got}")
    rep.count("templates", len(templates))
    rep.count("roundtrip_instances", n)
    if not bad:
        rep.ok("R4", f"{len(templates)} presence patterns x run lengths", f"{n} group tuples format to a reduced string that parses back to the same groups (premise: optional groups absent or non-zero)")
    rep.floor("templates", len(templates), 16)


def _history(rep, M, file):
    """parsing and comparing do not depend on what was parsed before: when the module keeps anything between calls, `Obis.from_string(s)` and `Obis(..) == s` are
    interpreted (E-ABS) for a catalogue of good and malformed strings, alone and after every other string (also repeated), and the outcomes must agree"""
    st = M.module_state(MOD)
    if not st:
        rep.ok("R2", "history independence", f"module {MOD} keeps nothing between calls (no module-level container is modified, no global or class attribute rebound, nothing memoised)")
        return
    import ast as _ast
    from sa.abseval import AbsEval, AObj
    S = ["1.7.0", "abc", "1-0:1.8.0", "1.8.0*1", "1.8.0*2", "", "1-2:", "0-0:96.1.0*255"]

    def show(r):
        if r[0] == "value" and isinstance(r[1], AObj):
            return ("obis", repr(r[1].attrs.get("_groups", sorted(r[1].attrs.items()))))
        return (r[0], repr(r[1]))

    def run(A, expr):
        try:
            return ("value", A.eval(_ast.parse(expr, mode="eval").body, {}, MOD))
        except Exception as ex:  # noqa
            cls = getattr(ex, "cls", None)
            return ("raise", cls) if cls else ("undecided", f"{type(ex).__name__}: {ex}")
    exprs = [f"Obis.from_string({t!r})" for t in S] + [f"Obis.from_string('1.7.0') == {t!r}" for t in S]
    alone = {e: show(run(AbsEval(M), e)) for e in exprs}
    if any(v[0] == "undecided" for v in alone.values()):
        rep.undecide(f"R2 history independence: {MOD} keeps state between calls ({st[0][0]} {st[0][1]}) and the parser is outside the interpreted subset: {[v for v in alone.values() if v[0] == 'undecided'][0][1]}"[:300])
        return
    n = 0
    for a in exprs:
        for b in exprs:
            A = AbsEval(M)
            run(A, a)
            for rep_no in (1, 2):
                got = show(run(A, b))
                n += 1
                if got != alone[b]:
                    rep.violation("R2", f"{MOD}.Obis.from_string", "history-dependent", "the outcome of parsing / comparing a code depends on what was parsed before (state kept between calls): a malformed string is "
                                  "accepted, or a code compares equal to a string that does not denote it", file, M.classes[(MOD, "Obis")].node.lineno,
                                  witness=f"after {a}: {b} (evaluation {rep_no}) gives {got}, alone {alone[b]}"[:300])
                    return
    rep.ok("R2", "history independence", f"{n} two-step histories over {len(S)} good and malformed strings give the outcomes of the single calls")


def thorough(src, rep):
    from sa.selfval.harness import run_selfval
    run_selfval("C20", src, rep)
