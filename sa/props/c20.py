"""C20 - OBIS codes parse into their value groups and format back losslessly (level: other; exhaustive over the finite shape space).

R1 parse: every shape of the reduced form (16 presence patterns x run lengths) and of the six-part form matches the extracted
pattern with each named group spanning exactly its digit run; the group->tuple mapping of to_obis_tupple (E-PATH) is A..F in order,
int() converted, None exactly for an empty optional group.  R2 rejection argument.  R3 eq/hash/C.D.E.  R4 round trip of all
templates of to_reduced_str (token domain).
"""
from __future__ import annotations

import ast
import itertools
import re

from sa.consteval import ConstEval, NotConstant
from sa.model import Model
from sa.paths import Engine, show_sv
from sa.report import Undecided

LEVEL = "other"
MOD = "obis"
SELF = ("self0",)
REDUCED_NAMES = ("AR", "BR", "CR", "DR", "ER", "FR")
STANDARD_NAMES = ("AS", "BS", "CS", "DS", "ES", "FS")
DIGITS = {1: "7", 2: "42", 3: "255"}


def reduced_string(vals):
    a, b, c, d, e, f = vals
    s = ""
    if a is not None:
        s += f"{a}-"
    if b is not None:
        s += f"{b}:"
    s += f"{c}.{d}"
    if e is not None:
        s += f".{e}"
    if f is not None:
        s += f"*{f}"
    return s


def check(src, rep):
    M = Model(src)
    ce = ConstEval(M)
    file = src.file(MOD)
    rep.count("modules", len(src.text))
    fn = M.funcs.get("obis.to_obis_tupple")
    rep.require(fn is not None, "anchor vanished: obis.to_obis_tupple")
    rep.require((MOD, "Obis") in M.classes, "anchor vanished: obis.Obis")
    O = M.classes[(MOD, "Obis")]
    rep.assumptions += ["Python re and int() semantics (the extracted pattern is a constant of the program; the re engine defines its meaning)",
                        "alphabet uniformity: the pattern distinguishes digits only through \\d (checked on the pattern AST), so one digit string per run length is exact"]
    rep.explanation = ("Decided exhaustively over the finite shape space: all presence patterns x run lengths of both syntaxes match the extracted (constant-folded) pattern with each "
                       "named group spanning exactly its digit run; to_obis_tupple maps groups to tuple positions A..F, converts with int(), yields None exactly for empty optional groups and "
                       "converts C and D unconditionally (so a missing digit on either side of the dot raises ValueError); __eq__/__hash__ are functions of the same group tuple; the C.D.E string "
                       "interpolates groups 2,3,4; every template produced by to_reduced_str parses back to the same groups when optional groups are absent or non-zero.")
    # ---------------------------------------------------------------- the pattern
    pats = _pattern_used(fn, M, ce)
    rep.require(pats is not None, "cannot resolve the compiled pattern used by to_obis_tupple")
    pattern, method = pats
    try:
        rx = re.compile(pattern)
    except re.error as e:
        rep.violation("R1", "obis.OBIS_PATTERN_BOTH", "pattern", f"pattern does not compile: {e}", file, 1)
        return
    uniform = _alphabet_uniform(pattern)
    if not uniform:
        raise Undecided("pattern distinguishes individual digits (alphabet-uniformity lemma does not hold); shape enumeration is not exact")
    # ---------------------------------------------------------------- the mapping (E-PATH)
    mapping = _mapping(fn, M, rep, file)
    if mapping is None:
        return
    # mapping: list of (order, condition-group-name, names tuple, per-position ('int'|'opt'))
    thorough = rep.tier == "thorough"
    lengths = (1, 2, 3) if thorough else (1, 3)

    def parse(s):
        """the checker's composition of the extracted pattern and the extracted mapping; returns tuple, or 'ValueError'"""
        mt = getattr(rx, method)(s)
        if not mt:
            return "ValueError"
        for cond, names, kinds in mapping:
            if mt.group(cond):
                out = []
                for n, k in zip(names, kinds):
                    g = mt.group(n)
                    if k == "int":
                        if g is None:
                            return "TypeError"
                        if g == "" or not g.isdigit():
                            return "ValueError"
                        out.append(int(g))
                    else:
                        out.append(int(g) if g else None)
                return tuple(out)
        return "ValueError"

    # ---------------------------------------------------------------- R1: shapes
    n_shapes = bad = 0
    for pres in itertools.product((False, True), repeat=4):
        present = (pres[0], pres[1], True, True, pres[2], pres[3])
        idx = [i for i in range(6) if present[i]]
        for runs in itertools.product(lengths, repeat=len(idx)):
            vals = [None] * 6
            for i, r in zip(idx, runs):
                vals[i] = int(DIGITS[r])
            s = reduced_string(vals)
            n_shapes += 1
            got = parse(s)
            if got != tuple(vals):
                bad += 1
                if bad <= 3:
                    rep.violation("R1", "obis.to_obis_tupple", "reduced-shape", "a reduced-form OBIS code does not parse into its value groups", file, fn.node.lineno,
                                  witness=f"{s!r} -> {got} expected {tuple(vals)}")
    for runs in itertools.product(lengths, repeat=6):
        vals = tuple(int(DIGITS[r]) for r in runs)
        s = ".".join(str(v) for v in vals)
        n_shapes += 1
        got = parse(s)
        if got != vals:
            bad += 1
            if bad <= 3:
                rep.violation("R1", "obis.to_obis_tupple", "standard-shape", "a six-part OBIS code does not parse into its value groups", file, fn.node.lineno, witness=f"{s!r} -> {got} expected {vals}")
    # boundary values 0 and 255 in every position (run-length classes 1 and 3 cover them by uniformity; 0 checked explicitly because of truthiness tests)
    for pos in range(6):
        vals = [1, 1, 1, 8, 1, 1]
        vals[pos] = 0
        for s, want in ((reduced_string(vals), tuple(vals)), (".".join(map(str, vals)), tuple(vals))):
            n_shapes += 1
            got = parse(s)
            if got != want:
                bad += 1
                rep.violation("R1", "obis.to_obis_tupple", "zero-group", "a group with value 0 is not parsed as 0", file, fn.node.lineno, witness=f"{s!r} -> {got} expected {want}")
    rep.count("shapes", n_shapes)
    if not bad:
        rep.ok("R1", f"{n_shapes} shapes", f"all presence patterns x run lengths {lengths} of both syntaxes parse to exactly their groups (pattern constant-folded by E-CONST, mapping from E-PATH)")
    rep.extra["exhaustive"] = True
    # ---------------------------------------------------------------- R2: rejection
    _rejection(rep, pattern, mapping, parse, file, fn)
    # ---------------------------------------------------------------- R3
    _eq_hash(rep, M, O, file)
    # ---------------------------------------------------------------- R4
    _roundtrip(rep, M, O, parse, lengths, file)
    rep.floor("shapes", n_shapes, 300)


def _pattern_used(fn, M, ce):
    """the string the compiled pattern object used in to_obis_tupple was compiled from, and the matching method"""
    for n in ast.walk(fn.node):
        if isinstance(n, ast.Call) and isinstance(n.func, ast.Attribute) and n.func.attr in ("match", "fullmatch", "search") and isinstance(n.func.value, ast.Name):
            var = n.func.value.id
            init = M.mod_consts.get(MOD, {}).get(var)
            if isinstance(init, ast.Call) and init.args:
                try:
                    pat = ce.eval(init.args[0], {}, MOD)
                except NotConstant:
                    return None
                if isinstance(pat, str) and len(init.args) == 1 and not init.keywords:
                    return pat, n.func.attr
    return None


def _alphabet_uniform(pattern):
    import re._parser as sp  # python >= 3.11
    tree = sp.parse(pattern)

    def walk(items):
        for op, av in items:
            name = str(op)
            if name == "LITERAL":
                if chr(av).isdigit():
                    return False
            elif name == "IN":
                for o2, a2 in av:
                    n2 = str(o2)
                    if n2 == "LITERAL" and chr(a2).isdigit():
                        return False
                    if n2 == "RANGE" and any(chr(c).isdigit() for c in range(a2[0], min(a2[1], a2[0] + 300) + 1)):
                        return False
            elif name in ("MAX_REPEAT", "MIN_REPEAT"):
                if not walk(av[2]):
                    return False
            elif name == "SUBPATTERN":
                if not walk(av[3]):
                    return False
            elif name == "BRANCH":
                for br in av[1]:
                    if not walk(br):
                        return False
        return True

    return walk(tree)


def _mapping(fn, M, rep, file):
    ps = Engine(M).run(fn)
    out = []
    raises_ok = True
    for p in ps:
        if p.status == "raise":
            if not any(e[0] == "raise" and str(e[1]).startswith("ValueError") for e in p.effects):
                raises_ok = False
            continue
        if p.status != "return" or p.ret is None or p.ret[0] != "tuple" or len(p.ret[1]) != 6:
            raise Undecided("to_obis_tupple returns something other than a 6-tuple")
        # which alternative: the last positive guard `.group(match, NAME)`
        cond = None
        for g, pol, _ in p.guards:
            if g[0] == "call" and g[1] == ".group" and pol and len(g[2]) == 2 and g[2][1][0] == "c":
                cond = g[2][1][1]
        names, kinds = [], []
        for el in p.ret[1]:
            k = "int"
            core = el
            if el[0] == "ite":
                test, a, b = el[1], el[2], el[3]
                if b == ("c", None) and a[0] == "call" and a[1] == "int" and a[2] and a[2][0] == test:
                    k, core = "opt", a
                elif a == ("c", None) and test[0] == "not":
                    raise Undecided("inverted optional-group idiom")
                else:
                    raise Undecided(f"tuple element outside the idioms int(g) / int(g) if g else None: {show_sv(el)[:80]}")
            if not (core[0] == "call" and core[1] == "int" and len(core[2]) == 1):
                raise Undecided(f"tuple element is not an int() conversion: {show_sv(el)[:80]}")
            gsv = core[2][0]
            nm = None
            if gsv[0] == "sub" and gsv[1][0] == "call" and gsv[1][1] in ("match.group", ".group") and gsv[2][0] == "c":
                gargs = [a for a in gsv[1][2] if a[0] == "c" and isinstance(a[1], str)]
                if gsv[2][1] < len(gargs):
                    nm = gargs[gsv[2][1]][1]
            elif gsv[0] == "call" and gsv[1] in ("match.group", ".group"):
                gargs = [a for a in gsv[2] if a[0] == "c" and isinstance(a[1], str)]
                if len(gargs) == 1:
                    nm = gargs[0][1]
            if nm is None:
                raise Undecided(f"cannot resolve the regex group of a tuple element: {show_sv(gsv)[:80]}")
            names.append(nm)
            kinds.append(k)
        if cond is None:
            raise Undecided("cannot find the alternative test (match.group(NAME)) of a returning path")
        out.append((cond, tuple(names), tuple(kinds)))
    ok = True
    for cond, names, kinds in out:
        want_names = REDUCED_NAMES if cond == "REDUCED" else STANDARD_NAMES if cond == "STANDARD" else None
        if want_names is None:
            raise Undecided(f"unknown alternative {cond}")
        if names != want_names:
            ok = False
            rep.violation("R1", "obis.to_obis_tupple", f"group-order:{cond}", "regex groups are not mapped to tuple positions A..F in order", file, fn.node.lineno, witness=f"{names}")
        want_kinds = ("opt", "opt", "int", "int", "opt", "opt") if cond == "REDUCED" else ("int", "int", "int", "int", "int", "opt")
        for i, (k, w) in enumerate(zip(kinds, want_kinds)):
            if k != w:
                ok = False
                if w == "int":
                    rep.violation("R2" if cond == "REDUCED" else "R1", "obis.to_obis_tupple", f"mandatory-group:{cond}:{'ABCDEF'[i]}",
                                  f"mandatory group {'ABCDEF'[i]} is converted conditionally: an empty group becomes None instead of raising ValueError (strings such as '1.' or '.5' are accepted)",
                                  file, fn.node.lineno, witness=f"{names[i]}: int(g) if g else None")
                else:
                    rep.violation("R1", "obis.to_obis_tupple", f"optional-group:{cond}:{'ABCDEF'[i]}", f"optional group {'ABCDEF'[i]} is converted unconditionally (absent group raises instead of giving None)",
                                  file, fn.node.lineno, witness=names[i])
    if not raises_ok:
        rep.violation("R2", "obis.to_obis_tupple", "raise-class", "a failed match does not raise ValueError", file, fn.node.lineno)
    if {c for c, _, _ in out} != {"REDUCED", "STANDARD"}:
        raise Undecided("both alternatives (REDUCED, STANDARD) must have a returning path")
    if ok:
        rep.ok("R1", "group -> tuple mapping", "both alternatives map their six named groups to positions A..F in order; C, D (and A..E of the six-part form) converted unconditionally, optional groups give None when empty")
    return out


def _rejection(rep, pattern, mapping, parse, file, fn):
    """two unconditionally converted groups adjacent through a literal '.' in each alternative; failed match raises."""
    import re._parser as sp
    tree = sp.parse(pattern)

    def flat(items, out):
        for op, av in items:
            name = str(op)
            if name == "SUBPATTERN":
                gid = av[0]
                gname = next((n for n, i in tree.state.groupdict.items() if i == gid), None)
                if gname in REDUCED_NAMES + STANDARD_NAMES:
                    out.append(("G", gname))
                else:
                    flat(av[3], out)
            elif name in ("MAX_REPEAT", "MIN_REPEAT"):
                flat(av[2], out)
            elif name == "LITERAL":
                out.append(("L", chr(av)))
            elif name == "BRANCH":
                for br in av[1]:
                    out.append(("|", ""))
                    flat(br, out)
            else:
                out.append(("?", name))
        return out

    toks = flat(tree, [])
    seq = "".join(f"<{v}>" if k == "G" else v if k == "L" else k for k, v in toks)
    okr = "<CR>.<DR>" in seq
    oks = "<CS>.<DS>" in seq
    if okr and oks:
        rep.ok("R2", "digit-dot-digit", f"in both alternatives two unconditionally converted groups are adjacent through a literal '.' ({seq}); int('') raises ValueError, so returning normally implies a digit.digit substring")
    else:
        rep.violation("R2", "obis.OBIS_PATTERN_BOTH", "adjacency", "groups C and D are not adjacent through a literal '.' in the pattern", file, 1, witness=seq)
    n = bad = 0
    for s in ["", ".", "1.", ".5", "1-2:3.", "7.*6", "1.x", "abc", "1-2:", "1:2", "1*2", "..", "1-.2", " 1.2", "1 .2", "-:.", "1-2:.4", "a.b", "1..2"]:
        if re.search(r"\d\.\d", s):
            continue
        n += 1
        got = parse(s)
        if got != "ValueError":
            bad += 1
            rep.violation("R2", "obis.to_obis_tupple", "malformed-accepted", "a string without any digit.digit sequence does not raise ValueError", file, fn.node.lineno, witness=f"{s!r} -> {got}")
    if not bad:
        rep.ok("R2", f"{n} malformed witnesses", "strings without digit.digit (missing digit on either side of the dot, separators only, letters) reach ValueError in the composed pattern+mapping")


def _eq_hash(rep, M, O, file):
    G = None
    init = O.methods.get("__init__")
    for a in O.field_inits:
        G = a
    if G is None or len(O.field_inits) != 1:
        raise Undecided("Obis does not keep exactly one field (the group tuple)")
    GF = ("f0", SELF, G)
    eq, hs, cde = O.methods.get("__eq__"), O.methods.get("__hash__"), O.methods.get("to_group_cdr_str")
    if eq is None or hs is None or cde is None:
        raise Undecided("anchor vanished: Obis.__eq__/__hash__/to_group_cdr_str")
    ps = Engine(M).run(eq)
    other = ("p", eq.params[0])
    bad = 0
    n = 0
    for p in ps:
        if p.status != "return":
            continue
        n += 1
        is_obis = None
        exc = False
        for g, pol, _ in p.guards:
            if g[0] == "call" and g[1] == "isinstance":
                is_obis = pol
            if g[0] == "exc":
                exc = True
        r = p.ret
        if exc:
            if r != ("c", False):
                bad += 1
                rep.violation("R3", "obis.Obis.__eq__", "unparsable-other", "comparison with a string that is not an OBIS code does not give False", file, eq.node.lineno, witness=show_sv(r))
            continue
        want_other = ("f0", other, G) if is_obis else None
        good = r[0] == "cmp" and r[1] == "Eq" and GF in (r[2], r[3])
        if good:
            o = r[3] if r[2] == GF else r[2]
            if is_obis:
                good = o == want_other
            else:
                good = o[0] == "f0" and o[2] == G and o[1][0] == "call" and "from_string" in str(o[1][1])
        if not good:
            bad += 1
            rep.violation("R3", "obis.Obis.__eq__", "eq-not-groups", "equality is not decided by comparing the two group tuples (different codes can compare equal, or equal codes unequal)", file, eq.node.lineno,
                          witness=show_sv(r)[:160])
    if not any(g[0] == "exc" and "ValueError" in str(g[1]) for p in ps for g, _, _ in p.guards):
        bad += 1
        rep.violation("R3", "obis.Obis.__eq__", "no-valueerror-handler", "comparison with a non-OBIS string lets the parse error escape", file, eq.node.lineno)
    if not bad:
        rep.ok("R3", "__eq__", f"{n} returning path(s): group tuple == group tuple of the other Obis, a string is parsed first, ValueError -> False")
    ps = Engine(M).run(hs)
    if len(ps) == 1 and ps[0].ret is not None and ps[0].ret[0] == "call" and ps[0].ret[1] == "hash" and ps[0].ret[2] == (GF,):
        rep.ok("R3", "__hash__", "hash of the same group tuple that __eq__ compares")
    else:
        rep.violation("R3", "obis.Obis.__hash__", "hash-not-groups", "__hash__ is not a function of the compared group tuple (equal objects may hash differently)", file, hs.node.lineno,
                      witness=show_sv(ps[0].ret)[:120] if ps and ps[0].ret else None)
    ps = Engine(M).run(cde)
    okc = False
    if len(ps) == 1 and ps[0].ret is not None and ps[0].ret[0] == "fstr":
        parts = ps[0].ret[1]
        shape = [(x[0], x[1] if x[0] == "lit" else x[1]) for x in parts]
        want = [("val", ("sub", GF, ("c", 2))), ("lit", "."), ("val", ("sub", GF, ("c", 3))), ("lit", "."), ("val", ("sub", GF, ("c", 4)))]
        okc = shape == want and all((x[2] in (-1, None) and not x[3]) for x in parts if x[0] == "val")
    if okc:
        rep.ok("R3", "to_group_cdr_str", "interpolates groups C, D, E in that order, separated by '.'")
    else:
        rep.violation("R3", "obis.Obis.to_group_cdr_str", "cde", "the C.D.E string is not made of groups 2, 3 and 4", file, cde.node.lineno, witness=show_sv(ps[0].ret)[:120] if ps and ps[0].ret else None)


def _tokens(sv, GF):
    """string-builder SV -> list of ('lit', s) | ('grp', i) ; None if outside the token domain"""
    if sv[0] == "c" and isinstance(sv[1], str):
        return [("lit", sv[1])] if sv[1] else []
    if sv[0] == "op" and sv[1] == "Add":
        a, b = _tokens(sv[2], GF), _tokens(sv[3], GF)
        return None if a is None or b is None else a + b
    if sv[0] == "fstr":
        out = []
        for x in sv[1]:
            if x[0] == "lit":
                out.append(("lit", x[1]))
            else:
                v = x[1]
                if v[0] == "sub" and v[1] == GF and v[2][0] == "c" and x[2] in (-1, None) and not x[3]:
                    out.append(("grp", v[2][1]))
                else:
                    return None
        return out
    if sv[0] == "call" and sv[1] == "str" and len(sv[2]) == 1:
        v = sv[2][0]
        if v[0] == "sub" and v[1] == GF and v[2][0] == "c":
            return [("grp", v[2][1])]
    return None


def _roundtrip(rep, M, O, parse, lengths, file):
    fn = O.methods.get("to_reduced_str")
    if fn is None:
        raise Undecided("anchor vanished: Obis.to_reduced_str")
    G = next(iter(O.field_inits))
    GF = ("f0", SELF, G)
    ps = Engine(M).run(fn)
    n = bad = 0
    templates = set()
    for p in ps:
        if p.status != "return":
            continue
        toks = _tokens(p.ret, GF)
        if toks is None:
            raise Undecided(f"to_reduced_str builds its result outside the token domain: {show_sv(p.ret)[:100]}")
        pres = {}
        for g, pol, _ in p.guards:
            t = g
            if t[0] == "sub" and t[1] == GF and t[2][0] == "c":
                pres[t[2][1]] = pol  # truthiness; under the premise (absent or non-zero) = presence
            elif t[0] == "cmp" and t[1] == "Is" and t[2][0] == "sub" and t[2][1] == GF and t[3] == ("c", None):
                pres[t[2][2][1]] = not pol
            else:
                raise Undecided(f"to_reduced_str branches on an unrecognised condition {show_sv(g)[:80]}")
        templates.add(tuple(toks))
        # all presence patterns consistent with this path
        free = [i for i in (0, 1, 4, 5) if i not in pres]
        for combo in itertools.product((False, True), repeat=len(free)):
            present = dict(pres)
            present.update(dict(zip(free, combo)))
            idx = [i for i in range(6) if i in (2, 3) or present.get(i)]
            for runs in itertools.product(lengths, repeat=len(idx)):
                vals = [None] * 6
                for i, r in zip(idx, runs):
                    vals[i] = int(DIGITS[r])
                s = "".join(t[1] if t[0] == "lit" else str(vals[t[1]]) for t in toks)
                n += 1
                got = parse(s)
                if got != tuple(vals):
                    bad += 1
                    if bad <= 4:
                        rep.violation("R4", "obis.Obis.to_reduced_str", "round-trip:" + "".join("ABCDEF"[i] if vals[i] is not None else "-" for i in range(6)),
                                      "formatting in reduced form and parsing the result does not give back the same groups", file, fn.node.lineno,
                                      witness=f"groups {tuple(vals)} -> {s!r} -> {got}; template {''.join(t[1] if t[0]=='lit' else '{'+'ABCDEF'[t[1]]+'}' for t in toks)}")
    rep.count("templates", len(templates))
    rep.count("roundtrip_instances", n)
    if not bad:
        rep.ok("R4", f"{len(templates)} templates x run lengths", f"{n} instantiations of the per-path output templates parse back to the same groups (premise: optional groups absent or non-zero)")
    rep.floor("templates", len(templates), 16)


def thorough(src, rep):
    from sa.selfval.harness import run_selfval
    run_selfval("C20", src, rep)
