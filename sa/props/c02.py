"""C02 - HDLC: every well-formed frame on a clean stream is delivered once, in order (level: other).

R1 per-octet step refines the reference automaton on the rows a clean stream exercises (all four configurations);
R2 the length guard admits the 2047-octet maximum; R3 per-call state lives in reader fields; R4 emission order / release.
"""
from __future__ import annotations

from sa.hdlcmodel import HdlcModel
from sa.hdlcref import buffer_contracts, conformance, fresh_only_at_flag, frozen_after_emit, length_guard, skeleton

LEVEL = "other"
RULE = {"row": "R1", "admit": "R2", "locals": "R3", "lookahead": "R3", "chunk-flow": "R3", "frozen": "R4", "result": "R4", "buffer": "R1",
        "hunt-trim": "R1", "skeleton": "R3"}
DEMANDED_ROWS = {"start", "fill", "emit", "flag-data", "data", "unescape", "escape", "data-stuffed", "hunt"}


def emit(rep, m, results, rules, only=None):
    for r in results:
        tag = r.tag.split(":")[0]
        if tag not in rules:
            continue
        if only and not only(r):
            continue
        rule = rules[tag]
        if r.kind == "ok":
            rep.ok(rule, r.instance, r.text)
        elif r.kind == "bad":
            rep.violation(rule, "hdlc.HdlcFrameReader.read", f"{r.tag}:{r.instance}" if tag != "row" else r.tag, r.text, m.file, r.line, r.witness)
        else:
            rep.undecide(f"{rule} {r.instance}: {r.text}")


def check(src, rep):
    m = HdlcModel(src)
    rep.count("modules", len(src.text))
    rep.count("step_paths", len(m.paths))
    rep.count("feasible_paths", sum(1 for p in m.paths if m.feasible(p)))
    rep.assumptions += ["ISO/IEC 13239 / RFC 1662 §4 reference automaton as written in sa/hdlcref.py ROWS",
                        "frame length at entry of a step is <= the maximum (established by the length guard after every append, checked as C19/R2)"]
    rep.explanation = ("Decided: the per-octet step function of HdlcFrameReader.read, extracted as a decision table over role-bound atoms "
                       "(flag/escape octet, hunt mode, empty frame, HCS available, abort condition, stuffing, expected length, pending escape, length guard), "
                       "refines the reference automaton on every row a clean stream exercises, in all four configurations; the length guard admits 2047 octets; "
                       "state lives in reader fields; emitted frames are frozen. NOT decided: the induction over streams (pen-and-paper, DESIGN.md §3/C02).")
    conf = conformance(m)
    emit(rep, m, conf, RULE, only=lambda r: r.instance in DEMANDED_ROWS)
    emit(rep, m, length_guard(m), RULE)
    emit(rep, m, fresh_only_at_flag(m), {"start-at-flag": "R1"})
    emit(rep, m, skeleton(m), RULE)
    emit(rep, m, frozen_after_emit(m), RULE)
    emit(rep, m, buffer_contracts(m), RULE)
    from sa.hdlcref import raw_history_values
    emit(rep, m, raw_history_values(m), {"raw-value": "R1"})
    from sa.cross import include
    include(rep, src, "C01", {"R1", "R2", "R3", "R4"}, "R5", "delivered frames are valid with exact payload and header fields (address fields of 1 to 4 octets, segmentation bit, format type)")
    rep.floor("reference rows matched", sum(1 for r in conf if r.kind == "ok" and r.instance in DEMANDED_ROWS) + sum(1 for r in conf if r.kind == "bad" and r.instance in DEMANDED_ROWS), 9)


def thorough(src, rep):
    from sa.selfval.harness import run_selfval
    run_selfval("C02", src, rep)
