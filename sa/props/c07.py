"""C07 - Aidon lists decode to the transmitted register values, scaled exactly (level: other).

R1 wire types (COSEM tags -> width/signedness, OBIS field); R2 exact arithmetic (numeric-kind inference over the Computed expressions:
int x Decimal(10)**int); R3 int-or-float rule; R4 naming through obis_name_map on groups C.D.E; R5 text verbatim, clock = the
struct's datetime, manufacturer constant; R6 frame = LLC/APDU wrapper around the same body grammar, both normalisers feed the same function.
"""
from __future__ import annotations

import ast

from sa.consir import EnumVal, Expr, N, World, all_nodes, routes
from sa.consteval import ConstEval
from sa.decoders import cdr_groups_finding, is_cdr_of, name_map_findings, naming_verdict, obis_code_field, parse_targets, setitems, wire_type_findings
from sa.model import Model
from sa.paths import Engine, loop_body_paths, show_sv, strip_epoch
from sa.report import Undecided

LEVEL = "other"
MOD = "aidon"


def numeric_kind(node, kinds):
    """kind of an arithmetic expression over names with known kinds: int | Decimal | float | None(unknown)"""
    if isinstance(node, ast.Constant):
        return "int" if isinstance(node.value, int) and not isinstance(node.value, bool) else "float" if isinstance(node.value, float) else None
    if isinstance(node, ast.Call):
        f = ast.unparse(node.func)
        if f.endswith("Decimal"):
            a = node.args[0] if node.args else None
            if a is not None and numeric_kind(a, kinds) == "float":
                return "Decimal-from-float"
            return "Decimal"
        if f == "float":
            return "float"
        if f == "int":
            return "int"
        return None
    if isinstance(node, ast.Attribute) or isinstance(node, ast.Name):
        return kinds.get(ast.unparse(node).split(".")[-1])
    if isinstance(node, ast.BinOp):
        a, b = numeric_kind(node.left, kinds), numeric_kind(node.right, kinds)
        if a is None or b is None:
            return None
        if isinstance(node.op, ast.Pow):
            if a == "Decimal" and b == "int":
                return "Decimal"
            if a == "int" and b == "int":
                return "float"  # a negative exponent gives a binary float
            return "float"
        if isinstance(node.op, ast.Div):
            return "Decimal" if "Decimal" in (a, b) and "float" not in (a, b) else "float"
        if isinstance(node.op, (ast.Mult, ast.Add, ast.Sub)):
            if "float" in (a, b) or "Decimal-from-float" in (a, b):
                return "float"
            if "Decimal" in (a, b):
                return "Decimal"
            return "int"
    if isinstance(node, ast.UnaryOp):
        return numeric_kind(node.operand, kinds)
    return None


def _text_cond_feasible(term):
    """a condition on a text that some texts satisfy and others do not: a test of the text against a non-empty constant"""
    from sa.abseval import Sym
    from sa.sveval import Res
    return (isinstance(term, Res) and term.op in ("startswith", "endswith", "Eq", "NotEq", "In", "NotIn", "contains", "method:startswith", "method:endswith")
            and sum(isinstance(a, Sym) and a.pytype == "str" for a in term.args) == 1 and all(isinstance(a, (Sym, str)) and a != "" for a in term.args))


def check(src, rep):
    M = Model(src)
    from sa.oneshot import rule as _one_shot
    _one_shot(rep, M, src, ("aidon", "obis_map", "cosem", "obis", "common"), "R1")
    ce = ConstEval(M)
    w = World(src)
    file = src.file(MOD)
    rep.count("modules", len(src.text))
    m = w.module(MOD)
    el, body, frame = m.env.get("Element"), m.env.get("NotificationBody"), m.env.get("LlcPdu")
    rep.require(all(isinstance(x, N) for x in (el, body, frame)), "anchor vanished: aidon.Element / NotificationBody / LlcPdu could not be extracted")
    rep.assumptions += ["COSEM Blue Book table 2 (tag -> width/signedness), all multi-octet integers big-endian", "CPython float(Decimal) is correctly rounded",
                        "construct semantics as summarised in sa/consir.py"]
    rep.explanation = ("Decided: the element grammar parses each COSEM integer tag with the right width and signedness (and the scaler as signed 8-bit), the OBIS field is tag 9, length 6, six unsigned "
                       "octets joined with '.'; the scaled value is computed entirely in {int, Decimal} (Decimal(10) ** exponent times the unscaled integer); the stored value is the unscaled integer "
                       "when it equals the scaled value, else float(scaled); keys come from obis_name_map on groups C.D.E with a membership test (no code maps to two names); text elements are stored "
                       "verbatim, the clock element stores cosem.DateTime's datetime, the manufacturer is 'Aidon'; the frame grammar wraps the very same body grammar object and both entry points "
                       "feed the same list-items expression to the same normaliser. NOT decided: acceptance of every well-formed list by the grammar; float(Decimal) rounding is trusted.")
    # ---------------------------------------------------------------- R1
    wt, n_wt = wire_type_findings(w, ["cosem", MOD])
    for kind, mod, where, text, line in wt:
        rep.violation("R1", f"{mod}.{where.split(':')[0]}", f"wire-type:{where}", text, src.file(mod), line)
    if not wt:
        rep.ok("R1", f"{n_wt} tagged integer declarations", "each COSEM integer tag is parsed with the width and signedness of Blue Book table 2, big-endian")
    rep.count("wire_type_sites", n_wt)
    why = obis_code_field(w)
    if why:
        rep.violation("R1", "cosem.ObisCodeOctedStringField", "obis-field", why, src.file("cosem"), 1)
    else:
        rep.ok("R1", "OBIS field", "tag 9, length 6, six unsigned octets joined with '.'")
    # the unscaled value switch covers 6, 16, 18 and nothing maps to None
    content = next((s for s in el.a["subs"] if isinstance(s, N) and s.name == "content"), None)
    rep.require(content is not None and content.kind == "Switch", "aidon.Element has no content switch")
    dflt = content.a["default"]
    rep.require(isinstance(dflt, N) and dflt.kind == "Struct", "numeric content is not a Struct")
    uv = next((s for s in dflt.a["subs"] if isinstance(s, N) and s.name == "unscaled_value"), None)
    su = next((s for s in dflt.a["subs"] if isinstance(s, N) and s.name == "scaler_unit"), None)
    val = next((s for s in dflt.a["subs"] if isinstance(s, N) and s.name == "value"), None)
    rep.require(uv is not None and su is not None and val is not None, "numeric content lacks unscaled_value / scaler_unit / value")
    tags = sorted(k.value for k in uv.a["cases"] if isinstance(k, EnumVal)) if uv.kind == "Switch" else []
    if uv.kind == "Switch" and set(tags) >= {6, 16, 18}:
        rep.ok("R1", "register types", f"unscaled value switch covers tags {tags}")
    else:
        rep.violation("R1", "aidon.Element", "register-types", "the register value switch does not cover double-long-unsigned (6), long (16) and long-unsigned (18)", file, uv.line or 1, witness=str(tags))
    # ---------------------------------------------------------------- R2
    cos = w.module("cosem")
    scaler = cos.env.get("Scaler")
    rep.require(isinstance(scaler, N), "cosem.Scaler not extracted")
    scale = next((s for s in scaler.a["subs"] if isinstance(s, N) and s.name == "scale"), None)
    expo = next((s for s in scaler.a["subs"] if isinstance(s, N) and s.name == "exponent"), None)
    rep.require(scale is not None and scale.kind == "Computed" and expo is not None, "Scaler lacks exponent / computed scale")
    # the scale factor and the scaled value as terms over a symbolic register, for every signed 8-bit exponent (E-ABS on the Computed expressions)
    from sa.abseval import AbsEval as _AE, AObj as _AO, Sym as _Sym
    from sa.sveval import Res as _Res
    lam = scale.a["expr"].node
    vexpr = val.a["expr"].node if isinstance(val.a["expr"], Expr) else None
    REG = _Sym("register", "int")
    badk = None
    und2 = None
    ae = _AE(M)
    for k in list(range(-128, 128)):
        ctx = _AO("Container", {"exponent": k})
        r = ae.eval_expr(lam, {"__args__": [ctx], "this": ctx}, scale.a["expr"].mod or "cosem")
        want_scale = _Res("Pow", _Res("Decimal", 10), k)
        if r[0] in ("undecided", "branch"):
            und2 = f"scale expression: {r[1]}"
            break
        if r[0] == "raise" or r[1] != want_scale:
            badk = ("scale", k, r[1])
            break
        if vexpr is not None:
            vctx = _AO("Container", {"unscaled_value": REG, "scaler_unit": _AO("Container", {"scaler": _AO("Container", {"exponent": k, "scale": want_scale}), "unit": _Sym("unit", "int")})})
            r2 = ae.eval_expr(vexpr, {"__args__": [vctx], "this": vctx}, val.a["expr"].mod or MOD)
            if r2[0] in ("undecided", "branch"):
                und2 = f"value expression: {r2[1]}"
                break
            if r2[0] == "raise" or r2[1] != _Res("Mult", REG, want_scale):
                badk = ("value", k, r2[1])
                break
    if und2 or vexpr is None:
        rep.undecide(f"R2 the scaled value is outside the interpreted subset ({und2 or 'no value expression'})")
    elif badk:
        what, k, got = badk
        if what == "scale":
            rep.violation("R2", "cosem.Scaler", "inexact-scaling", f"for scaler exponent {k} the multiplication factor is {got!r} instead of the exact Decimal(10) ** {k}: register x 10^scaler is not exact (or not defined) for every scaler",
                          src.file("cosem"), scale.line or 1, witness=f"exponent {k}: {got!r}")
        else:
            rep.violation("R2", "aidon.Element", "value-expression", f"the scaled value is {got!r} instead of unscaled_value x Decimal(10) ** exponent", file, val.line or 1, witness=f"exponent {k}")
    else:
        rep.ok("R2", "scaled value", "unscaled (int) x Decimal(10) ** exponent for every signed 8-bit exponent: computed entirely in {int, Decimal} (symbolic register)")
    # ---------------------------------------------------------------- R3/R4/R5: normaliser, evaluated on an abstract parsed list (E-ABS)
    from sa.abseval import AbsEval, AObj, Sym
    from sa.decoders import normaliser_workers, obis_hook
    from sa.sveval import Res
    fn = M.funcs.get("aidon.normalize_parsed_notification")  # the public normaliser of a parsed body: whatever helpers it uses are followed by the interpreter
    rep.require(fn is not None, "anchor vanished: aidon.normalize_parsed_notification")

    def body_of(items_):
        return AObj("Container", {"list_items": items_, "length": len(items_)})
    try:
        name_map = ce.module_value("obis_map", "obis_name_map")
        MAN = ce.module_value("obis_map", "FIELD_METER_MANUFACTURER")
    except Exception as e:  # NotConstant
        raise Undecided(f"obis_map tables not constant: {e}")
    if not (isinstance(name_map, dict) and len(name_map) > 10):
        raise Undecided("obis_map.obis_name_map could not be evaluated to its table (the module-level code that fills it is outside the evaluator)")
    known = [k for k in sorted(name_map) if k != "1.0.0"][:3]
    U, V, TXT, DT, U2 = Sym("unscaled", "int"), Sym("scaled", "Decimal"), Sym("text", "str"), Sym("clock", "datetime"), Sym("unscaled2", "int")

    def code(cdr):
        return f"1.1.{cdr}.255"
    cases = [  # (class, OBIS code, content, expected stored value, rule, tag, text)
        ("scaled number", code(known[0]), AObj("Container", {"unscaled_value": U, "value": V, "scaler_unit": AObj("Container", {})}), Res("float", V), "R3", "int-or-float",
         "the stored number is not `unscaled integer if it equals the scaled value else float(scaled value)` (e.g. extra rounding changes the correctly rounded float)"),
        ("unscaled number", code(known[1]), AObj("Container", {"unscaled_value": U2, "value": U2, "scaler_unit": AObj("Container", {})}), U2, "R3", "int-or-float",
         "a register whose scaled value equals the unscaled integer is not stored as that integer"),
        ("text", code(known[2]), TXT, TXT, "R5", "text-not-verbatim", "a text element is transformed before it is stored"),
        ("clock", "0.0.1.0.0.255", AObj("Container", {"datetime": DT}), DT, "R5", "clock-not-datetime", "the clock element does not store the decoded datetime"),
        ("unknown code", "1.1.250.251.252.255", AObj("Container", {"unscaled_value": U, "value": V, "scaler_unit": AObj("Container", {})}), Res("float", V), "R4", "naming", ""),
    ]
    items = [AObj("Container", {"obis": c, "content": content}) for _, c, content, _, _, _, _ in cases]
    want = {MAN: "Aidon"}
    for cls_, c, _, val, _, _, _ in cases:
        cdr = ".".join(c.split(".")[2:5])
        want[name_map.get(cdr, cdr)] = val
    A = AbsEval(M, hooks={"Obis.from_string": obis_hook}, unequal=[(U, V)])
    res = A.apply(fn, [body_of(items)])
    n_store = 0
    bad = 0
    if res[0] == "branch":
        # conditions on the text itself (empty / non-empty, a prefix) are taken both ways: the text of an identification element is arbitrary
        from sa.parsedworlds import run_valuations as _rv
        outs_, trunc_ = _rv(A, fn, [body_of(items)], limit=8, with_terms=True)
        def poss_(t_, v_):
            """can the condition t_ have the truth value v_?  True / False / None (not known)"""
            if _text_cond_feasible(t_) or (isinstance(t_, Sym) and t_.pytype == "str"):
                return True
            if isinstance(t_, Sym) and t_.pytype == "datetime":
                return v_ is True  # a datetime is always true
            return None
        known_ = all(poss_(t_, v_) is not None for tk_, _, tt_ in outs_ for t_, v_ in zip(tt_, tk_))
        outs_ = [(tk_, r_, tt_) for tk_, r_, tt_ in outs_ if all(poss_(t_, v_) for t_, v_ in zip(tt_, tk_))]
        if not trunc_ and known_ and outs_ and all(r_[0] in ("value", "raise") for _, r_, _ in outs_):
            worst = next((r_ for _, r_, _ in outs_ if r_[0] == "raise"), None) or next((r_ for _, r_, _ in outs_ if r_[0] == "value" and isinstance(r_[1], dict) and r_[1] != want), None)
            res = worst or outs_[0][1]
            if worst is not None and worst[0] == "raise":
                tk_ = next(tk for tk, r_, _ in outs_ if r_ is worst)
                bad += 1
                rep.violation("R5", f"aidon.{fn.name}", "text-not-verbatim", f"for some text of an identification element the normaliser raises {worst[1]} instead of storing the text "
                              "(a condition on the text itself - e.g. its truth value, false for the empty string - decides how the element is treated)", file, fn.node.lineno,
                              witness=f"condition outcomes {list(tk_)} on {[str(t_)[:40] for t_ in next(tt for _, r_, tt in outs_ if r_ is worst)]}")
                res = ("handled", None)
    if res[0] == "undecided":
        rep.undecide(f"R3 aidon.{fn.name} is outside the interpreted subset: {res[1]}")
        bad += 1
    elif res[0] == "handled":
        pass
    elif res[0] == "branch":
        rep.undecide(f"R3 aidon.{fn.name} branches on a condition the element classes do not determine: {res[1]!r}")
        bad += 1
    elif res[0] == "raise" and res[1] == "KeyError":
        bad += 1
        rep.violation("R4", f"aidon.{fn.name}", "naming", "the common-name table is indexed without a membership test (unknown OBIS codes raise KeyError)", file, fn.node.lineno)
    elif res[0] == "raise":
        bad += 1
        rep.violation("R3", f"aidon.{fn.name}", "normaliser-raises", f"the normaliser raises {res[1]} for a well-formed list (scaled and unscaled registers, text, clock, unknown code)", file, fn.node.lineno)
    else:
        got = res[1]
        if not isinstance(got, dict):
            raise Undecided(f"aidon.{fn.name} does not return a dictionary")
        for cls_, c, _, val, rule, tag, text in cases:
            cdr = ".".join(c.split(".")[2:5])
            key = name_map.get(cdr, cdr)
            n_store += 1
            if key not in got:
                bad += 1
                others = [k for k in got if k not in want]
                rep.violation("R4", f"aidon.{fn.name}", "naming", f"the {cls_} element with C.D.E {cdr} is not stored under {key!r} (obis_name_map[C.D.E] when known, else C.D.E)" +
                              (f"; found {others[:3]}" if others else ""), file, fn.node.lineno)
            elif got[key] != val:
                bad += 1
                rep.violation(rule, f"aidon.{fn.name}", tag, text or f"the {cls_} element is stored as {got[key]!r}", file, fn.node.lineno, witness=f"{cls_}: stored {got[key]!r}, expected {val!r}")
        extra = [k for k in got if k not in want]
        if extra:
            bad += 1
            rep.violation("R4", f"aidon.{fn.name}", "stores-per-element", f"the dictionary has entries that no element of the list accounts for: {extra[:4]}", file, fn.node.lineno)
        if got.get(MAN) != "Aidon":
            bad += 1
            rep.violation("R5", f"aidon.{fn.name}", "manufacturer", "the manufacturer field is not the constant 'Aidon'", file, fn.node.lineno, witness=repr(got.get(MAN)))
        else:
            rep.ok("R5", "manufacturer", "meter_manufacturer = 'Aidon'")
    # text is verbatim under every name of the table: a list of one text element per code; conditions on the text itself are taken both ways
    if not bad and res[0] == "value":
        from sa.parsedworlds import run_valuations
        n_txt = 0
        for cdr_ in sorted(name_map):
            if bad:
                break
            key = name_map[cdr_]
            outs, trunc = run_valuations(A, fn, [body_of([AObj("Container", {"obis": code(cdr_), "content": TXT})])], limit=8, with_terms=True)
            n_txt += 1
            for taken, r, terms_ in outs:
                if r[0] == "undecided" or (r[0] == "branch"):
                    rep.undecide(f"R5 aidon.{fn.name} on a text element with C.D.E {cdr_}: {r[1]!r}")
                    bad += 1
                    break
                if r[0] == "value" and isinstance(r[1], dict) and r[1].get(key) == TXT and set(r[1]) - {key, MAN} and not taken:
                    rep.violation("R4", f"aidon.{fn.name}", "history-dependent", "the dictionary of a list depends on lists decoded earlier (module-level state): a list with a single text element "
                                  "comes back with fields of earlier lists", file, fn.node.lineno, witness=f"single element {code(cdr_)} = text gives keys {sorted(r[1])}"[:240])
                    bad += 1
                    break
                if (r[0] == "raise" or not isinstance(r[1], dict) or r[1].get(key) != TXT):
                    if taken and not all(_text_cond_feasible(t) for t in terms_):
                        rep.undecide(f"R5 aidon.{fn.name} treats the text element {key!r} according to a condition whose feasibility is not decided here")
                    else:
                        rep.violation("R5", f"aidon.{fn.name}", "text-not-verbatim", f"the text element {key!r} (C.D.E {cdr_}) is not stored verbatim for every text: " +
                                      (f"the normaliser raises {r[1]}" if r[0] == "raise" else f"stored {r[1].get(key) if isinstance(r[1], dict) else r[1]!r}"), file, fn.node.lineno,
                                      witness=f"list with the single element {code(cdr_)} = text" + (f", condition outcomes {list(taken)}" if taken else ""))
                    bad += 1
                    break
        rep.count("text_codes", n_txt)
        # ... and a register is stored by the int-or-float rule under every name of the table (no name gets a treatment of its own)
        n_num = 0
        for cdr_ in sorted(name_map):
            if bad:
                break
            key = name_map[cdr_]
            for content_, want_ in ((cases[0][2], Res("float", V)), (cases[1][2], U2)):
                r = A.apply(fn, [body_of([AObj("Container", {"obis": code(cdr_), "content": content_})])])
                n_num += 1
                if r[0] in ("undecided", "branch"):
                    rep.undecide(f"R3 aidon.{fn.name} on a register with C.D.E {cdr_}: {r[1]!r}"[:300])
                    bad += 1
                    break
                if r[0] == "raise" or not isinstance(r[1], dict) or r[1].get(key) != want_:
                    rep.violation("R3", f"aidon.{fn.name}", "int-or-float", f"the register {key!r} (C.D.E {cdr_}) is not stored as `unscaled integer if it equals the scaled value else float(scaled value)`: " +
                                  (f"the normaliser raises {r[1]}" if r[0] == "raise" else f"stored {r[1].get(key) if isinstance(r[1], dict) else r[1]!r}"), file, fn.node.lineno,
                                  witness=f"list with the single element {code(cdr_)} = {'scaled' if want_ is not U2 else 'unscaled'} register")
                    bad += 1
                    break
        rep.count("register_codes", n_num)
    # no history: a second list of the same length with other codes, decoded by the same interpreter state, is keyed by its own codes
    if not bad and res[0] == "value":
        items2 = [AObj("Container", {"obis": c, "content": content}) for c, content in zip([code(known[2]), code(known[0]), "1.1.250.251.252.255", code(known[1]), "0.0.1.0.0.255"],
                                                                                          [TXT, cases[0][2], cases[4][2], cases[1][2], cases[3][2]])]
        snap1 = dict(res[1])
        res2 = A.apply(fn, [body_of(items2)])
        if res2[0] == "value" and (res[1] is res2[1] or dict(res[1]) != snap1):
            bad += 1
            rep.violation("R4", f"aidon.{fn.name}", "result-aliased", "the dictionary returned for one list is the same object that the next decode refills: a result kept by the caller changes when "
                          "the next message is decoded", file, fn.node.lineno)
        want2 = {MAN: "Aidon", name_map[known[2]]: TXT, name_map[known[0]]: Res("float", V), "250.251.252": Res("float", V), name_map[known[1]]: U2, name_map.get("1.0.0", "1.0.0"): DT}
        if res2[0] != "value" or res2[1] != want2:
            bad += 1
            rep.violation("R4", f"aidon.{fn.name}", "history-dependent", "the dictionary of a list depends on lists decoded earlier (module-level state): a second list of the same length with other OBIS codes "
                          "is not keyed by its own codes", file, fn.node.lineno, witness=f"second call gives {res2[1] if res2[0] == 'value' else res2!r}"[:200])
    # ... and nothing of an earlier list is carried into a later, shorter one: a list with a text under every name of the table, then a list with one register only
    if not bad and res[0] == "value":
        resA = A.apply(fn, [body_of([AObj("Container", {"obis": code(cdr_), "content": TXT}) for cdr_ in sorted(name_map) if cdr_ != "1.0.0"])])
        resB = A.apply(fn, [body_of([AObj("Container", {"obis": "1.1.250.251.252.255", "content": cases[0][2]})])])
        wantB = {MAN: "Aidon", "250.251.252": Res("float", V)}
        if resA[0] in ("undecided", "branch") or resB[0] in ("undecided", "branch"):
            rep.undecide(f"R4 a list of texts followed by a one-register list is outside the interpreted subset: {(resA if resA[0] != 'value' else resB)[1]!r}"[:300])
            bad += 1
        elif resA[0] == "value" and (resB[0] != "value" or resB[1] != wantB):
            bad += 1
            rep.violation("R4", f"aidon.{fn.name}", "history-dependent", "the dictionary of a list depends on lists decoded earlier (module-level state): fields of an earlier list appear in the "
                          "dictionary of a later list that does not carry them", file, fn.node.lineno, witness=f"after a list with a text under every known name, the one-register list gives {resB[1] if resB[0] == 'value' else resB!r}"[:240])
    if not bad and n_store:
        rep.ok("R3", "numeric elements", "stored value = unscaled integer when equal to the scaled Decimal, else float(scaled Decimal) (symbolic register values)")
        rep.ok("R4", f"{n_store} element classes", "key = obis_name_map[C.D.E] when known, else C.D.E of the element's OBIS code")
        rep.ok("R5", "text and clock elements", "text stored verbatim; clock stores the struct's datetime member")
    cg = cdr_groups_finding(M)
    if cg:
        rep.violation("R4", "obis.Obis.to_group_cdr_str", "cde-groups", cg, src.file("obis"), 1)
    nm_bad, n_codes = name_map_findings(ce)
    for t in nm_bad:
        rep.violation("R4", "obis_map.obis_name_map", "name-table", t, src.file("obis_map"), 1)
    if not nm_bad:
        rep.ok("R4", f"obis_name_map ({n_codes} codes)", "built from name_obis_map; no OBIS group mapped to two names")
    # text type verbatim in the grammar
    vs = content.a["cases"]
    vstr = next((s for k, s in vs.items() if isinstance(k, EnumVal) and k.value == 10), None)
    if isinstance(vstr, N) and vstr.kind == "PascalString" and isinstance(vstr.a.get("len"), N) and not (vstr.a["len"].a.get("size") == 1 and not vstr.a["len"].a.get("signed")):
        rep.violation("R5", "aidon.Element", "visible-string", f"the length of a visible string is parsed as `{vstr.a['len'].a.get('type')}` instead of one unsigned octet: texts of 128..255 characters are "
                      "misread (the following octets are taken as part of the length)", file, content.line or 1)
    elif not (isinstance(vstr, N) and vstr.kind == "PascalString"):
        rep.violation("R5", "aidon.Element", "visible-string", "visible-string content is not a plain length-prefixed ASCII string", file, content.line or 1)
    # ---------------------------------------------------------------- R6
    rs = list(routes(frame, body))
    tg = parse_targets(M, MOD)
    ok6 = len(rs) == 1 and tg.get("decode_frame_content") == "LlcPdu" and tg.get("decode_notification_body") == "NotificationBody"
    fr_fn, bo_fn = M.funcs.get("aidon.normalize_parsed_frame"), M.funcs.get("aidon.normalize_parsed_notification")
    rep.require(fr_fn is not None and bo_fn is not None, "anchor vanished: aidon normalisers")
    # both public normalisers give the same dictionary for the same list, reached through the frame wrapper or directly
    if res[0] == "value":
        body_obj = AObj("Container", {"list_items": items})
        frame_obj = AObj("Container", {"information": AObj("Container", {"notification_body": body_obj})})
        r1 = AbsEval(M, hooks={"Obis.from_string": obis_hook}, unequal=[(U, V)]).apply(fr_fn, [frame_obj])
        r2 = AbsEval(M, hooks={"Obis.from_string": obis_hook}, unequal=[(U, V)]).apply(bo_fn, [body_obj])
        a1 = a2 = None
        ok6 = ok6 and r1[0] == "value" and r2[0] == "value" and r1[1] == res[1] and r2[1] == res[1]
        if r1[0] in ("undecided", "branch") or r2[0] in ("undecided", "branch"):
            rep.undecide(f"R6 public normalisers outside the interpreted subset: {r1[:2]} / {r2[:2]}")
    else:
        a1 = a2 = None
    ts6 = None
    if not ok6 and None in tg.values() and len(rs) == 1:
        from sa.decoders import parse_target_sets
        ts6 = parse_target_sets(M, MOD)
    if ts6 is not None and all(ts6.get(k_) for k_ in tg) and (ts6.get("decode_frame_content") != {"LlcPdu"} or ts6.get("decode_notification_body") != {"NotificationBody"}):
        rep.violation("R6", "aidon", "frame-body", "an entry point does not parse its input with its own grammar (frames with LlcPdu, bare bodies with NotificationBody): a frame is cut up "
                      "by hand or handed to the other grammar, so frame and bare-body decoding can disagree", file, 1, witness=f"grammars reached: { {k_: sorted(v_) for k_, v_ in ts6.items()} }")
    elif not ok6 and None in tg.values() and len(rs) == 1:
        rep.undecide(f"R6 cannot see which grammar the entry points parse their input with ({tg})")
    elif ok6:
        rep.ok("R6", "frame = body", "LlcPdu wraps the same NotificationBody grammar object; both entry points hand its list_items to the same normaliser")
    else:
        rep.violation("R6", "aidon", "frame-body", "frame and bare-body decoding do not share grammar and normaliser", file, 1, witness=f"routes={len(rs)} parse={tg} args={a1},{a2}")
    from sa.cross import include
    include(rep, src, "C10", {"R1", "R2", "R3", "R4"}, "R5", "the clock element is the transmitted date-time")
    rep.floor("element classes", n_store, 5)


def thorough(src, rep):
    from sa.selfval.harness import run_selfval
    run_selfval("C07", src, rep)
