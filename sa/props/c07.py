"""C07 - Aidon lists decode to the transmitted register values, scaled exactly (level: other).

R1 wire types (COSEM tags -> width/signedness, OBIS field); R2 exact arithmetic (numeric-kind inference over the Computed expressions:
int x Decimal(10)**int); R3 int-or-float rule; R4 naming through obis_name_map on groups C.D.E; R5 text verbatim, clock = the
struct's datetime, manufacturer constant; R6 frame = LLC/APDU wrapper around the same body grammar, both normalisers feed the same function.
"""
from __future__ import annotations

import ast

from sa.consir import EnumVal, Expr, N, World, all_nodes, routes
from sa.consteval import ConstEval
from sa.decoders import cdr_groups_finding, is_cdr_of, name_map_findings, naming_verdict, obis_code_field, parse_targets, setitems, wire_type_findings
from sa.model import Model
from sa.paths import Engine, loop_body_paths, show_sv, strip_epoch
from sa.report import Undecided

LEVEL = "other"
MOD = "aidon"


def numeric_kind(node, kinds):
    """kind of an arithmetic expression over names with known kinds: int | Decimal | float | None(unknown)"""
    if isinstance(node, ast.Constant):
        return "int" if isinstance(node.value, int) and not isinstance(node.value, bool) else "float" if isinstance(node.value, float) else None
    if isinstance(node, ast.Call):
        f = ast.unparse(node.func)
        if f.endswith("Decimal"):
            a = node.args[0] if node.args else None
            if a is not None and numeric_kind(a, kinds) == "float":
                return "Decimal-from-float"
            return "Decimal"
        if f == "float":
            return "float"
        if f == "int":
            return "int"
        return None
    if isinstance(node, ast.Attribute) or isinstance(node, ast.Name):
        return kinds.get(ast.unparse(node).split(".")[-1])
    if isinstance(node, ast.BinOp):
        a, b = numeric_kind(node.left, kinds), numeric_kind(node.right, kinds)
        if a is None or b is None:
            return None
        if isinstance(node.op, ast.Pow):
            if a == "Decimal" and b == "int":
                return "Decimal"
            if a == "int" and b == "int":
                return "float"  # a negative exponent gives a binary float
            return "float"
        if isinstance(node.op, ast.Div):
            return "Decimal" if "Decimal" in (a, b) and "float" not in (a, b) else "float"
        if isinstance(node.op, (ast.Mult, ast.Add, ast.Sub)):
            if "float" in (a, b) or "Decimal-from-float" in (a, b):
                return "float"
            if "Decimal" in (a, b):
                return "Decimal"
            return "int"
    if isinstance(node, ast.UnaryOp):
        return numeric_kind(node.operand, kinds)
    return None


def check(src, rep):
    M = Model(src)
    ce = ConstEval(M)
    w = World(src)
    file = src.file(MOD)
    rep.count("modules", len(src.text))
    m = w.module(MOD)
    el, body, frame = m.env.get("Element"), m.env.get("NotificationBody"), m.env.get("LlcPdu")
    rep.require(all(isinstance(x, N) for x in (el, body, frame)), "anchor vanished: aidon.Element / NotificationBody / LlcPdu could not be extracted")
    rep.assumptions += ["COSEM Blue Book table 2 (tag -> width/signedness), all multi-octet integers big-endian", "CPython float(Decimal) is correctly rounded",
                        "construct semantics as summarised in sa/consir.py"]
    rep.explanation = ("Decided: the element grammar parses each COSEM integer tag with the right width and signedness (and the scaler as signed 8-bit), the OBIS field is tag 9, length 6, six unsigned "
                       "octets joined with '.'; the scaled value is computed entirely in {int, Decimal} (Decimal(10) ** exponent times the unscaled integer); the stored value is the unscaled integer "
                       "when it equals the scaled value, else float(scaled); keys come from obis_name_map on groups C.D.E with a membership test (no code maps to two names); text elements are stored "
                       "verbatim, the clock element stores cosem.DateTime's datetime, the manufacturer is 'Aidon'; the frame grammar wraps the very same body grammar object and both entry points "
                       "feed the same list-items expression to the same normaliser. NOT decided: acceptance of every well-formed list by the grammar; float(Decimal) rounding is trusted.")
    # ---------------------------------------------------------------- R1
    wt, n_wt = wire_type_findings(w, ["cosem", MOD])
    for kind, mod, where, text, line in wt:
        rep.violation("R1", f"{mod}.{where.split(':')[0]}", f"wire-type:{where}", text, src.file(mod), line)
    if not wt:
        rep.ok("R1", f"{n_wt} tagged integer declarations", "each COSEM integer tag is parsed with the width and signedness of Blue Book table 2, big-endian")
    rep.count("wire_type_sites", n_wt)
    why = obis_code_field(w)
    if why:
        rep.violation("R1", "cosem.ObisCodeOctedStringField", "obis-field", why, src.file("cosem"), 1)
    else:
        rep.ok("R1", "OBIS field", "tag 9, length 6, six unsigned octets joined with '.'")
    # the unscaled value switch covers 6, 16, 18 and nothing maps to None
    content = next((s for s in el.a["subs"] if isinstance(s, N) and s.name == "content"), None)
    rep.require(content is not None and content.kind == "Switch", "aidon.Element has no content switch")
    dflt = content.a["default"]
    rep.require(isinstance(dflt, N) and dflt.kind == "Struct", "numeric content is not a Struct")
    uv = next((s for s in dflt.a["subs"] if isinstance(s, N) and s.name == "unscaled_value"), None)
    su = next((s for s in dflt.a["subs"] if isinstance(s, N) and s.name == "scaler_unit"), None)
    val = next((s for s in dflt.a["subs"] if isinstance(s, N) and s.name == "value"), None)
    rep.require(uv is not None and su is not None and val is not None, "numeric content lacks unscaled_value / scaler_unit / value")
    tags = sorted(k.value for k in uv.a["cases"] if isinstance(k, EnumVal)) if uv.kind == "Switch" else []
    if uv.kind == "Switch" and set(tags) >= {6, 16, 18}:
        rep.ok("R1", "register types", f"unscaled value switch covers tags {tags}")
    else:
        rep.violation("R1", "aidon.Element", "register-types", "the register value switch does not cover double-long-unsigned (6), long (16) and long-unsigned (18)", file, uv.line or 1, witness=str(tags))
    # ---------------------------------------------------------------- R2
    cos = w.module("cosem")
    scaler = cos.env.get("Scaler")
    rep.require(isinstance(scaler, N), "cosem.Scaler not extracted")
    scale = next((s for s in scaler.a["subs"] if isinstance(s, N) and s.name == "scale"), None)
    expo = next((s for s in scaler.a["subs"] if isinstance(s, N) and s.name == "exponent"), None)
    rep.require(scale is not None and scale.kind == "Computed" and expo is not None, "Scaler lacks exponent / computed scale")
    lam = scale.a["expr"].node
    body_expr = lam.body if isinstance(lam, ast.Lambda) else lam
    k_scale = numeric_kind(body_expr, {"exponent": "int"})
    vexpr = val.a["expr"].node if isinstance(val.a["expr"], Expr) else None
    k_val = numeric_kind(vexpr, {"unscaled_value": "int", "scale": k_scale}) if vexpr is not None else None
    if k_scale == "Decimal" and k_val == "Decimal":
        rep.ok("R2", "scaled value", "unscaled (int) x Decimal(10) ** exponent (int): computed entirely in {int, Decimal}")
    elif k_scale is None or k_val is None:
        rep.undecide(f"R2 numeric kind of the scaled value could not be inferred ({ast.unparse(body_expr)[:60]} / {ast.unparse(vexpr)[:60] if vexpr else None})")
    else:
        rep.violation("R2", "cosem.Scaler" if k_scale != "Decimal" else "aidon.Element", "inexact-scaling", f"the scaled value is computed in binary floating point (scale is {k_scale}, value is {k_val}): register x 10^scaler is not exact",
                      src.file("cosem") if k_scale != "Decimal" else file, scale.line or 1, witness=ast.unparse(body_expr)[:80])
    # the value multiplies exactly unscaled_value and scaler.scale
    if vexpr is not None:
        txt = ast.unparse(vexpr).replace("construct.", "")
        if not (isinstance(vexpr, ast.BinOp) and isinstance(vexpr.op, ast.Mult) and {txt.split(" * ")[0], txt.split(" * ")[-1]} == {"this.unscaled_value", "this.scaler_unit.scaler.scale"}):
            rep.violation("R2", "aidon.Element", "value-expression", "the scaled value is not unscaled_value x scaler.scale", file, val.line or 1, witness=txt[:80])
    # ---------------------------------------------------------------- R3/R4/R5: normaliser
    from sa.decoders import normaliser_workers
    ws = normaliser_workers(M, MOD)
    rep.require(len(ws) == 1, f"cannot find the one list-items normaliser reached from the public normalize_* functions (found {[w.name for w in ws]})")
    fn = ws[0]
    E = Engine(M)
    node, ps = loop_body_paths(E, fn)
    item = ("iter", ("p", fn.params[0]), node.lineno)
    content_sv = ("f0", item, "content")
    n_store = 0
    bad = 0
    for p in ps:
        st = setitems(p)
        if len(st) != 1:
            bad += 1
            rep.violation("R4", f"aidon.{fn.name}", "stores-per-element", f"an element produces {len(st)} dictionary entries instead of one", file, node.lineno)
            continue
        key, value, line = st[0]
        n_store += 1
        nv = naming_verdict(key, p.guards, item)
        if nv:
            bad += 1
            rep.violation("R4", f"aidon.{fn.name}", "naming", nv, file, line)
        lits = {}
        for g, pol, _ in p.guards:
            g = strip_epoch(g)
            if g[0] == "call" and g[1] == "isinstance" and g[2][0] == content_sv and "str" in show_sv(g[2][1]):
                lits["str"] = pol
            if g[0] == "call" and g[1] == "hasattr" and g[2] == (content_sv, ("c", "datetime")):
                lits["dt"] = pol
        if lits.get("str"):
            if value != content_sv:
                bad += 1
                rep.violation("R5", f"aidon.{fn.name}", "text-not-verbatim", "a text element is transformed before it is stored", file, line, witness=show_sv(value)[:80])
        elif lits.get("dt"):
            if value != ("f0", content_sv, "datetime"):
                bad += 1
                rep.violation("R5", f"aidon.{fn.name}", "clock-not-datetime", "the clock element does not store the decoded datetime", file, line, witness=show_sv(value)[:80])
        elif lits.get("str") is False and lits.get("dt") is False:
            U, V = ("f0", content_sv, "unscaled_value"), ("f0", content_sv, "value")
            want = ("ite", ("cmp", "Eq", U, V), U, ("call", "float", (V,)))
            alt = ("ite", ("cmp", "Eq", V, U), U, ("call", "float", (V,)))
            norm = value
            if norm[0] == "ite" and norm[3][0] == "call" and norm[3][1] == "float":
                norm = ("ite", norm[1], norm[2], ("call", "float", norm[3][2]))
            if norm not in (want, alt):
                bad += 1
                rep.violation("R3", f"aidon.{fn.name}", "int-or-float", "the stored number is not `unscaled integer if it equals the scaled value else float(scaled value)` "
                              "(e.g. extra rounding changes the correctly rounded float)", file, line, witness=show_sv(value)[:140])
        else:
            rep.undecide(f"R3 an element path is not classified by isinstance(content, str) / hasattr(content, 'datetime'): {[show_sv(g)[:40] for g, _, _ in p.guards]}")
    if not bad and n_store:
        rep.ok("R3", "numeric elements", "stored value = unscaled integer when equal to the scaled Decimal, else float(scaled Decimal)")
        rep.ok("R4", f"{n_store} element paths", "key = obis_name_map[C.D.E] under a membership test, else C.D.E; C.D.E from groups 2-4 of the element's OBIS code")
        rep.ok("R5", "text and clock elements", "text stored verbatim; clock stores the struct's datetime member")
    cg = cdr_groups_finding(M)
    if cg:
        rep.violation("R4", "obis.Obis.to_group_cdr_str", "cde-groups", cg, src.file("obis"), 1)
    nm_bad, n_codes = name_map_findings(ce)
    for t in nm_bad:
        rep.violation("R4", "obis_map.obis_name_map", "name-table", t, src.file("obis_map"), 1)
    if not nm_bad:
        rep.ok("R4", f"obis_name_map ({n_codes} codes)", "built from name_obis_map; no OBIS group mapped to two names")
    # text type verbatim in the grammar
    vs = content.a["cases"]
    vstr = next((s for k, s in vs.items() if isinstance(k, EnumVal) and k.value == 10), None)
    if not (isinstance(vstr, N) and vstr.kind == "PascalString"):
        rep.violation("R5", "aidon.Element", "visible-string", "visible-string content is not a plain length-prefixed ASCII string", file, content.line or 1)
    # manufacturer
    man = [n for n in ast.walk(fn.node) if isinstance(n, ast.Dict)]
    okm = any(any(isinstance(v, ast.Constant) and v.value == "Aidon" for v in d.values) and any("FIELD_METER_MANUFACTURER" in ast.unparse(k) for k in d.keys) for d in man)
    if okm:
        rep.ok("R5", "manufacturer", "meter_manufacturer = 'Aidon'")
    else:
        rep.violation("R5", f"aidon.{fn.name}", "manufacturer", "the manufacturer field is not the constant 'Aidon'", file, fn.node.lineno)
    # ---------------------------------------------------------------- R6
    rs = list(routes(frame, body))
    tg = parse_targets(M, MOD)
    ok6 = len(rs) == 1 and tg.get("decode_frame_content") == "LlcPdu" and tg.get("decode_notification_body") == "NotificationBody"
    fr_fn, bo_fn = M.funcs.get("aidon.normalize_parsed_frame"), M.funcs.get("aidon.normalize_parsed_notification")
    rep.require(fr_fn is not None and bo_fn is not None, "anchor vanished: aidon normalisers")
    a1 = [ast.unparse(n.args[0]) for n in ast.walk(fr_fn.node) if isinstance(n, ast.Call) and ast.unparse(n.func) == fn.name]
    a2 = [ast.unparse(n.args[0]) for n in ast.walk(bo_fn.node) if isinstance(n, ast.Call) and ast.unparse(n.func) == fn.name]
    p1, p2 = (fr_fn.params[0] if fr_fn.params else ""), (bo_fn.params[0] if bo_fn.params else "")
    ok6 = ok6 and a1 == [f"{p1}.information.notification_body.list_items"] and a2 == [f"{p2}.list_items"]
    if ok6:
        rep.ok("R6", "frame = body", "LlcPdu wraps the same NotificationBody grammar object; both entry points hand its list_items to the same normaliser")
    else:
        rep.violation("R6", "aidon", "frame-body", "frame and bare-body decoding do not share grammar and normaliser", file, 1, witness=f"routes={len(rs)} parse={tg} args={a1},{a2}")
    from sa.cross import include
    include(rep, src, "C10", {"R1", "R2", "R3", "R4"}, "R5", "the clock element is the transmitted date-time")
    rep.floor("element paths", n_store, 3)


def thorough(src, rep):
    from sa.selfval.harness import run_selfval
    run_selfval("C07", src, rep)
