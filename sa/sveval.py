"""Evaluate symbolic values (sa.paths SV tuples) of integer/boolean kind under an assignment of their leaves.

Used to tabulate extracted transfer functions (e.g. the back-off recurrence) over a finite parameter domain.
The leaves (entry values of fields, parameters) are given by `env`: {sv: python value}."""
from __future__ import annotations


class CannotEval(Exception):
    pass


class Res:
    """residual (symbolic) value: an uninterpreted operation applied to values; + and * are commutative"""
    __slots__ = ("op", "args")

    def __init__(self, op, *args):
        if op in ("Add", "Mult"):
            args = tuple(sorted(args, key=repr))
        self.op, self.args = op, tuple(args)

    def __eq__(self, o):
        return isinstance(o, Res) and (self.op, self.args) == (o.op, o.args)

    def __hash__(self):
        return hash((self.op, self.args))

    def __repr__(self):
        return f"{self.op}({', '.join(map(repr, self.args))})" if self.args else self.op


def _has_res(*vals):
    return any(isinstance(v, Res) or (isinstance(v, tuple) and _has_res(*v)) for v in vals)


_STR_METHODS = {".lower": str.lower, ".upper": str.upper, ".casefold": str.casefold, ".strip": str.strip}


def ev(sv, env, leaf=None):
    """`leaf(sv)` (optional) gives the value of opaque nodes (calls, fields, properties, parameters); it returns NotImplemented to decline.
    With residual values (Res) in the environment, operations on them stay symbolic."""
    if sv in env:
        return env[sv]
    t = sv[0]
    if t == "c":
        return sv[1]
    if leaf is not None and t in ("call", "f0", "prop", "p", "g", "iter", "calldyn", "new"):
        r = leaf(sv)
        if r is not NotImplemented:
            return r
    if leaf is not None:
        return _ev_sym(sv, env, leaf)
    return _ev(sv, env)


def _ev_sym(sv, env, leaf):
    t = sv[0]
    E = lambda x: ev(x, env, leaf)
    if t == "op":
        a, b = E(sv[2]), E(sv[3])
        if _has_res(a, b):
            return Res(sv[1], a, b)
        return _ev(("op", sv[1], ("c", a), ("c", b)), env)
    if t == "cmp":
        a, b = E(sv[2]), E(sv[3])
        if sv[1] in ("In", "NotIn"):
            try:
                r = a in b
            except TypeError as e:
                raise CannotEval(str(e))
            if _has_res(a) or _has_res(b):
                raise CannotEval("membership of a symbolic value")
            return r if sv[1] == "In" else not r
        if sv[1] in ("Is", "IsNot") and (a is None or b is None):
            return (a is b) if sv[1] == "Is" else (a is not b)
        if _has_res(a, b):
            if sv[1] in ("Eq", "NotEq") and a == b:
                return sv[1] == "Eq"
            raise CannotEval(f"comparison of symbolic values {a!r} {sv[1]} {b!r}")
        return _ev(("cmp", sv[1], ("c", a), ("c", b)), env)
    if t == "not":
        return not _truth(E(sv[1]))
    if t == "bool":
        r = sv[1] == "and"
        for x in sv[2]:
            r = E(x)
            if bool(_truth(r)) != (sv[1] == "and"):
                return r
        return r
    if t == "ite":
        return E(sv[2]) if _truth(E(sv[1])) else E(sv[3])
    if t == "sub":
        a, b = E(sv[1]), E(sv[2])
        if _has_res(a) and not isinstance(a, (tuple, list, dict)):
            return Res("sub", a, b)
        try:
            return a[b]
        except (IndexError, KeyError, TypeError) as e:
            raise CannotEval(f"subscript: {e}")
    if t == "slice":
        a = E(sv[1])
        lo = E(sv[2]) if sv[2] is not None else None
        hi = E(sv[3]) if sv[3] is not None else None
        if isinstance(a, Res):
            return Res("slice", a, lo, hi)
        try:
            return a[lo:hi]
        except TypeError as e:
            raise CannotEval(str(e))
    if t == "len":
        a = E(sv[1])
        if isinstance(a, Res):
            return Res("len", a)
        try:
            return len(a)
        except TypeError as e:
            raise CannotEval(str(e))
    if t == "tuple":
        return tuple(E(x) for x in sv[1])
    if t == "call":
        name = sv[1] if isinstance(sv[1], str) else str(sv[1])
        args = [E(a) for a in sv[2] if not (isinstance(a, tuple) and a and a[0] == "kw")]
        kws = {a[1]: E(a[2]) for a in sv[2] if isinstance(a, tuple) and a and a[0] == "kw"}
        if name in _STR_METHODS and len(args) == 1:
            if isinstance(args[0], str):
                return _STR_METHODS[name](args[0])
            if args[0] is None:
                raise CannotEval(f"{name} on None")
        if name in (".startswith", ".endswith", ".isdigit", ".isalpha", ".isascii") and args and isinstance(args[0], (str, bytes)) and not _has_res(*args[1:]):
            return getattr(args[0], name[1:])(*args[1:])
        if name.endswith(".get") and len(args) >= 2 and isinstance(args[0], dict) and not _has_res(*args[1:2]):
            return args[0].get(args[1], args[2] if len(args) > 2 else None)
        if name == "cast" and len(args) == 2:
            return args[1]
        if name in ("len",) and not _has_res(*args):
            return len(args[0])
        if name in ("int", "float", "str", "bool", "round", "abs", "min", "max") and not _has_res(*args) and not kws:
            try:
                return {"int": int, "float": float, "str": str, "bool": bool, "round": round, "abs": abs, "min": min, "max": max}[name](*args)
            except (TypeError, ValueError) as e:
                raise CannotEval(str(e))
        return Res(name, *args, *[Res("kw:" + k, v) for k, v in sorted(kws.items())])
    if t == "fstr":
        parts = []
        for part in sv[1]:
            parts.append(part[1] if part[0] == "lit" else Res("fmt", E(part[1]), part[3]))
        return Res("fstr", *parts)
    raise CannotEval(f"leaf/kind {sv[:2]}")


def _truth(v):
    if isinstance(v, Res):
        raise CannotEval(f"truth of symbolic value {v!r}")
    return bool(v)


def _ev(sv, env):
    if sv in env:
        return env[sv]
    t = sv[0]
    if t == "c":
        return sv[1]
    if t == "op":
        a, b = ev(sv[2], env), ev(sv[3], env)
        try:
            return {"Add": lambda: a + b, "Sub": lambda: a - b, "Mult": lambda: a * b, "FloorDiv": lambda: a // b, "Mod": lambda: a % b,
                    "Pow": lambda: a ** b if abs(b) < 64 else (_ for _ in ()).throw(CannotEval("pow")), "LShift": lambda: a << b if b < 64 else (_ for _ in ()).throw(CannotEval("shl")),
                    "RShift": lambda: a >> b, "BitAnd": lambda: a & b, "BitOr": lambda: a | b, "BitXor": lambda: a ^ b, "Div": lambda: a / b}[sv[1]]()
        except KeyError:
            raise CannotEval(f"operator {sv[1]}")
        except (TypeError, ZeroDivisionError) as e:
            raise CannotEval(str(e))
    if t == "un":
        a = ev(sv[2], env)
        return {"USub": -a, "UAdd": +a, "Invert": ~a}[sv[1]]
    if t == "not":
        return not ev(sv[1], env)
    if t == "cmp":
        a, b = ev(sv[2], env), ev(sv[3], env)
        try:
            if sv[1] in ("In", "NotIn"):
                return (a in b) == (sv[1] == "In")
            return {"Eq": lambda: a == b, "NotEq": lambda: a != b, "Lt": lambda: a < b, "LtE": lambda: a <= b, "Gt": lambda: a > b, "GtE": lambda: a >= b,
                    "Is": lambda: a is b or a == b, "IsNot": lambda: not (a is b or a == b)}[sv[1]]()
        except TypeError as e:
            raise CannotEval(str(e))
    if t == "bool":
        vals = sv[2]
        if sv[1] == "and":
            r = True
            for x in vals:
                r = ev(x, env)
                if not r:
                    return r
            return r
        r = False
        for x in vals:
            r = ev(x, env)
            if r:
                return r
        return r
    if t == "ite":
        return ev(sv[2], env) if ev(sv[1], env) else ev(sv[3], env)
    if t == "sub":
        try:
            return ev(sv[1], env)[ev(sv[2], env)]
        except (IndexError, KeyError, TypeError) as e:
            raise CannotEval(f"subscript: {e}")
    if t == "slice":
        base = ev(sv[1], env)
        lo = ev(sv[2], env) if sv[2] is not None else None
        hi = ev(sv[3], env) if sv[3] is not None else None
        try:
            return base[lo:hi]
        except TypeError as e:
            raise CannotEval(str(e))
    if t == "len":
        try:
            return len(ev(sv[1], env))
        except TypeError as e:
            raise CannotEval(str(e))
    if t == "tuple":
        return tuple(ev(x, env) for x in sv[1])
    if t == "call" and sv[1] in ("range", "enumerate", "list", "tuple", "len", "reversed"):
        args = [ev(a, env) for a in sv[2]]
        try:
            r = {"range": range, "enumerate": enumerate, "list": list, "tuple": tuple, "len": len, "reversed": reversed}[sv[1]](*args)
        except TypeError as e:
            raise CannotEval(str(e))
        return list(r) if sv[1] in ("range", "enumerate", "reversed") else r
    if t == "call" and sv[1] in ("min", "max", "abs", "int", "bool", "cast"):
        args = [ev(a, env) for a in sv[2]]
        if sv[1] == "cast":
            return args[1]
        return {"min": min, "max": max, "abs": abs, "int": int, "bool": bool}[sv[1]](*args)
    if t == "call" and isinstance(sv[1], str) and sv[1] in (".find", ".rfind", ".count", ".startswith", ".endswith", ".isascii", ".strip", ".index") and sv[2]:
        args = [ev(a, env) for a in sv[2] if not (isinstance(a, tuple) and a and a[0] == "kw")]
        if isinstance(args[0], (bytes, bytearray, str)):
            try:
                return getattr(args[0], sv[1][1:])(*args[1:])
            except (TypeError, ValueError) as e:
                raise CannotEval(str(e))
    if t == "call" and sv[1] == "type" and len(sv[2]) == 1:
        return type(ev(sv[2][0], env))
    if t == "call" and sv[1] == "isinstance" and len(sv[2]) == 2:
        try:
            return isinstance(ev(sv[2][0], env), ev(sv[2][1], env))
        except TypeError as e:
            raise CannotEval(str(e))
    if t == "call" and sv[1] in ("bytes", "bytearray") and len(sv[2]) == 1:
        return {"bytes": bytes, "bytearray": bytearray}[sv[1]](ev(sv[2][0], env))
    raise CannotEval(f"leaf/kind {sv[:2]}")


def path_holds(path, env, leaf=None):
    """True/False: all guards of the path evaluate as recorded"""
    for g, pol, _ in path.guards:
        if g[0] == "exc":
            return False  # exceptional continuations are judged separately
        v = ev(g, env, leaf)
        if leaf is not None:
            v = _truth(v)
        if bool(v) != pol:
            return False
    return True
