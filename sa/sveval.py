"""Evaluate symbolic values (sa.paths SV tuples) of integer/boolean kind under an assignment of their leaves.

Used to tabulate extracted transfer functions (e.g. the back-off recurrence) over a finite parameter domain.
The leaves (entry values of fields, parameters) are given by `env`: {sv: python value}."""
from __future__ import annotations


class CannotEval(Exception):
    pass


def ev(sv, env):
    if sv in env:
        return env[sv]
    t = sv[0]
    if t == "c":
        return sv[1]
    if t == "op":
        a, b = ev(sv[2], env), ev(sv[3], env)
        try:
            return {"Add": lambda: a + b, "Sub": lambda: a - b, "Mult": lambda: a * b, "FloorDiv": lambda: a // b, "Mod": lambda: a % b,
                    "Pow": lambda: a ** b if abs(b) < 64 else (_ for _ in ()).throw(CannotEval("pow")), "LShift": lambda: a << b if b < 64 else (_ for _ in ()).throw(CannotEval("shl")),
                    "RShift": lambda: a >> b, "BitAnd": lambda: a & b, "BitOr": lambda: a | b, "BitXor": lambda: a ^ b, "Div": lambda: a / b}[sv[1]]()
        except KeyError:
            raise CannotEval(f"operator {sv[1]}")
        except (TypeError, ZeroDivisionError) as e:
            raise CannotEval(str(e))
    if t == "un":
        a = ev(sv[2], env)
        return {"USub": -a, "UAdd": +a, "Invert": ~a}[sv[1]]
    if t == "not":
        return not ev(sv[1], env)
    if t == "cmp":
        a, b = ev(sv[2], env), ev(sv[3], env)
        try:
            return {"Eq": a == b, "NotEq": a != b, "Lt": a < b, "LtE": a <= b, "Gt": a > b, "GtE": a >= b, "Is": a is b or a == b, "IsNot": not (a is b or a == b)}[sv[1]]
        except TypeError as e:
            raise CannotEval(str(e))
    if t == "bool":
        vals = sv[2]
        if sv[1] == "and":
            r = True
            for x in vals:
                r = ev(x, env)
                if not r:
                    return r
            return r
        r = False
        for x in vals:
            r = ev(x, env)
            if r:
                return r
        return r
    if t == "ite":
        return ev(sv[2], env) if ev(sv[1], env) else ev(sv[3], env)
    if t == "sub":
        try:
            return ev(sv[1], env)[ev(sv[2], env)]
        except (IndexError, KeyError, TypeError) as e:
            raise CannotEval(f"subscript: {e}")
    if t == "slice":
        base = ev(sv[1], env)
        lo = ev(sv[2], env) if sv[2] is not None else None
        hi = ev(sv[3], env) if sv[3] is not None else None
        try:
            return base[lo:hi]
        except TypeError as e:
            raise CannotEval(str(e))
    if t == "len":
        try:
            return len(ev(sv[1], env))
        except TypeError as e:
            raise CannotEval(str(e))
    if t == "tuple":
        return tuple(ev(x, env) for x in sv[1])
    if t == "call" and sv[1] in ("range", "enumerate", "list", "tuple", "len", "reversed"):
        args = [ev(a, env) for a in sv[2]]
        try:
            r = {"range": range, "enumerate": enumerate, "list": list, "tuple": tuple, "len": len, "reversed": reversed}[sv[1]](*args)
        except TypeError as e:
            raise CannotEval(str(e))
        return list(r) if sv[1] in ("range", "enumerate", "reversed") else r
    if t == "call" and sv[1] in ("min", "max", "abs", "int", "bool", "cast"):
        args = [ev(a, env) for a in sv[2]]
        if sv[1] == "cast":
            return args[1]
        return {"min": min, "max": max, "abs": abs, "int": int, "bool": bool}[sv[1]](*args)
    raise CannotEval(f"leaf/kind {sv[:2]}")


def path_holds(path, env):
    """True/False: all guards of the path evaluate as recorded"""
    for g, pol, _ in path.guards:
        if bool(ev(g, env)) != pol:
            return False
    return True
