"""Clauses of one property that are decided by the rule set of a sibling property are imported instead of duplicated:
the sibling's check runs into a scratch report and its violations of the named rules are re-reported under this property."""
from __future__ import annotations

import importlib

from sa.report import ModelViolation, Report, Undecided


_ACTIVE = []
_CACHE = {}


def include(rep, src, other_pid, rules, as_rule, clause, at_prefix=None):
    if other_pid in _ACTIVE or rep.pid in _ACTIVE[:-1]:
        return  # mutual inclusion: the outer run already decides that rule set
    mod = importlib.import_module(f"sa.props.{other_pid.lower()}")
    key = (id(src), other_pid, rep.tier, tuple(_ACTIVE), rep.pid)
    sub = Report(other_pid, rep.tier, rep.seed)
    _ACTIVE.append(rep.pid)
    _ACTIVE.append(other_pid)
    try:
        if key in _CACHE:
            sub, exc = _CACHE[key]
            if exc is not None:
                raise exc
        else:
            try:
                mod.check(src, sub)
            except Exception as exc:
                _CACHE[key] = (sub, exc)
                raise
            _CACHE[key] = (sub, None)
    except Undecided as e:
        rep.undecide(f"{as_rule} clause '{clause}' depends on the rule set of {other_pid}, which is undecided: {str(e)[:160]}")
        return
    except ModelViolation as e:
        rep.violation(as_rule, e.at, f"{other_pid}/R0:{e.construct}", f"{clause}: {e.reason}", e.file, e.line, e.witness)
        return
    except Exception as e:  # the sibling's analysis broke down: this clause is not decided (never a crash of the including check)
        rep.undecide(f"{as_rule} clause '{clause}' depends on the rule set of {other_pid}, whose analysis failed: {type(e).__name__}: {str(e)[:120]}")
        return
    finally:
        _ACTIVE.pop()
        _ACTIVE.pop()
    prefixes = (at_prefix,) if isinstance(at_prefix, str) else tuple(at_prefix or ())
    for u in sub.undecided:
        if prefixes and not any(p_ in u for p_ in prefixes):
            continue  # the sibling could not decide something about other code than the part this clause depends on
        if rules is None or any(u.startswith(r + " ") for r in rules):
            rep.undecide(f"{as_rule} clause '{clause}' depends on {other_pid}: {u[:200]}")
    n = 0
    for f in sub.findings:
        if prefixes and not str(f.at).startswith(prefixes):
            continue
        if rules is None or f.rule in rules:
            n += 1
            rep.violation(as_rule, f.at, f"{other_pid}/{f.rule}:{f.construct}", f"{clause}: {f.reason}", f.file, f.line, f.witness)
    if n == 0 and rules is not None and sub.undecided:
        # a rule this clause depends on that the sibling never got to (its evaluation stopped earlier): not decided
        done = {r for r, *_ in sub.obligations}
        miss = sorted(r for r in rules if r not in done)
        if miss and not any(f"depends on {other_pid}" in u for u in rep.undecided):
            rep.undecide(f"{as_rule} clause '{clause}' depends on {other_pid}/{','.join(miss)}, not evaluated there: {sub.undecided[0][:160]}")
            return
    if n == 0:
        cnt = sum(1 for r, *_ in sub.obligations if rules is None or r in rules)
        rep.ok(as_rule, f"{clause} (rules {other_pid}/{','.join(sorted(rules)) if rules else 'all'})", f"{cnt} obligations of the sibling rule set discharged on the same source", nontrivial=False)
